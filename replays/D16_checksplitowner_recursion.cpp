// Reproducer for unbounded recursion in ClipperBase::CheckSplitOwner on the
// UNMODIFIED Clipper2 sources (no seeded change needed).
//
// 8 axis-parallel rectangles on an even grid, ClipType::Xor, FillRule::EvenOdd,
// executed into a PolyTree64.  Executing the same input into Paths64 is fine.
// Expected on the unmodified library: SIGSEGV (stack exhaustion) inside
// BuildTree64 -> RecursiveCheckOwners -> CheckSplitOwner -> CheckSplitOwner -> ...
//
//   ./crash_demo      -> variant A (minimised, small grid 12x6, contains duplicate/coincident edges)
//   ./crash_demo B    -> variant B (rectangle-removal-only reduction, no duplicate rectangles)
//
// exit 0 = PolyTree execution returned (no defect); a crash = defect reproduced
#include "clipper2/clipper.h"
#include <algorithm>
#include <iostream>

using namespace Clipper2Lib;

struct Rc { int x0, y0, x1, y1, reversed, is_clip; };

static const Rc kA[] = {
  {2, 0, 6, 2, 0, 0}, {2, 0, 4, 4, 0, 0}, {2, 0, 6, 2, 0, 0}, {2, 0, 10, 2, 0, 0},
  {8, 0, 10, 6, 0, 0}, {0, 0, 8, 2, 0, 0}, {2, 0, 12, 4, 0, 0}, {4, 0, 12, 6, 0, 0}
};
static const Rc kB[] = {
  {10, 22, 20, 26, 1, 0}, {4, 12, 18, 36, 0, 0}, {4, 18, 20, 26, 1, 0}, {16, 16, 36, 26, 0, 0},
  {20, 20, 28, 44, 0, 0}, {4, 8, 26, 26, 0, 0}, {12, 18, 34, 32, 0, 0}, {18, 22, 34, 38, 1, 1}
};

int main(int argc, char** argv)
{
  const bool useB = argc > 1 && (argv[1][0] == 'B' || argv[1][0] == 'b');
  const Rc* rc = useB ? kB : kA;
  const size_t n = useB ? sizeof(kB) / sizeof(kB[0]) : sizeof(kA) / sizeof(kA[0]);

  Paths64 subj, clip;
  for (size_t i = 0; i < n; ++i)
  {
    Path64 p{ {rc[i].x0, rc[i].y0}, {rc[i].x1, rc[i].y0}, {rc[i].x1, rc[i].y1}, {rc[i].x0, rc[i].y1} };
    if (rc[i].reversed) std::reverse(p.begin(), p.end());
    (rc[i].is_clip ? clip : subj).push_back(p);
  }
  std::cout << "variant " << (useB ? "B" : "A") << ": " << subj.size() << " subject + "
    << clip.size() << " clip rectangles, Xor / EvenOdd" << std::endl;

  {
    Clipper64 c;
    c.AddSubject(subj);
    c.AddClip(clip);
    Paths64 sol;
    bool ok = c.Execute(ClipType::Xor, FillRule::EvenOdd, sol);
    std::cout << "Paths64 execution: ok=" << ok << ", " << sol.size() << " paths, area " << Area(sol) << std::endl;
  }
  {
    Clipper64 c;
    c.AddSubject(subj);
    c.AddClip(clip);
    PolyTree64 tree;
    std::cout << "PolyTree64 execution ..." << std::endl;
    bool ok = c.Execute(ClipType::Xor, FillRule::EvenOdd, tree);   // <- stack overflow here
    std::cout << "PolyTree64 execution: ok=" << ok << ", " << PolyTreeToPaths64(tree).size()
      << " paths, area " << tree.Area() << std::endl;
  }
  std::cout << "no crash" << std::endl;
  return 0;
}
