#include "clipper2/clipper.h"
#include <cstdio>
using namespace Clipper2Lib;
int main(){
  PathsD in{ {{1.234,1.234},{5.678,1.234},{5.678,5.678}} };
  int prec = 2; double scale = 100;
  PathsD got = InflatePaths(in, 0.0, JoinType::Round, EndType::Polygon, 2.0, prec);
  int ec = 0;
  Paths64 scaled = ScalePaths<int64_t,double>(in, scale, ec);
  Paths64 r64 = InflatePaths(scaled, 0.0 * scale, JoinType::Round, EndType::Polygon, 2.0);
  PathsD want = ScalePaths<double,int64_t>(r64, 1/scale, ec);
  printf("D API   : (%.4f,%.4f)\ninteger : (%.4f,%.4f)\n", got[0][0].x, got[0][0].y, want[0][0].x, want[0][0].y);
  return (got[0][0].x == want[0][0].x) ? 0 : 1;
}
