#include "clipper2/clipper.h"
#include <cstdio>
#include <cstdlib>
using namespace Clipper2Lib;
int main(int argc, char** argv) {
  int n = argc > 1 ? atoi(argv[1]) : 8000;
  Path64 p;
  for (int i = 0; i < n; ++i) p.push_back(Point64((int64_t)i, (int64_t)((i % 2 ? 1 : -1) * (int64_t)i * 1000)));
  Path64 r = RamerDouglasPeucker(p, 1.0);
  printf("n=%d kept=%zu\n", n, r.size());
  return 0;
}
