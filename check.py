#!/usr/bin/env python3
"""Entry point of the static checks:  check.py <property-id> [--tier quick|thorough] [--replay <path>]

exit 0  the decided clause of the property holds on everything analysed
exit 1  a violation not listed in known_findings.json (prints VIOLATION property=<id> replay=<path>)
exit 2  analysis broken: an anchor vanished, an unsupported construct was met, an instance floor or a
        positive control failed.  Never a pass, never a violation.
"""
import argparse
import importlib
import json
import os
import sys
import traceback

sys.path.insert(0, os.path.dirname(os.path.abspath(__file__)))
from vlib.extract import AnalysisBroken  # noqa: E402
from vlib import report  # noqa: E402

CHECKS = {
    "C01": "vlib.checks.c01",
    "C03": "vlib.checks.c03",
    "C04": "vlib.checks.c04",
    "C05": "vlib.checks.c05",
    "C06": "vlib.checks.c06",
    "C07": "vlib.checks.c07",
    "C08": "vlib.checks.c08",
    "C09": "vlib.checks.c09",
    "C10": "vlib.checks.c10",
    "C11": "vlib.checks.c11",
    "C12": "vlib.checks.c12",
    "C13": "vlib.checks.c13",
    "C14": "vlib.checks.c14",
    "C15": "vlib.checks.c15",
    "C16": "vlib.checks.c16",
    "C17": "vlib.checks.c17",
    "C18": "vlib.checks.c18",
    "C19": "vlib.checks.c19",
    "C20": "vlib.checks.c20",
}


def main():
    ap = argparse.ArgumentParser()
    ap.add_argument("pid")
    ap.add_argument("--tier", default=os.environ.get("VERIF_TIER", "quick"), choices=["quick", "thorough"])
    ap.add_argument("--replay", default=None)
    a = ap.parse_args()
    pid = a.pid.upper()
    try:
        seed = int(os.environ.get("VERIF_SEED", "0"))
    except ValueError:
        seed = 0
    if pid not in CHECKS:
        print("unknown or unclaimed property %s" % pid)
        return 2
    try:
        mod = importlib.import_module(CHECKS[pid])
        chk = report.Check(pid, a.tier, seed, level=getattr(mod, "LEVEL", "other"))
        if a.replay:
            with open(a.replay) as f:
                v = json.load(f)
            print("replaying rule %s instance %s [%s] on the current tree" % (v.get("rule"), v.get("function"), v.get("key")))
            chk.replay_filter = (v.get("rule"), v.get("function"), v.get("key"))
        mod.run(chk)
        if a.tier == "thorough" and not a.replay:
            from vlib import controls
            controls.run(pid, chk)
        if a.replay:
            flt = chk.replay_filter
            chk.violations = [x for x in chk.violations if (x["rule"], x["function"], x["key"]) == flt]
        rc = chk.finish()
        nk = getattr(chk, "n_known", 0)
        print("%s %s tier=%s: %d rule instances, %d known finding(s), %d new violation(s), %.1fs" % (
            pid, "FAIL" if rc else "ok", a.tier, sum(r["instances"] for r in chk.rules.values()),
            nk, len(chk.violations) - nk, chk._t()))
        return rc
    except AnalysisBroken as e:
        # an anchor or a floor gave way *after* violations had been found (typically because of them): the violations are the result
        try:
            known = {(k.get("rule"), k.get("function"), k.get("key")) for k in report.load_known() if k.get("property") == pid}
            new = [v for v in chk.violations if (v["rule"], v["function"], v["key"]) not in known]
        except Exception:
            new = []
        if new and not a.replay:
            print("note: the analysis stopped early (%s); reporting the violations found up to that point" % str(e)[:200])
            os.environ["VERIF_NO_EVIDENCE"] = os.environ.get("VERIF_NO_EVIDENCE", "") or "1"
            return chk.finish()
        return report.broken(pid, str(e))
    except Exception:
        traceback.print_exc()
        return report.broken(pid, "internal error in the checker (see traceback)")


if __name__ == "__main__":
    sys.exit(main())
