"""A small reader for textual LLVM 14 IR (typed pointers, -O0 + mem2reg).

Yields, per module: named struct types, globals, function declarations and
definitions; per function: basic blocks with successors (normal and unwind
edges kept apart) and instructions reduced to what the engines need
(loads, stores, GEPs with constant indices, casts, phis, calls with resolved
callee and argument registers).  Line-based parsing only.
"""
import os
import pickle
import re
import subprocess

from .extract import AnalysisBroken, ir_path

_RE_DEFINE = re.compile(r'^define\s+(.*?)@("[^"]+"|[\w.$]+)\((.*)\)\s*(.*)\{\s*$')
_RE_DECLARE = re.compile(r'^declare\s+(.*?)@("[^"]+"|[\w.$]+)\(')
_RE_GLOBAL = re.compile(r'^@("[^"]+"|[\w.$]+)\s*=\s*(.*)$')
_RE_TYPE = re.compile(r'^(%"[^"]+"|%[\w.$]+)\s*=\s*type\s+(.*)$')
_RE_LABEL = re.compile(r'^([\w.$]+):')
_RE_REG = re.compile(r'%"[^"]+"|%[\w.$]+')
_RE_DBG = re.compile(r',?\s*!dbg !(\d+)')
_RE_DILOC = re.compile(r'^!(\d+) = !DILocation\(line: (\d+)')
_RE_CALLEE = re.compile(r'@("[^"]+"|[\w.$]+)\(')


class Inst:
    __slots__ = ("op", "dst", "text", "ptr", "val", "callee", "args", "struct", "idx", "src", "line",
                 "incoming", "ty")

    def __init__(self, op, text):
        self.op = op
        self.text = text
        self.dst = None
        self.ptr = None
        self.val = None
        self.callee = None
        self.args = None
        self.struct = None
        self.idx = None
        self.src = None
        self.line = None
        self.incoming = None
        self.ty = None

    def __repr__(self):
        return "<%s %s>" % (self.op, self.text[:100])


class Block:
    __slots__ = ("label", "insts", "succs", "unwind")

    def __init__(self, label):
        self.label = label
        self.insts = []
        self.succs = []
        self.unwind = []


class Function:
    __slots__ = ("name", "demangled", "params", "blocks", "order", "attrs", "linkage", "ret", "line0", "header")

    def __init__(self, name):
        self.name = name
        self.demangled = name
        self.params = []
        self.blocks = {}
        self.order = []
        self.attrs = ""
        self.linkage = ""
        self.ret = ""
        self.header = ""

    @property
    def short(self):
        d = self.demangled
        i = d.find("(")
        return d[:i] if i > 0 else d

    def insts(self):
        for l in self.order:
            for i in self.blocks[l].insts:
                yield i

    def calls(self):
        for i in self.insts():
            if i.op in ("call", "invoke"):
                yield i


def split_top(s, sep=","):
    """Split on `sep` at nesting depth 0 of (), [], {}, <> and outside quotes."""
    out, depth, cur, inq = [], 0, [], False
    for ch in s:
        if ch == '"':
            inq = not inq
        if not inq:
            if ch in "([{<":
                depth += 1
            elif ch in ")]}>":
                depth -= 1
            elif ch == sep and depth == 0:
                out.append("".join(cur).strip())
                cur = []
                continue
        cur.append(ch)
    t = "".join(cur).strip()
    if t:
        out.append(t)
    return out


def _last_reg(s):
    m = _RE_REG.findall(s)
    return m[-1] if m else None


def _arg_value(a):
    """The value operand of a call argument 'type attrs value'."""
    a = a.strip()
    if a.startswith("metadata"):
        return None
    # value is the last token: %reg, @global, constant
    m = re.search(r'(%"[^"]+"|%[\w.$]+|@"[^"]+"|@[\w.$]+|null|undef|true|false|-?[\d.e+x\w]+)\s*$', a)
    return m.group(1) if m else None


class Module:
    def __init__(self, cfg, tu=None):
        self.cfg = cfg
        self.tu = tu
        self.path = ir_path(cfg, tu)
        self.types = {}
        self.globals = {}
        self.decls = {}
        self.funcs = {}
        self.dbg_line = {}
        pk = self.path + ".pickle"
        if os.path.isfile(pk):
            try:
                with open(pk, "rb") as f:
                    d = pickle.load(f)
                self.types, self.globals, self.decls, self.funcs = d
                self._by_short = None
                return
            except Exception:
                pass
        self._parse()
        self._demangle()
        with open(pk + ".tmp", "wb") as f:
            pickle.dump((self.types, self.globals, self.decls, self.funcs), f, protocol=pickle.HIGHEST_PROTOCOL)
        os.replace(pk + ".tmp", pk)
        self._by_short = None

    # ------------------------------------------------------------------
    def _parse(self):
        cur = None
        blk = None
        pending_switch = None
        pending_invoke = None
        dbg_line = {}
        with open(self.path) as f:
            lines = f.readlines()
        # first pass: DILocation lines
        for ln in lines:
            if ln.startswith("!"):
                m = _RE_DILOC.match(ln)
                if m:
                    dbg_line[m.group(1)] = int(m.group(2))
        for ln in lines:
            ln = ln.rstrip("\n")
            if cur is None:
                if ln.startswith("define"):
                    m = _RE_DEFINE.match(ln)
                    if not m:
                        raise AnalysisBroken("cannot parse IR define line: " + ln[:200])
                    name = m.group(2).strip('"')
                    cur = Function(name)
                    cur.header = ln
                    pre = m.group(1)
                    cur.linkage = pre
                    cur.attrs = m.group(4)
                    ps = split_top(m.group(3))
                    cur.params = []
                    for p in ps:
                        if p == "...":
                            continue
                        r = _last_reg(p)
                        ty = p.split(" ")[0] if not p.startswith('%"') else p[:p.index('"', 2) + 1] + p[p.index('"', 2) + 1:].split(" ")[0]
                        cur.params.append((r, p))
                    blk = Block("entry")
                    cur.blocks["entry"] = blk
                    cur.order.append("entry")
                elif ln.startswith("declare"):
                    m = _RE_DECLARE.match(ln)
                    if m:
                        self.decls[m.group(2).strip('"')] = ln
                elif ln.startswith("@"):
                    m = _RE_GLOBAL.match(ln)
                    if m:
                        self.globals[m.group(1).strip('"')] = m.group(2)
                elif ln.startswith("%"):
                    m = _RE_TYPE.match(ln)
                    if m:
                        self.types[m.group(1)] = m.group(2)
                continue
            # inside a function
            if ln == "}":
                self.funcs[cur.name] = cur
                cur = None
                blk = None
                continue
            s = ln.strip()
            if not s or s.startswith(";"):
                continue
            if pending_switch is not None:
                if s.startswith("]"):
                    pending_switch = None
                else:
                    m = re.search(r'label (%[\w.$]+)', s)
                    if m:
                        blk.succs.append(m.group(1)[1:])
                continue
            if pending_invoke is not None:
                m = re.search(r'to label (%[\w.$]+) unwind label (%[\w.$]+)', s)
                if m:
                    blk.succs.append(m.group(1)[1:])
                    blk.unwind.append(m.group(2)[1:])
                    pending_invoke = None
                    continue
            m = _RE_LABEL.match(s)
            if m and not s.startswith("%"):
                lab = m.group(1)
                blk = Block(lab)
                cur.blocks[lab] = blk
                cur.order.append(lab)
                continue
            line = None
            md = _RE_DBG.search(s)
            if md:
                line = dbg_line.get(md.group(1))
            # strip metadata suffixes
            body = re.sub(r',\s*!\w+ !\d+', '', s)
            body = re.sub(r'\s*#\d+\s*$', '', body)
            dst = None
            mm = re.match(r'^(%"[^"]+"|%[\w.$]+) = (.*)$', body)
            rest = body
            if mm:
                dst = mm.group(1)
                rest = mm.group(2)
            toks = rest.split(None, 1)
            op = toks[0]
            if op in ("tail", "musttail", "notail"):
                rest = toks[1]
                op = rest.split(None, 1)[0]
            ins = Inst(op, body)
            ins.dst = dst
            ins.line = line
            if op == "load":
                ins.ptr = _last_reg(rest.split(", align")[0]) or self._last_global(rest)
                ins.ty = rest[5:].split(",")[0].strip()
            elif op == "store":
                parts = split_top(rest[6:])
                ins.val = _arg_value(parts[0])
                ins.ptr = _arg_value(parts[1]) if len(parts) > 1 else None
            elif op == "getelementptr":
                r2 = rest[len("getelementptr"):].strip()
                if r2.startswith("inbounds"):
                    r2 = r2[8:].strip()
                parts = split_top(r2)
                ins.struct = parts[0]
                ins.src = _arg_value(parts[1])
                idx = []
                for p in parts[2:]:
                    v = p.split()[-1]
                    idx.append(int(v) if re.match(r'^-?\d+$', v) else v)
                ins.idx = idx
            elif op in ("bitcast", "addrspacecast", "inttoptr", "ptrtoint"):
                m2 = re.match(r'^\w+\s+(.*)\s+to\s+(.*)$', rest)
                if m2:
                    ins.src = _arg_value(m2.group(1))
                    ins.ty = m2.group(2)
            elif op == "phi":
                inc = re.findall(r'\[\s*([^,\]]+),\s*(%[\w.$]+)\s*\]', rest)
                ins.incoming = [(a.strip(), b[1:]) for a, b in inc]
            elif op in ("call", "invoke"):
                mcal = _RE_CALLEE.search(rest)
                # find the argument list: the last top-level (...) group before attrs
                callee = None
                if mcal and not re.match(r'^(call|invoke)\s.*\sasm\s', rest):
                    callee = mcal.group(1).strip('"')
                    astart = mcal.end() - 1
                else:
                    # indirect call: '... %reg(args)'
                    mi = re.search(r'(%"[^"]+"|%[\w.$]+)\(', rest)
                    astart = mi.end() - 1 if mi else None
                    callee = None
                    ins.src = mi.group(1) if mi else None
                ins.callee = callee
                args = []
                if astart is not None:
                    depth = 0
                    end = None
                    inq = False
                    for i in range(astart, len(rest)):
                        ch = rest[i]
                        if ch == '"':
                            inq = not inq
                        if inq:
                            continue
                        if ch == "(":
                            depth += 1
                        elif ch == ")":
                            depth -= 1
                            if depth == 0:
                                end = i
                                break
                    if end is not None:
                        for a in split_top(rest[astart + 1:end]):
                            args.append((_arg_value(a), a))
                ins.args = args
                if op == "invoke":
                    m3 = re.search(r'to label (%[\w.$]+) unwind label (%[\w.$]+)', s)
                    if m3:
                        blk.succs.append(m3.group(1)[1:])
                        blk.unwind.append(m3.group(2)[1:])
                    else:
                        pending_invoke = True
            elif op == "br":
                for m4 in re.finditer(r'label (%[\w.$]+)', rest):
                    blk.succs.append(m4.group(1)[1:])
            elif op == "switch":
                m5 = re.search(r'label (%[\w.$]+)', rest)
                if m5:
                    blk.succs.append(m5.group(1)[1:])
                if not s.rstrip().endswith("]"):
                    pending_switch = True
                else:
                    for m6 in list(re.finditer(r'label (%[\w.$]+)', rest))[1:]:
                        blk.succs.append(m6.group(1)[1:])
            blk.insts.append(ins)

    @staticmethod
    def _last_global(s):
        m = re.findall(r'@"[^"]+"|@[\w.$]+', s)
        return m[-1] if m else None

    def _demangle(self):
        names = list(self.funcs.keys()) + list(self.decls.keys()) + list(self.globals.keys())
        try:
            r = subprocess.run(["llvm-cxxfilt-14"], input="\n".join(names).encode(), stdout=subprocess.PIPE)
            dem = r.stdout.decode().splitlines()
        except OSError as e:
            raise AnalysisBroken("llvm-cxxfilt-14 not runnable: %s" % e)
        if len(dem) != len(names):
            raise AnalysisBroken("demangler returned %d names for %d" % (len(dem), len(names)))
        self.demangled = dict(zip(names, dem))
        for n, f in self.funcs.items():
            f.demangled = self.demangled[n]
        self.decl_demangled = {n: self.demangled[n] for n in self.decls}
        self.global_demangled = {n: self.demangled[n] for n in self.globals}
        # stash in pickled tuple via attributes on functions; decl/global names re-derived lazily
        self.decls = {n: (self.decls[n], self.demangled[n]) for n in self.decls}
        self.globals = {n: (self.globals[n], self.demangled[n]) for n in self.globals}

    # ------------------------------------------------------------------
    def func_by_demangled_prefix(self, prefix):
        return [f for f in self.funcs.values() if f.demangled.startswith(prefix)]

    def find(self, short, required=True):
        """Functions whose demangled name without parameter list equals `short`."""
        if self._by_short is None:
            self._by_short = {}
            for f in self.funcs.values():
                self._by_short.setdefault(f.short, []).append(f)
        r = self._by_short.get(short, [])
        if required and not r:
            raise AnalysisBroken("IR function %s not found in configuration %s" % (short, self.cfg))
        return r

    def callgraph(self):
        g = {}
        for n, f in self.funcs.items():
            s = set()
            for c in f.calls():
                if c.callee:
                    s.add(c.callee)
                else:
                    s.add("<indirect>")
            # functions whose address is taken as an argument are treated as callees too
            g[n] = s
        return g
