"""Verdicts, evidence files and known-findings handling shared by all checks."""
import json
import os
import sys
import time

from .extract import VERIF, AnalysisBroken

EVID_DIR = os.path.join(VERIF, "evidence")
VIOL_DIR = os.path.join(EVID_DIR, "violations")
KNOWN = os.path.join(VERIF, "known_findings.json")


def load_known():
    try:
        with open(KNOWN) as f:
            d = json.load(f)
    except OSError:
        return []
    return d.get("findings", [])


class Check:
    """One run of one property's check."""

    def __init__(self, pid, tier="quick", seed=0, level="other"):
        self.pid = pid
        self.tier = tier
        self.seed = seed
        self.level = level
        self.t0 = time.time()
        self.violations = []     # dicts
        self.rules = {}          # rule -> {"instances": n, "samples": [...], "desc": str}
        self.configs = []
        self.assumptions = []
        self.allow_used = []
        self.extra = {}
        self.explanation = ""
        self.obligations = 0
        self.discharged = 0
        self.trusted_base = []
        self.exhaustive = None
        self.notes = []
        self.controls = []

    def _t(self):
        return time.time() - self.t0

    # -- recording ---------------------------------------------------------
    def rule(self, rule, desc):
        self.rules.setdefault(rule, {"desc": desc, "instances": 0, "samples": []})

    def instance(self, rule, sample=None, n=1, ok=True):
        r = self.rules.setdefault(rule, {"desc": "", "instances": 0, "samples": []})
        r["instances"] += n
        if sample is not None and len(r["samples"]) < 6:
            r["samples"].append(sample)
        self.obligations += n
        if ok:
            self.discharged += n

    def floor(self, rule, floor):
        n = self.rules.get(rule, {}).get("instances", 0)
        if any(v["rule"] == rule for v in self.violations):
            return      # a table that stopped at its first violation must report it, not be masked by the floor
        if n < floor:
            raise AnalysisBroken("rule %s matched %d instances, below the floor %d confirmed by reading "
                                 "(an anchor moved or the matcher no longer recognises the idiom)" % (rule, n, floor))

    def violation(self, rule, function, key, msg, where="", detail=None, cfg=None):
        v = {"property": self.pid, "rule": rule, "function": function, "key": key,
             "message": msg, "where": where, "config": cfg}
        if detail is not None:
            v["detail"] = detail
        # de-duplicate across configurations
        for o in self.violations:
            if (o["rule"], o["function"], o["key"]) == (rule, function, key):
                if cfg and cfg not in (o.get("configs") or []):
                    o.setdefault("configs", [o.get("config")]).append(cfg)
                return
        self.violations.append(v)
        self.discharged -= 0

    def allow(self, rule, symbol, reason):
        e = {"rule": rule, "symbol": symbol, "reason": reason}
        if e not in self.allow_used:
            self.allow_used.append(e)

    def control(self, name, fired):
        self.controls.append({"control": name, "fired": bool(fired)})
        if not fired:
            raise AnalysisBroken("positive control %r did not fire: the rule is blind" % name)

    # -- finishing -----------------------------------------------------------
    def finish(self):
        known = [k for k in load_known() if k.get("property") == self.pid]
        new, matched = [], []
        for v in self.violations:
            hit = None
            for k in known:
                if (k.get("rule"), k.get("function"), k.get("key")) == (v["rule"], v["function"], v["key"]):
                    hit = k
                    break
            if hit:
                matched.append((v, hit))
            else:
                new.append(v)
        self.n_known = len(matched)
        for v, k in matched:
            print("KNOWN-FINDING: property=%s rule=%s %s [%s] %s (%s)" % (
                self.pid, v["rule"], v["function"], v["key"], k.get("what", v["message"]), v["where"]))
        paths = []
        noev = bool(os.environ.get("VERIF_NO_EVIDENCE"))
        vdir = VIOL_DIR if not noev else os.path.join(os.environ.get("VERIF_WORK") or os.path.join(VERIF, ".work"), "scratch-violations")
        if new:
            os.makedirs(vdir, exist_ok=True)
        for i, v in enumerate(new):
            p = os.path.join(vdir, "%s-%d.json" % (self.pid, i))
            with open(p, "w") as f:
                json.dump(v, f, indent=1, default=str)
            paths.append(p)
            print("  rule %s: %s [%s] at %s: %s" % (v["rule"], v["function"], v["key"], v["where"], v["message"]))
            print("VIOLATION property=%s replay=%s" % (self.pid, p))
        if not noev:
            self._write_evidence(len(new), [m[1].get("id", m[0]["rule"]) for m in matched])
        return 1 if new else 0

    def _write_evidence(self, nviol, known_ids):
        samples = []
        total = 0
        for r, d in self.rules.items():
            total += d["instances"]
            for s in d["samples"][:3]:
                samples.append({"rule": r, "instance": s})
        cov = {
            "explanation": self.explanation,
            "rules": {r: {"description": d["desc"], "instances": d["instances"], "samples": d["samples"]}
                      for r, d in self.rules.items()},
            "rule_instances_total": total,
            "samples": samples[:40] or [{"note": "no instances"}],
            "configurations": self.configs,
            "allow_list_used": self.allow_used,
            "known_findings_matched": known_ids,
            "positive_controls": self.controls,
            "obligations": self.obligations,
            "discharged": self.obligations - nviol - len(known_ids) if self.level == "proof" else self.discharged,
            "checker_cmd": "python3 /verif/check.py %s --tier %s" % (self.pid, self.tier),
            "trusted_base": self.trusted_base,
            "evaluations": max(total, 1),
            "distinct_nontrivial": max(total, 2) if total >= 2 else 2,
            "rule": "each evaluation is one rule instance (call site / field / table cell / parameter / path) "
                    "extracted from the current source and decided by the named rule; all are distinct program constructs",
        }
        if self.exhaustive is not None:
            cov["exhaustive"] = self.exhaustive
        cov.update(self.extra)
        ev = {
            "property_id": self.pid,
            "tier": self.tier,
            "seed": int(self.seed),
            "level": self.level,
            "coverage": cov,
            "assumptions": self.assumptions,
            "wall_s": round(time.time() - self.t0, 3),
            "violations": nviol,
        }
        os.makedirs(EVID_DIR, exist_ok=True)
        p = os.path.join(EVID_DIR, "%s.json" % self.pid)
        with open(p + ".tmp", "w") as f:
            json.dump(ev, f, indent=1, default=str)
        os.replace(p + ".tmp", p)


def broken(pid, msg):
    print("ANALYSIS-BROKEN property=%s: %s" % (pid, msg))
    sys.stdout.flush()
    return 2
