"""Mutation controls of the thorough tier.

For each property a small table of edits, each breaking one rule instance class
while still compiling.  The thorough tier copies the analysed sources into a
scratch directory outside /repo and /verif (removed afterwards), applies one
edit, re-runs the property's quick check against the copy (VERIF_REPO) and
requires exit 1 with a violation of the expected rule.  A control that does not
fire makes the run analysis-broken (exit 2): the rule would be blind.
An edit whose anchor text is no longer present in the current tree is skipped
and reported as such (the tree under analysis may itself have been edited).
"""
import os
import shutil
import subprocess
import sys
import tempfile
from concurrent.futures import ThreadPoolExecutor

from .extract import REPO, VERIF, AnalysisBroken

E = "CPP/Clipper2Lib/src/clipper.engine.cpp"
O = "CPP/Clipper2Lib/src/clipper.offset.cpp"
R = "CPP/Clipper2Lib/src/clipper.rectclip.cpp"
H = "CPP/Clipper2Lib/include/clipper2/"

CONTROLS = {
    "C01": [
        ('Reset no longer re-arms the success flag', 'CPP/Clipper2Lib/src/clipper.engine.cpp', '    sel_ = nullptr;\n    succeeded_ = true;', '    sel_ = nullptr;', 'SUCCESS.re-armed'),
        ("TopX measures from the top vertex's x", 'CPP/Clipper2Lib/src/clipper.engine.cpp', 'return ae.bot.x + static_cast<int64_t>(nearbyint(ae.dx * (currentY - ae.bot.y)));', 'return ae.top.x + static_cast<int64_t>(nearbyint(ae.dx * (currentY - ae.bot.y)));', 'POLY.topx'),
        ('HI_PRECISION intersection: hitx adds where it must subtract', 'CPP/Clipper2Lib/include/clipper2/clipper.core.h', '      double hitx = ((ln1dx * ln1c) - (ln2dx * ln0c)) / det;\n      double hity = ((ln2dy * ln0c) - (ln1dy * ln1c)) / det;\n\n      ip.x = originx + (T)nearbyint(hitx);', '      double hitx = ((ln1dx * ln1c) + (ln2dx * ln0c)) / det;\n      double hity = ((ln2dy * ln0c) - (ln1dy * ln1c)) / det;\n\n      ip.x = originx + (T)nearbyint(hitx);', 'POLY.intersect'),
        ("winding counts narrowed to 8 bits", H + "clipper.engine.h", "\t\tint wind_cnt = 0;", "\t\tint8_t wind_cnt = 0;", "TYPE.wind-count"),
        ("clamped intersection takes its x at the top of the scanbeam", E, "        if (abs_dx1 < abs_dx2) ip.x = TopX(e1, ip.y);\n        else ip.x = TopX(e2, ip.y);", "        if (abs_dx1 < abs_dx2) ip.x = TopX(e1, top_y);\n        else ip.x = TopX(e2, top_y);", "IP.on-edge"),
        ("wrong cell Intersection/Positive", E, "        return (e.wind_cnt2 > 0);", "        return (e.wind_cnt2 >= 0);", "T.closed"),
        ("Union treats EvenOdd like Positive", E, "      default:\n        return (e.wind_cnt2 == 0);\n      }\n      break;\n\n    case ClipType::Difference:",
         "      default:\n        return (e.wind_cnt2 <= 0);\n      }\n      break;\n\n    case ClipType::Difference:", "T.closed"),
        ("TopX multiplies before dividing, in int64", E, "return ae.bot.x + static_cast<int64_t>(nearbyint(ae.dx * (currentY - ae.bot.y)));",
         "return ae.bot.x + static_cast<int64_t>(nearbyint(double((ae.top.x - ae.bot.x) * (currentY - ae.bot.y)) / double(ae.top.y - ae.bot.y)));", "INT64.product"),
        ("same-type winding update with the wrong sign", E, "          e2.wind_cnt -= e1.wind_dx;", "          e2.wind_cnt += e1.wind_dx;", "T.wind-crossing"),
        ("inserted edge counts away from zero instead of towards it", E,
         "            //otherwise keep 'reducing' the WC by 1 (ie towards 0) ...\n            e.wind_cnt = e2->wind_cnt + e.wind_dx;",
         "            //otherwise keep 'reducing' the WC by 1 (ie towards 0) ...\n            e.wind_cnt = e2->wind_cnt - e.wind_dx;", "T.wind-insert"),
        ("Union starts a contour where the other type already covers", E, "          if (e1Wc2 <= 0 && e2Wc2 <= 0)", "          if (e1Wc2 < 0 && e2Wc2 < 0)", "T.cross-dispatch"),
    ],
    "C01x": [],
    "C03": [
        ("the high-precision origin is the lower bound of one box", H + "clipper.core.h", "      int64_t originy = (CC_MIN(bb0maxy, bb1maxy) + CC_MAX(bb0miny, bb1miny)) >> 1;", "      int64_t originy = (CC_MIN(bb0maxy, bb1maxy) - CC_MAX(bb0miny, bb1miny)) >> 1;", "ORIGIN.convex"),
        ("minima_list_sorted_ no longer invalidated by AddPaths", E, "    if (is_open) has_open_paths_ = true;\n    minima_list_sorted_ = false;", "    if (is_open) has_open_paths_ = true;", "SORTED.invalidate"),
        ("IsCollinear's last factor measured from pt1", 'CPP/Clipper2Lib/include/clipper2/clipper.core.h', '    const auto d = pt2.x - sharedPt.x;', '    const auto d = pt2.x - pt1.x;', 'POLY.cross'),
        ("DoSplitOp inserts the crossing point although it equals prevOp", E, "    if (ip == prevOp->pt || ip == nextNextOp->pt)", "    if (ip == nextNextOp->pt)", "SPLIT.no-duplicate"),
        ("point equality compares z as well", H + "clipper.core.h", "      return a.x == b.x && a.y == b.y;", "#ifdef USINGZ\n      return a.x == b.x && a.y == b.y && a.z == b.z;\n#else\n      return a.x == b.x && a.y == b.y;\n#endif", "T.point-equality"),
        ("closed path built without cleaning (D engine)", E,
         "        CleanCollinear(outrec);\n        //closed paths should always return a Positive orientation\n        if (BuildPathD(",
         "        //closed paths should always return a Positive orientation\n        if (BuildPathD(", "PRECEDE"),
        ("removal condition inverted on PreserveCollinear", E, "op2->pt == op2->next->pt || !preserve_collinear_ ||",
         "op2->pt == op2->next->pt || preserve_collinear_ ||", "T.removal"),
    ],
    "C04": [
        ("PolyPathD(parent, PathD) no longer inherits the parent's scale", H + "clipper.engine.h", "\t\t\tscale_ = parent ? parent->scale_ : 1.0;\n\t\t\tpolygon_ = path;", "\t\t\tscale_ = 1.0;\n\t\t\tpolygon_ = path;", "SCALE.inherited"),
        ("DoSplitOp does not record the split in tree mode", E, "          if (!outrec->splits) outrec->splits = new OutRecList();\n          outrec->splits->emplace_back(newOr);", "          if (!outrec->splits) outrec->splits = new OutRecList();", "SPLIT.recorded"),
        ("SetOwner links a record below its own descendant", E, "    while (tmp && tmp != outrec) tmp = tmp->owner;\n    if (tmp) new_owner->owner = outrec->owner;", "    while (tmp && tmp != outrec) tmp = tmp->owner;", "OWNER.reparent"),
        ('local minimum without a hot edge on its left keeps the owner it had', 'CPP/Clipper2Lib/src/clipper.engine.cpp', '      else\n      {\n        outrec->owner = nullptr;', '      else\n      {', 'OWNER.assigned'),
        ('tree builder caches the number of output records', 'CPP/Clipper2Lib/src/clipper.engine.cpp', '    for (size_t i = 0; i < outrec_list_.size(); ++i)\n    {\n      OutRec* outrec = outrec_list_[i];\n      if (!outrec || !outrec->pts) continue;\n      if (outrec->is_open)\n      {\n        Path64 path;', '    const size_t cnt = outrec_list_.size();\n    for (size_t i = 0; i < cnt; ++i)\n    {\n      OutRec* outrec = outrec_list_[i];\n      if (!outrec || !outrec->pts) continue;\n      if (outrec->is_open)\n      {\n        Path64 path;', 'LOOP.bound-live'),
        ("a clear inside vote is sent to the midpoint fallback", E, "    if (std::abs(outside_cnt) > 1) return (outside_cnt < 0);", "    if (outside_cnt > 1) return false;", "T.inside-vote"),
        ("MoveSplits overwrites the destination list", E, "    for (; orIter != fromOr->splits->end(); ++orIter)\n      toOr->splits->emplace_back(*orIter);", "    *toOr->splits = *fromOr->splits;", "SPLITS.append-only"),
        ("tree mode changes a non-ownership field", E, "        if (using_polytree_)\n          SetOwner(outrec, prevHotEdge->outrec);",
         "        if (using_polytree_)\n        {\n          SetOwner(outrec, prevHotEdge->outrec);\n          outrec->is_open = false;\n        }", "CONFINE"),
    ],
    "C05": [
        ("BuildPathD also discards short open pieces that are small", E, "    if (!isOpen && path.size() == 3 && IsVerySmallTriangle(*op2)) return false;\n    return true;", "    if (path.size() <= 3 && IsVerySmallTriangle(*op2)) return false;\n    return true;", "GUARD"),
        ("DoHorizontal trims every horizontal, open or closed", E, "      if (!IsOpen(*e)) TrimHorz(*e, preserve_collinear_);", "      TrimHorz(*e, preserve_collinear_);", "TRIM.closed-only"),
        ('AddPaths lets a closed path switch the open-path flag off', 'CPP/Clipper2Lib/src/clipper.engine.cpp', '    if (is_open) has_open_paths_ = true;', '    has_open_paths_ = is_open;', 'FLAG.sticky'),
        ("DoMaxima clears the other end's pointer", 'CPP/Clipper2Lib/src/clipper.engine.cpp', '          if (IsFront(e))\n            e.outrec->front_edge = nullptr;\n          else\n            e.outrec->back_edge = nullptr;\n          e.outrec = nullptr;\n        }\n        DeleteFromAEL(e);', '          if (IsFront(e))\n            e.outrec->back_edge = nullptr;\n          else\n            e.outrec->front_edge = nullptr;\n          e.outrec = nullptr;\n        }\n        DeleteFromAEL(e);', 'T.detach'),
        ("ClipperD's closed-only Execute builds without an open target", 'CPP/Clipper2Lib/include/clipper2/clipper.engine.h', '\t\t\tPathsD dummy;\n\t\t\treturn Execute(clip_type, fill_rule, closed_paths, dummy);', '#ifdef USINGZ\n\t\t\tCheckCallback();\n#endif\n\t\t\tif (ExecuteInternal(clip_type, fill_rule, false))\n\t\t\t\tBuildPathsD(closed_paths, nullptr);\n\t\t\tCleanUp();\n\t\t\treturn succeeded_;', 'OPEN.flag'),
        ("BuildTree64 builds open pieces as closed", E, "        if (BuildPath64(outrec->pts, reverse_solution_, true, path))\n          open_paths.emplace_back(std::move(path));\n        continue;", "        if (BuildPath64(outrec->pts, reverse_solution_, false, path))\n          open_paths.emplace_back(std::move(path));\n        continue;", "OPEN.flag"),
        ("BuildPathsD appends to what the caller's open vector held", E, "      solutionOpen->resize(0);\n      solutionOpen->reserve(outrec_list_.size());\n    }\n\n    // outrec_list_.size() is not static here because\n    // CleanCollinear below can indirectly add additional\n    // OutRec (via FixOutRecPts)",
         "      solutionOpen->reserve(outrec_list_.size());\n    }\n\n    // outrec_list_.size() is not static here because\n    // CleanCollinear below can indirectly add additional\n    // OutRec (via FixOutRecPts)", "OUTPUT.reset"),
        ("Union keeps open parts inside one of the regions", E, "case ClipType::Union: return (!is_in_subj && !is_in_clip);",
         "case ClipType::Union: return (!is_in_subj || !is_in_clip);", "T.open"),
        ("toggle at subject edges instead of clip edges", E, "        if (edge_c->local_min->polytype == PathType::Subject)\n          return;",
         "        if (edge_c->local_min->polytype == PathType::Clip)\n          return;", "T.open-toggle"),
        ("a horizontal open end no longer stops the horizontal sweep", E, "if (vertex_max != horz.vertex_top || IsOpenEnd(horz))", "if (vertex_max != horz.vertex_top)", "HORZ.open-end"),
        ("closing vertex compared with the first vertex of the first path", E, "if (!is_open && prev_v->pt == v0->pt)", "if (!is_open && prev_v->pt == vertices->pt)", "ADD.closing-vertex"),
    ],
    "C06": [
        ("the miter threshold is stored one too low", O, "\t\t\t2.0 / (miter_limit_ * miter_limit_);", "\t\t\t2.0 / (miter_limit_ * miter_limit_) - 1.0;", "JOIN.dispatch"),
        ("the PolyTree overload of ClipperOffset::Execute keeps the caller's old tree", O, "\tpolytree.Clear();\n\tsolution_tree = &polytree;", "\tsolution_tree = &polytree;", "OUTPUT.reset"),
        ('polygon offsetting consults the raw delta', 'CPP/Clipper2Lib/src/clipper.offset.cpp', 'void ClipperOffset::OffsetPolygon(Group& group, const Path64& path)\n{\n\tpath_out.clear();', 'void ClipperOffset::OffsetPolygon(Group& group, const Path64& path)\n{\n\tpath_out.clear();\n\tif (delta_ < 0 && path.size() < 3) return;', 'OFFSET.sign'),
        ('square join pushed out by the signed delta in y', 'CPP/Clipper2Lib/src/clipper.offset.cpp', '\tptQ = TranslatePoint(ptQ, abs_delta * vec.x, abs_delta * vec.y);', '\tptQ = TranslatePoint(ptQ, abs_delta * vec.x, group_delta_ * vec.y);', 'POLY.offset'),
        ('bevel joins made as square joins', 'CPP/Clipper2Lib/src/clipper.offset.cpp', '\telse if ( join_type_ == JoinType::Bevel)\n\t\tDoBevel(path, j, k);', '\telse if ( join_type_ == JoinType::Bevel)\n\t\tDoSquare(path, j, k);', 'JOIN.dispatch'),
        ('zero delta returns before the clean-up union', 'CPP/Clipper2Lib/src/clipper.offset.cpp', '\tsolution->reserve(CalcSolutionCapacity());\n', '\tsolution->reserve(CalcSolutionCapacity());\n\tif (delta == 0) return;\n', 'OFFSET.cleanup'),
        ('miter point uses one normal twice (both builds)', 'CPP/Clipper2Lib/src/clipper.offset.cpp', '#ifdef USINGZ\n    path_out.emplace_back(\n\t\tpath[j].x + (norms[k].x + norms[j].x) * q,\n\t\tpath[j].y + (norms[k].y + norms[j].y) * q,\n        path[j].z);\n#else\n    path_out.emplace_back(\n\t\tpath[j].x + (norms[k].x + norms[j].x) * q,\n        path[j].y + (norms[k].y + norms[j].y) * q);', '#ifdef USINGZ\n    path_out.emplace_back(\n\t\tpath[j].x + (norms[k].x + norms[j].x) * q,\n\t\tpath[j].y + (norms[k].y + norms[k].y) * q,\n        path[j].z);\n#else\n    path_out.emplace_back(\n\t\tpath[j].x + (norms[k].x + norms[j].x) * q,\n        path[j].y + (norms[k].y + norms[k].y) * q);', 'POLY.offset'),
        ("mitered vertex differs in the USINGZ build only", O, "#ifdef USINGZ\n    path_out.emplace_back(\n\t\tpath[j].x + (norms[k].x + norms[j].x) * q,\n\t\tpath[j].y + (norms[k].y + norms[j].y) * q,\n        path[j].z);", "#ifdef USINGZ\n    path_out.emplace_back(\n\t\tpath[j].x + (norms[k].x + norms[j].x) * q,\n\t\tpath[j].y + (norms[k].y + norms[k].y) * q,\n        path[j].z);", "ZERASE"),
        ("miter threshold derived once in the constructor only", O, "\t\ttemp_lim_ = (miter_limit_ <= 1) ?\n", "\t\tif (temp_lim_ == 0) temp_lim_ = (miter_limit_ <= 1) ?\n", "TARGET.set"),
        ("clean-up union of reversed paths with the wrong fill rule (tree output)", O, "\t\t\tc.Execute(ClipType::Union, FillRule::Negative, *solution_tree);",
         "\t\t\tc.Execute(ClipType::Union, FillRule::Positive, *solution_tree);", "OFFSET.cleanup"),
        ("reversed group offset with the unreversed sign", O, "\t\tgroup_delta_ = (group.is_reversed) ? -delta : delta;", "\t\tgroup_delta_ = delta;", "OFFSET.sign"),
        ("round-join step values computed once and carried to the next group", O, "\t\tsteps_per_rad_ = steps_per_360 / (2 * PI);\n\t}\n\n\t//double min_area",
         "\t\tif (steps_per_rad_ <= 0.0) steps_per_rad_ = steps_per_360 / (2 * PI);\n\t}\n\n\t//double min_area", "LOOP"),
        ("Paths64 Execute no longer clears the tree target", O, "\tsolution = &paths64;\n\tsolution_tree = nullptr;", "\tsolution = &paths64;", "TARGET.set"),
    ],
    "C19": [
        ("Point::operator+ adds the x twice", H + "clipper.core.h", "      return Point(x + b.x, y + b.y);", "      return Point(x + b.x, y + b.x);", "MINK.point-ops"),
        ("a triangle pattern is swept over two of its three vertices", H + "clipper.minkowski.h", "        for (size_t j = 0; j < patLen; j++)", "        for (size_t j = 0; j < (patLen == 3 ? 2 : patLen); j++)", "MINK.closing-edge"),
        ('the union helper keeps its clipper between calls', 'CPP/Clipper2Lib/include/clipper2/clipper.minkowski.h', '      Paths64 result;\n      Clipper64 clipper;\n      clipper.AddSubject(subjects);', '      Paths64 result;\n      static Clipper64 clipper;\n      clipper.AddSubject(subjects);', 'MINK.union'),
        ('degenerate quads skipped before the previous pattern index is advanced', 'CPP/Clipper2Lib/include/clipper2/clipper.minkowski.h', '          if (!IsPositive(quad))\n            std::reverse(quad.begin(), quad.end());', '          if (quad[0] == quad[2]) continue;\n          if (!IsPositive(quad))\n            std::reverse(quad.begin(), quad.end());', 'MINK.quad'),
        ("quads not normalised", H + "clipper.minkowski.h", "          if (!IsPositive(quad))\n            std::reverse(quad.begin(), quad.end());\n", "", "MINK.orientation"),
        ("closing edge swept for open paths", H + "clipper.minkowski.h", "      size_t delta = isClosed ? 0 : 1;", "      size_t delta = 0;", "MINK.closing-edge"),
        ("sum computed with the operands exchanged", H + "clipper.minkowski.h", "      if (patLen == 0 || pathLen == 0) return Paths64();\n", "      if (patLen == 0 || pathLen == 0) return Paths64();\n      if (isSum && pathLen > patLen) return Minkowski(path, pattern, true, isClosed);\n", "MINK.roles"),
    ],
    "C07": [
        ("InflatePaths(Paths64) exchanges the two option doubles", H + "clipper.h", "    ClipperOffset clip_offset(miter_limit, arc_tolerance);", "    ClipperOffset clip_offset(arc_tolerance, miter_limit);", "OPTIONS.forwarded"),
        ("OffsetOpenPath gives up on a zero group delta", O, "\t// do the line start cap\n\tif (deltaCallback64_) group_delta_ = deltaCallback64_(path, norms, 0, 0);", "\t// do the line start cap\n\tif (deltaCallback64_) group_delta_ = deltaCallback64_(path, norms, 0, 0);\n\tif (group_delta_ == 0) return;", "EMIT.every-path"),
        ('only truly straight joins are sent to DoMiter', 'CPP/Clipper2Lib/src/clipper.offset.cpp', '\telse if (cos_a > 0.999 && join_type_ != JoinType::Round)', '\telse if (cos_a > 0.9999999 && join_type_ != JoinType::Round)', 'THRESHOLD.bisector'),
        ('miter allowed up to the limit itself instead of its cosine', 'CPP/Clipper2Lib/src/clipper.offset.cpp', '\t\tif (cos_a > temp_lim_ - 1) DoMiter(path, j, k, cos_a);', '\t\tif (cos_a > temp_lim_) DoMiter(path, j, k, cos_a);', 'JOIN.dispatch'),
        ('unit normal points to the left of the edge', 'CPP/Clipper2Lib/src/clipper.offset.cpp', '\treturn PointD(dy, -dx);', '\treturn PointD(-dy, dx);', 'POLY.offset'),
        ('miter threshold derived once in the constructor only', 'CPP/Clipper2Lib/src/clipper.offset.cpp', '\t\ttemp_lim_ = (miter_limit_ <= 1) ?\n', '\t\tif (temp_lim_ == 0) temp_lim_ = (miter_limit_ <= 1) ?\n', 'LIMIT.rederived'),
        ("mitered vertex differs in the USINGZ build only", O, "#ifdef USINGZ\n    path_out.emplace_back(\n\t\tpath[j].x + (norms[k].x + norms[j].x) * q,\n\t\tpath[j].y + (norms[k].y + norms[j].y) * q,\n        path[j].z);", "#ifdef USINGZ\n    path_out.emplace_back(\n\t\tpath[j].x + (norms[k].x + norms[j].x) * q,\n\t\tpath[j].y + (norms[k].y + norms[k].y) * q,\n        path[j].z);", "ZERASE"),
        ("delta used without abs for open paths", O, "group_delta_ = std::abs(delta_);// *0.5;", "group_delta_ = delta_;", "DELTA.abs-only"),
        ("end cap differs from start cap", O, "DoBevel(path, highI, highI);", "DoSquare(path, highI, highI);", "CAP.table"),
        ("end type override leaks into later paths", O, "\t\tend_type_ = group.end_type; // the override below is for this path only\n", "", "LOOP"),
        ("closing vertex stripped for open end types too", O, "\tfor (Path64& p: paths_in)\n\t  StripDuplicates(p, is_joined);", "\tfor (Path64& p: paths_in)\n\t  StripDuplicates(p, true);", "GROUP.strip-closed"),
    ],
    "C08": [
        ("second end point on a rectangle corner is no crossing", R, "      if (p2 == p3 || p2 == p4) return true;\n      else if (IsHorizontal(p3, p4)) return ((p2.x > p3.x) == (p2.x < p4.x));", "      if (IsHorizontal(p3, p4)) return ((p2.x > p3.x) == (p2.x < p4.x));", "T.touching"),
        ("the crossing marker is left at the current region", R, "          crossing_loc = crossing_prev; // still not crossed", "          crossing_loc = prev; // still not crossed", "CROSSING.latched"),
        ("the corner walk does not advance through start_locs_", R, "          AddCorner(prev, HeadingClockwise(prev, loc2));\n          prev = loc2;", "          AddCorner(prev, HeadingClockwise(prev, loc2));", "CORNER.chain"),
        ("a closing vertex on the boundary always starts the scan on its side", R, "      if (prev == Location::Inside) loc = Location::Inside;\n    }\n    Location starting_loc = loc;", "    }\n    Location starting_loc = loc;", "START.location"),
        ('from the Top region the left side is tried wherever p is', 'CPP/Clipper2Lib/src/clipper.rectclip.cpp', '      else if ((p.x < rectPath[0].x) && GetSegmentIntersection(p, p2, rectPath[0], rectPath[3], ip))', '      else if (GetSegmentIntersection(p, p2, rectPath[0], rectPath[3], ip))', 'T.nearest-crossing'),
        ('between test of the second end point only accepts ascending sides', 'CPP/Clipper2Lib/src/clipper.rectclip.cpp', '      else if (IsHorizontal(p3, p4)) return ((p2.x > p3.x) == (p2.x < p4.x));', '      else if (IsHorizontal(p3, p4)) return ((p2.x > p3.x) && (p2.x < p4.x));', 'T.touching'),
        ('touching case of the third end point stores the fourth', 'CPP/Clipper2Lib/src/clipper.rectclip.cpp', '    if (res3 == 0)\n    {\n      ip = p3;', '    if (res3 == 0)\n    {\n      ip = p4;', 'POLY.intersect'),
        ("from Left, a vertex above the rectangle and right of it is classed Top", R, "      else if (path[i].x >= rect_.right) loc = Location::Right;\n      else if (path[i].y <= rect_.top) loc = Location::Top;\n      else if (path[i].y >= rect_.bottom) loc = Location::Bottom;\n      else loc = Location::Inside;\n      break;\n\n    case Location::Top:", "      else if (path[i].y <= rect_.top) loc = Location::Top;\n      else if (path[i].x >= rect_.right) loc = Location::Right;\n      else if (path[i].y >= rect_.bottom) loc = Location::Bottom;\n      else loc = Location::Inside;\n      break;\n\n    case Location::Top:", "T.next-location"),
        ("clockwise step counted with a signed remainder", R, "        case -3: result += 1; break;", "        case -3: break;", "T.side-algebra"),
        ("Contains made strict on the right", H + "clipper.core.h", "      return rec.left >= left && rec.right <= right &&",
         "      return rec.left >= left && rec.right < right &&", "T.rect"),
        ("start_locs_ not cleared per path", R, "      for (OutPt2List &edge : edges_) edge.clear();\n      start_locs_.clear();\n    }\n    return result;",
         "      for (OutPt2List &edge : edges_) edge.clear();\n    }\n    return result;", "LOOP"),
    ],
    "C09": [
        ("three-point CrossProduct multiplies in int64", H + "clipper.core.h", "    return (static_cast<double>(pt2.x - pt1.x) * static_cast<double>(pt3.y -\n      pt2.y) - static_cast<double>(pt2.y - pt1.y) * static_cast<double>(pt3.x - pt2.x));", "    return static_cast<double>((pt2.x - pt1.x) * (pt3.y - pt2.y)) - static_cast<double>((pt2.y - pt1.y) * (pt3.x - pt2.x));", "INT64.product"),
        ("the high-precision origin's x is taken from a y bound", H + "clipper.core.h", "      int64_t originx = (CC_MIN(bb0maxx, bb1maxx) + CC_MAX(bb0minx, bb1minx)) >> 1;", "      int64_t originx = (CC_MIN(bb0maxx, bb1maxx) + CC_MAX(bb0minx, bb1miny)) >> 1;", "AXIS.homogeneous"),
        ("a first vertex on the boundary always starts the line scan on its side", R, "      if (prev == Location::Inside) loc = Location::Inside;\n      i = 1;", "      i = 1;", "START.location"),
        ("a point's y is compared with the right side", 'CPP/Clipper2Lib/src/clipper.rectclip.cpp', '    else if (pt.y == rec.top && pt.x >= rec.left && pt.x <= rec.right)', '    else if (pt.y == rec.right && pt.x >= rec.left && pt.x <= rec.right)', 'T.location'),
        ('touching case of the second end point stores the first', 'CPP/Clipper2Lib/src/clipper.rectclip.cpp', '    else if (res2 == 0)\n    {\n      ip = p2;', '    else if (res2 == 0)\n    {\n      ip = p1;', 'POLY.intersect'),
        ("segment scan starts where the pre-scan stopped", R, "      if (prev == Location::Inside) loc = Location::Inside;\n      i = 1;", "      if (prev == Location::Inside) loc = Location::Inside;", "SCAN.start"),
        ("a point above the rectangle classified as below it", R, "    else if (pt.y < rec.top) loc = Location::Top;", "    else if (pt.y < rec.top) loc = Location::Bottom;", "T.location"),
        ("a point on the bottom edge right of the rectangle counts as on the edge", R, "    else if (pt.y == rec.bottom && pt.x >= rec.left && pt.x <= rec.right)", "    else if (pt.y == rec.bottom && pt.x >= rec.left)", "T.location"),
        ("leaving the rectangle starts a new piece", R, "      else // path must be exiting rect\n      {\n        Add(ip);\n      }", "      else // path must be exiting rect\n      {\n        Add(ip, true);\n      }", "T.lines-dispatch"),
        ("pass-through takes both crossings from the same end", R, "        crossing_loc = prev;\n        GetIntersection(rect_as_path_,\n          prev_pt, path[i], crossing_loc, ip2);", "        crossing_loc = prev;\n        GetIntersection(rect_as_path_,\n          path[i], prev_pt, crossing_loc, ip2);", "T.lines-dispatch"),
        ("results_ not cleared per polyline", R, "          result.emplace_back(std::move(tmp));\n      }\n      results_.clear();\n\n      op_container_ = std::deque<OutPt2>();", "          result.emplace_back(std::move(tmp));\n      }\n\n      op_container_ = std::deque<OutPt2>();", "CLEAN"),
    ],
    "C10": [
        ("BuildPath64 looks at op->next before testing op", E, "  bool BuildPath64(OutPt* op, bool reverse, bool isOpen, Path64& path)\n  {\n    if (!op || op->next == op ||", "  bool BuildPath64(OutPt* op, bool reverse, bool isOpen, Path64& path)\n  {\n    if (op->next == op || !op ||", "GUARD"),
        ("CreateCPolyTree64 gives up after allocating", H + "clipper.export.h", "  int64_t* result = new int64_t[array_len];\n  int64_t* v = result;", "  int64_t* result = new int64_t[array_len];\n  if (array_len < 2) return nullptr;\n  int64_t* v = result;", "ALLOC.owned"),
        ('GetPrior scans down to and including its lower bound', 'CPP/Clipper2Lib/include/clipper2/clipper.h', '    while (current > 0 && flags[current]) --current;\n    if (!flags[current]) return current;', '    while (current >= high - high && flags[current]) --current;\n    if (!flags[current]) return current;', 'GUARD.unsigned-decrement'),
        ('transform destination sized by the other operand', 'CPP/Clipper2Lib/include/clipper2/clipper.minkowski.h', '          Path64 path2(pattern.size());\n          std::transform(pattern.cbegin(), pattern.cend(),\n            path2.begin(), [p](const Point64& pt2) {return p + pt2; });', '          Path64 path2(path.size());\n          std::transform(pattern.cbegin(), pattern.cend(),\n            path2.begin(), [p](const Point64& pt2) {return p + pt2; });', 'DEST.sized'),
        ("BuildTreeD walks outrec_list_ with a range-for while CheckBounds can append to it", E, "    // BuildPathD below can indirectly add additional OutRec //#607\n    for (size_t i = 0; i < outrec_list_.size(); ++i)\n    {\n      OutRec* outrec = outrec_list_[i];",
         "    for (OutRec* outrec : outrec_list_)\n    {", "ITER.stable"),
        ("empty path reaches OffsetOpenPath again", O, "\t\tif (pathLen == 0) continue; // nothing to offset (and no vertex to index)\n", "", "GUARD.nonempty"),
        ("allocation in a destructor", E, "  ClipperBase::~ClipperBase()\n  {\n    Clear();\n  }",
         "  ClipperBase::~ClipperBase()\n  {\n    Clear();\n    outrec_list_.reserve(16);\n  }", "ALLOC.noexcept"),
        ("comparator not irreflexive", E, "        return locMin2->vertex->pt.x > locMin1->vertex->pt.x;", "        return locMin2->vertex->pt.x >= locMin1->vertex->pt.x;", "T.comparator"),
        ("RDP copies the path at every recursion level again", H + "clipper.h", "  inline void RDP(const Path<T>& path, std::size_t begin,", "  inline void RDP(const Path<T> path, std::size_t begin,", "RECURSION"),
        ("CheckSplitOwner recurses before the visited mark again", E, "        split->recursive_split != outrec) //#942\n      {\n        split->recursive_split = outrec; // prevent infinite loops (as below)\n        if (CheckSplitOwner(outrec, split->splits)) return true;\n      }",
         "        CheckSplitOwner(outrec, split->splits)) return true; //#942", "RECURSION"),
        ("DoSplitOp publishes the detached pair before the allocation", E, "      newOr->owner = outrec->owner;\n", "      newOr->owner = outrec->owner;\n      newOr->pts = splitOp;\n", "LINK.consistent-at-throw"),
        ("AddOutPt leaves the ring open", E, "    op_front->next = new_op;\n", "", "LINK.consistent-at-throw"),
        ("DisposeOutPt deletes before unlinking", E, "    op->prev->next = op->next;\n    op->next->prev = op->prev;\n    delete op;", "    delete op;\n    op->prev->next = op->next;\n    op->next->prev = op->prev;", "LINK.consistent-at-throw"),
    ],
    "C11": [
        ("Reset wipes the error code", E, "    sel_ = nullptr;\n    succeeded_ = true;", "    sel_ = nullptr;\n    succeeded_ = true;\n    error_code_ = 0;", "ERRCODE.sticky"),
        ("MakePathD reports a count that shrank, not an odd one", H + "clipper.h", "    if (list.size() != size)\n      DoError(non_pair_error_i);  // non-fatal without exception handling\n    PathD result;", "    if (list.size() < size)\n      DoError(non_pair_error_i);  // non-fatal without exception handling\n    PathD result;", "R8.odd-count"),
        ("ScalePaths computes the bounds only for more than one path", H + "clipper.core.h", "      RectD r = GetBounds<double, T2>(paths);", "      RectD r = (paths.size() > 1) ? GetBounds<double, T2>(paths) : RectD();", "R7.range-table"),
        ("BuildPathsD appends to the caller's closed solution", E, "  void ClipperD::BuildPathsD(PathsD& solutionClosed, PathsD* solutionOpen)\n  {\n    solutionClosed.resize(0);", "  void ClipperD::BuildPathsD(PathsD& solutionClosed, PathsD* solutionOpen)\n  {", "OUTPUT.reset"),
        ('tree overload empties its output only after the precision check', 'CPP/Clipper2Lib/include/clipper2/clipper.h', '    polytree.Clear();\n    int error_code = 0;\n    CheckPrecisionRange(precision, error_code);\n    if (error_code) return;\n    ClipperD clipper(precision);', '    int error_code = 0;\n    CheckPrecisionRange(precision, error_code);\n    if (error_code) return;\n    polytree.Clear();\n    ClipperD clipper(precision);', 'R2.error-consumed'),
        ('RectClip(PathsD) validates through the overload that drops the error', 'CPP/Clipper2Lib/include/clipper2/clipper.h', '    CheckPrecisionRange(precision, error_code);\n    if (error_code) return PathsD();\n    const double scale = std::pow(10, precision);\n    Rect64 r = ScaleRect<int64_t, double>(rect, scale);\n    RectClip64 rc(r);', '    CheckPrecisionRange(precision);\n    if (error_code) return PathsD();\n    const double scale = std::pow(10, precision);\n    Rect64 r = ScaleRect<int64_t, double>(rect, scale);\n    RectClip64 rc(r);', 'R2.error-consumed'),
        ("first vertex never reaches the maximum of GetBounds", H + "clipper.core.h", "      if (p.x < xmin) xmin = static_cast<T>(p.x);\n      if (p.x > xmax) xmax = static_cast<T>(p.x);\n      if (p.y < ymin) ymin = static_cast<T>(p.y);\n      if (p.y > ymax) ymax = static_cast<T>(p.y);\n    }\n    return Rect<T>(xmin, ymin, xmax, ymax);\n  }\n\n  template <typename T, typename T2>\n  Rect<T> GetBounds(const Paths<T2>& paths)",
         "      if (p.x < xmin) xmin = static_cast<T>(p.x);\n      else if (p.x > xmax) xmax = static_cast<T>(p.x);\n      if (p.y < ymin) ymin = static_cast<T>(p.y);\n      if (p.y > ymax) ymax = static_cast<T>(p.y);\n    }\n    return Rect<T>(xmin, ymin, xmax, ymax);\n  }\n\n  template <typename T, typename T2>\n  Rect<T> GetBounds(const Paths<T2>& paths)", "BOUNDS.minmax"),
        ("precision no longer validated in RectClip(PathsD)", H + "clipper.h",
         "    if (rect.IsEmpty() || paths.empty()) return PathsD();\n    int error_code = 0;\n    CheckPrecisionRange(precision, error_code);\n    if (error_code) return PathsD();",
         "    if (rect.IsEmpty() || paths.empty()) return PathsD();\n    int error_code = 0;", "R1.validate-before-use"),
        ("C boundary rejects ClipType::Xor", H + "clipper.export.h",
         "if (cliptype > static_cast<uint8_t>(ClipType::Xor)) return -4;\n  if (fillrule > static_cast<uint8_t>(FillRule::Negative)) return -3;\n  Paths64 sub, sub_open, clp, sol_open;",
         "if (cliptype >= static_cast<uint8_t>(ClipType::Xor)) return -4;\n  if (fillrule > static_cast<uint8_t>(FillRule::Negative)) return -3;\n  Paths64 sub, sub_open, clp, sol_open;", "R5.c-boundary"),
        ("validator accepts one value too few", H + "clipper.core.h", "if (precision >= -CLIPPER2_MAX_DEC_PRECISION &&", "if (precision > -CLIPPER2_MAX_DEC_PRECISION &&", "R7.validator-table"),
    ],
    "C12": [
        ("minima_list_sorted_ no longer invalidated by AddPaths", E, "    if (is_open) has_open_paths_ = true;\n    minima_list_sorted_ = false;", "    if (is_open) has_open_paths_ = true;", "SORTED.invalidate"),
        ("has_open_paths_ reset by CleanUp", E, "    horz_join_list_.clear();\n  }", "    horz_join_list_.clear();\n    has_open_paths_ = false;\n  }", "CONFIG.preserved"),
        ("CleanUp forgets horz_join_list_", E, "    horz_join_list_.clear();\n  }", "  }", "CLEAN"),
        ("Clear keeps has_open_paths_", E, "    minima_list_sorted_ = false;\n    has_open_paths_ = false;", "    minima_list_sorted_ = false;", "CLEAR"),
        ("sel_ not reset", E, "    sel_ = nullptr;\n    succeeded_ = true;", "    succeeded_ = true;", "DBU"),
        ("delta_ overwritten inside the group loop", O, "\t\tconst double delta = (group.lowest_path_idx.has_value()) ? delta_ : std::abs(delta_);\n\t\tgroup_delta_ = (group.is_reversed) ? -delta : delta;",
         "\t\tif (!group.lowest_path_idx.has_value()) delta_ = std::abs(delta_);\n\t\tgroup_delta_ = (group.is_reversed) ? -delta_ : delta_;", "LOOP"),
    ],
    "C13": [
        ("Difference(PathsD) computes an intersection", H + "clipper.h", "    return BooleanOp(ClipType::Difference, fillrule, subjects, clips, decimal_prec);", "    return BooleanOp(ClipType::Intersection, fillrule, subjects, clips, decimal_prec);", "WRAPPER.cliptype"),
        ('vertex count of AddPaths_ accumulates over the paths of a call', 'CPP/Clipper2Lib/src/clipper.engine.cpp', '    for (const Path64& path : paths)\n    {\n      //for each path create a circular double linked list of vertices\n      Vertex* v0 = v, * curr_v = v, * prev_v = nullptr;\n\n      if (path.empty())\n        continue;\n\n      v->prev = nullptr;\n      int cnt = 0;', '    int cnt = 0;\n    for (const Path64& path : paths)\n    {\n      //for each path create a circular double linked list of vertices\n      Vertex* v0 = v, * curr_v = v, * prev_v = nullptr;\n\n      if (path.empty())\n        continue;\n\n      v->prev = nullptr;', 'LOOP'),
        ('Union of a single path hands the path back', 'CPP/Clipper2Lib/include/clipper2/clipper.h', '  inline Paths64 Union(const Paths64& subjects, FillRule fillrule)\n  {\n    Paths64 result;', '  inline Paths64 Union(const Paths64& subjects, FillRule fillrule)\n  {\n    if (subjects.size() == 1) return subjects;\n    Paths64 result;', 'WRAP.no-passthrough'),
        ('GetDx divides dy by dx', 'CPP/Clipper2Lib/src/clipper.engine.cpp', '      return double(pt2.x - pt1.x) / dy;', '      return dy / double(pt2.x - pt1.x);', 'POLY.topx'),
        ("CrossProductSign's last factor measured from pt1", 'CPP/Clipper2Lib/include/clipper2/clipper.core.h', '    const auto c = pt2.y - pt1.y;\n    const auto d = pt3.x - pt2.x;\n\n#if', '    const auto c = pt2.y - pt1.y;\n    const auto d = pt3.x - pt1.x;\n\n#if', 'POLY.cross'),
        ("TopX rounds in single precision", E, "return ae.bot.x + static_cast<int64_t>(nearbyint(ae.dx * (currentY - ae.bot.y)));", "return ae.bot.x + static_cast<int64_t>(nearbyintf(ae.dx * (currentY - ae.bot.y)));", "FLOAT.double-only"),
        ("comparator not strict", E, "        return locMin2->vertex->pt.x > locMin1->vertex->pt.x;", "        return locMin2->vertex->pt.x >= locMin1->vertex->pt.x;", "T.comparator"),
        ("Negative not the mirror image of Positive", E, "      case FillRule::Negative:\n        return (e.wind_cnt2 < 0);", "      case FillRule::Negative:\n        return (e.wind_cnt2 <= 0);", "T.symmetry"),
    ],
    "C14": [
        ("function-local static scratch", O, "\tdouble dx = static_cast<double>(pt2.x - pt1.x);\n\tdouble dy = static_cast<double>(pt2.y - pt1.y);\n\tdouble inverse_hypot",
         "\tstatic double last_dx = 0;\n\tdouble dx = static_cast<double>(pt2.x - pt1.x);\n\tlast_dx = dx;\n\tdouble dy = static_cast<double>(pt2.y - pt1.y);\n\tdouble inverse_hypot", "R1.local-static"),
        ("shared vertex written during execution", E, "    e->vertex_top = NextVertex(*e);\n    e->top = e->vertex_top->pt;\n    e->curr_x = e->bot.x;",
         "    e->vertex_top = NextVertex(*e);\n    e->vertex_top->flags = e->vertex_top->flags | VertexFlags::Empty;\n    e->top = e->vertex_top->pt;\n    e->curr_x = e->bot.x;", "R2.vertex-write"),
        ("shared container gets a mutable field", H + "clipper.engine.h", "\t\tfriend class ClipperBase;\n\t\tLocalMinimaList minima_list_;\n\t\tstd::vector<Vertex*> vertex_lists_;\n\t\tvoid AddLocMin",
         "\t\tfriend class ClipperBase;\n\t\tmutable LocalMinimaList minima_list_;\n\t\tstd::vector<Vertex*> vertex_lists_;\n\t\tvoid AddLocMin", "R2b.container-read-only"),
    ],
    "C15": [
        ("horizontal crossing point built with the z of the crossing edge's bottom", E, "        pt = Point64(e->curr_x, horz.bot.y);", "#ifdef USINGZ\n        pt = Point64(e->curr_x, horz.bot.y, e->bot.z);\n#else\n        pt = Point64(e->curr_x, horz.bot.y);\n#endif", "Z.crossing-default"),
        ("Reset drops the Z callback", E, "    sel_ = nullptr;\n    succeeded_ = true;", "    sel_ = nullptr;\n    succeeded_ = true;\n#ifdef USINGZ\n    zCallback_ = nullptr;\n#endif", "ZCB.preserved"),
        ('intersection point pre-set to an end point before x and y are computed', 'CPP/Clipper2Lib/include/clipper2/clipper.core.h', '    if (t <= 0.0) ip = ln1a;\n    else if (t >= 1.0) ip = ln1b;\n    else\n    {', '    ip = ln1b;\n    if (t <= 0.0) ip = ln1a;\n    else if (t < 1.0)\n    {', 'Z.out-point-fresh'),
        ('first vertex of a D path loses its z', 'CPP/Clipper2Lib/src/clipper.engine.cpp', '#ifdef USINGZ\n    path.emplace_back(lastPt.x * inv_scale, lastPt.y * inv_scale, lastPt.z);\n#else\n    path.emplace_back(lastPt.x * inv_scale, lastPt.y * inv_scale);\n#endif\n\n    while (op2 != op)', '    path.emplace_back(lastPt.x * inv_scale, lastPt.y * inv_scale);\n\n    while (op2 != op)', 'Z.carry'),
        ('RectClipLines keeps its intersection points across vertices', 'CPP/Clipper2Lib/src/clipper.rectclip.cpp', '    while (i <= highI)\n    {\n      prev = loc;\n      GetNextLocation(path, loc, i, highI);\n      if (i > highI) break;\n      Point64 ip, ip2;\n      Point64 prev_pt = path[static_cast<size_t>(i - 1)];', '    Point64 ip, ip2;\n    while (i <= highI)\n    {\n      prev = loc;\n      GetNextLocation(path, loc, i, highI);\n      if (i > highI) break;\n      Point64 prev_pt = path[static_cast<size_t>(i - 1)];', 'Z.out-point-fresh'),
        ("CheckCallback keeps a proxy that is already bound", H + "clipper.engine.h", "\t\tvoid CheckCallback()\n\t\t{\n", "\t\tvoid CheckCallback()\n\t\t{\n\t\t\tif (ClipperBase::zCallback_) return;\n", "ZCB.rebound"),
        ("one crossing vertex no longer reaches SetZ", E, "      resultOp = AddOutPt(e2, pt);\n      if (zCallback_) SetZ(e1, e2, resultOp->pt);", "      resultOp = AddOutPt(e2, pt);", "Z.must-follow"),
        ("z influences x in the USINGZ build only", O, "\treturn Point64(pt.x + norm.x * delta, pt.y + norm.y * delta, pt.z);",
         "\treturn Point64(pt.x + norm.x * delta + (pt.z ? 1 : 0), pt.y + norm.y * delta, pt.z);", "ZERASE"),
    ],
    "C16": [
        ("ScalePaths returns nothing for one particular scale", H + "clipper.core.h", "    result.reserve(paths.size());\n    std::transform(paths.begin(), paths.end(), back_inserter(result),\n      [=, &error_code](const auto& path)", "    if (scale_x == scale_y && scale_x == 0.5) return result;\n    result.reserve(paths.size());\n    std::transform(paths.begin(), paths.end(), back_inserter(result),\n      [=, &error_code](const auto& path)", "SCALE.total"),
        ('TrimCollinear(PathD) ignores the precision it was given', 'CPP/Clipper2Lib/include/clipper2/clipper.h', '    if (error_code) return PathD();\n    const double scale = std::pow(10, precision);\n    Path64 p = ScalePath<int64_t, double>(path, scale, error_code);', '    if (error_code) return PathD();\n    const double scale = std::pow(10, 2);\n    Path64 p = ScalePath<int64_t, double>(path, scale, error_code);', 'PRECISION.forwarded'),
        ("TrimCollinear(PathD) hands short paths back without the round trip", H + "clipper.h", "    if (error_code) return PathD();\n    const double scale = std::pow(10, precision);\n    Path64 p = ScalePath<int64_t, double>(path, scale, error_code);", "    if (error_code) return PathD();\n    if (path.size() < 3) return path;\n    const double scale = std::pow(10, precision);\n    Path64 p = ScalePath<int64_t, double>(path, scale, error_code);", "SCALE.wrapper"),
        ("delta not scaled in InflatePaths(PathsD)", H + "clipper.h", "    clip_offset.Execute(delta * scale, solution);\n    return ScalePaths<double, int64_t>(solution, 1 / scale, error_code);",
         "    clip_offset.Execute(delta, solution);\n    return ScalePaths<double, int64_t>(solution, 1 / scale, error_code);", "SCALE.wrapper"),
        ("BuildPathD loses the open-path exemption again", E, "    if (!isOpen && path.size() == 3 && IsVerySmallTriangle(*op2)) return false;\n    return true;",
         "    if (path.size() == 3 && IsVerySmallTriangle(*op2)) return false;\n    return true;", "SIBLING.64-D"),
    ],
    "C17": [
        ("RectClipLines64 export runs the polygon clipper", H + "clipper.export.h", "  class RectClipLines64 rcl (r);", "  class RectClip64 rcl (r);", "FORWARD.native"),
        ('InflatePathsD adds every path as a group of its own', 'CPP/Clipper2Lib/include/clipper2/clipper.export.h', '  Paths64 pp = ConvertCPathsDToPaths64(paths, scale);\n  clip_offset.AddPaths(pp, JoinType(jointype), EndType(endtype));', '  Paths64 pp = ConvertCPathsDToPaths64(paths, scale);\n  for (const Path64& p1 : pp) clip_offset.AddPath(p1, JoinType(jointype), EndType(endtype));', 'FORWARD.param'),
        ('BooleanOp64 adds the subject only when there are clips', 'CPP/Clipper2Lib/include/clipper2/clipper.export.h', '  if (sub.size() > 0) clipper.AddSubject(sub);\n  if (sub_open.size() > 0) clipper.AddOpenSubject(sub_open);\n  if (clp.size() > 0) clipper.AddClip(clp);\n  if (!clipper.Execute(ClipType(cliptype), FillRule(fillrule), sol, sol_open))\n    return -1; // clipping bug - should never happen :)', '  if (sub.size() > 0 && clp.size() > 0) clipper.AddSubject(sub);\n  if (sub_open.size() > 0) clipper.AddOpenSubject(sub_open);\n  if (clp.size() > 0) clipper.AddClip(clp);\n  if (!clipper.Execute(ClipType(cliptype), FillRule(fillrule), sol, sol_open))\n    return -1; // clipping bug - should never happen :)', 'FORWARD.param'),
        ("tree serialiser takes the write cursor by value", H + "clipper.export.h", "static void CreateCPolyPathD(const PolyPathD* pp, double*& v)", "static void CreateCPolyPathD(const PolyPathD* pp, double* v)", "LAYOUT.cursor"),
        ("export converter truncates instead of rounding", H + "clipper.export.h", "    {\n      double x = *v++ * scale;\n      double y = *v++ * scale;\n#ifdef USINGZ\n      z_type z = Reinterpret<z_type>(*v++);\n      path.emplace_back(x, y, z);", "    {\n      int64_t x = static_cast<int64_t>(*v++ * scale);\n      int64_t y = static_cast<int64_t>(*v++ * scale);\n#ifdef USINGZ\n      z_type z = Reinterpret<z_type>(*v++);\n      path.emplace_back(x, y, z);", "ROUND"),
        ("Z written by value conversion, read by bit copy", H + "clipper.export.h", "      *v++ = pt.x * scale;\n      *v++ = pt.y * scale;\n#ifdef USINGZ\n      *v++ = Reinterpret<double>(pt.z);",
         "      *v++ = pt.x * scale;\n      *v++ = pt.y * scale;\n#ifdef USINGZ\n      *v++ = static_cast<double>(pt.z);", "LAYOUT.z-codec"),
        ("reader skips one header element only", H + "clipper.export.h", "    size_t cnt2 = static_cast<size_t>(*v);\n    v += 2; \n    Path<T> path;",
         "    size_t cnt2 = static_cast<size_t>(*v);\n    v += 1; \n    Path<T> path;", "LAYOUT.paths"),
        ("reverse_solution in the preserve_collinear slot again", H + "clipper.export.h",
         "  ClipperOffset clip_offset( miter_limit,\n    arc_tolerance, false, reverse_solution);", "  ClipperOffset clip_offset( miter_limit,\n    arc_tolerance, reverse_solution);", "FORWARD.param"),
    ],
    "C18": [
        ("the t <= 0 clamp stores the far end of the first segment", H + "clipper.core.h", "    if (t <= 0.0) ip = ln1a;\n    else if (t >= 1.0) ip = ln1b;", "    if (t <= 0.0) ip = ln1b;\n    else if (t >= 1.0) ip = ln1b;", "CLAMP.endpoint"),
        ("IsCollinear answers early for a horizontal first edge", H + "clipper.core.h", "    const auto d = pt2.x - sharedPt.x;\n", "    const auto d = pt2.x - sharedPt.x;\n    if (c == 0 && a != 0) return b == 0 && d != 0;\n", "POLY.cross"),
        ("PointInOpPolygon skips edges whose ends are not left of the point", E, "      if (pt.x < op2->pt.x && pt.x < op2->prev->pt.x);", "      if (pt.x <= op2->pt.x && pt.x <= op2->prev->pt.x);", "PIP.on-edge"),
        ('closing edge of PointInPolygon no longer reports IsOn', 'CPP/Clipper2Lib/include/clipper2/clipper.core.h', '      else prev = curr - 1;\n      double d = CrossProduct(*prev, *curr, pt);\n      if (d == 0) return PointInPolygonResult::IsOn;\n      if ((d < 0) == is_above) val = 1 - val;', '      else prev = curr - 1;\n      if ((CrossProduct(*prev, *curr, pt) < 0) == is_above) val = 1 - val;', 'PIP.on-edge'),
        ('parallel segments detected with a tolerance', 'CPP/Clipper2Lib/include/clipper2/clipper.core.h', '    double det = dy1 * dx2 - dy2 * dx1;\n    if (det == 0.0) return false;', '    double det = dy1 * dx2 - dy2 * dx1;\n    if (std::fabs(det) < 1e-9) return false;', 'POLY.intersect'),
        ('second unrolled term of Area has the opposite orientation', 'CPP/Clipper2Lib/include/clipper2/clipper.core.h', '      a += static_cast<double>(it1->y + it2->y) * (it1->x - it2->x);', '      a += static_cast<double>(it1->y + it2->y) * (it2->x - it1->x);', 'POLY.area'),
        ('upper word adds the carry of the wrong intermediate', 'CPP/Clipper2Lib/include/clipper2/clipper.core.h', '    const uint64_t hibits = hi(a) * hi(b) + hi(x2) + hi(x3);', '    const uint64_t hibits = hi(a) * hi(b) + hi(x2) + hi(x1);', 'POLY.multiply'),
        ('Multiply fast path when only the first operand is small', 'CPP/Clipper2Lib/include/clipper2/clipper.core.h', '    const auto hi = [](uint64_t x) { return x >> 32; };\n', '    const auto hi = [](uint64_t x) { return x >> 32; };\n    if (hi(a) == 0) return { a * b, 0 };\n', 'P.multiply-no-wrap'),
        ('DistanceSqr mixes the axes', 'CPP/Clipper2Lib/include/clipper2/clipper.core.h', '    return Sqr(pt1.x - pt2.x) + Sqr(pt1.y - pt2.y);', '    return Sqr(pt1.x - pt2.x) + Sqr(pt1.y - pt2.x);', 'POLY.measure'),
        ('segment intersection parameter uses the far end of the second segment', 'CPP/Clipper2Lib/include/clipper2/clipper.core.h', '    double t = ((ln1a.x - ln2a.x) * dy2 - (ln1a.y - ln2a.y) * dx2) / det;', '    double t = ((ln1a.x - ln2b.x) * dy2 - (ln1a.y - ln2a.y) * dx2) / det;', 'POLY.intersect'),
        ("CrossProductSign's second factor measured from pt1", 'CPP/Clipper2Lib/include/clipper2/clipper.core.h', '    const auto b = pt3.y - pt2.y;', '    const auto b = pt3.y - pt1.y;', 'POLY.cross'),
        ('128-bit products compared after truncation to 64 bits', 'CPP/Clipper2Lib/include/clipper2/clipper.core.h', '    return ab == cd;\n#else', '    return static_cast<int64_t>(ab) == static_cast<int64_t>(cd);\n#else', 'TYPE.wide-kept'),
        ("bounding-box twin reads the other axis (HI_PRECISION)", H + "clipper.core.h", "    T bb0miny = CC_MIN(ln1a.y, ln1b.y);", "    T bb0miny = CC_MIN(ln1a.x, ln1b.x);", "AXIS.mirror"),
        ("wrap-around predecessor taken from the moved end marker", H + "clipper.core.h", "        prev = polygon.cend() - 1; //nb: NOT cend (since might equal first)", "        prev = cend - 1;", "WRAP.container-end"),
        ("portable sign logic compares hi words the wrong way", H + "clipper.core.h", "      else result = (ab.hi > cd.hi) ? 1 : -1;", "      else result = (ab.hi < cd.hi) ? 1 : -1;", "P.portable-sign"),
        ("partial sum can wrap", H + "clipper.core.h", "    const uint64_t x2 = hi(a) * lo(b) + hi(x1);", "    const uint64_t x2 = hi(a) * lo(b) + x1;", "P.multiply-no-wrap"),
    ],
    "C20": [
        ("Ellipse draws with a zero radiusX", H + "clipper.h", "    if (radiusX <= 0) return Path<T>();", "    if (radiusX < 0) return Path<T>();", "ELLIPSE.radii"),
        ("Distance squares the coordinate differences in the coordinate type", H + "clipper.h", "    return std::sqrt(DistanceSqr(pt1, pt2));", "    return std::sqrt(static_cast<double>((pt1.x - pt2.x) * (pt1.x - pt2.x) + (pt1.y - pt2.y) * (pt1.y - pt2.y)));", "INT64.product"),
        ("StripDuplicates removes a single trailing duplicate", H + "clipper.core.h", "      while (path.size() > 1 && path.back() == path.front()) path.pop_back();", "      if (path.size() > 1 && path.back() == path.front()) path.pop_back();", "TAIL.loop"),
        ('left half of RDP examined only from two interior vertices on', 'CPP/Clipper2Lib/include/clipper2/clipper.h', '    if (idx > begin + 1) RDP(path, begin, idx, epsSqrd, flags);', '    if (idx > begin + 2) RDP(path, begin, idx, epsSqrd, flags);', 'RDP.spans'),
        ('maxima of GetBounds(Paths) start at the smallest positive value', 'CPP/Clipper2Lib/include/clipper2/clipper.core.h', '    T xmax = std::numeric_limits<T>::lowest();\n    T ymax = std::numeric_limits<T>::lowest();\n    for (const Path<T>& path : paths)', '    T xmax = (std::numeric_limits<T>::min)();\n    T ymax = (std::numeric_limits<T>::min)();\n    for (const Path<T>& path : paths)', 'BOUNDS.minmax'),
        ('RDP gets the epsilon unsquared', 'CPP/Clipper2Lib/include/clipper2/clipper.h', '    RDP(path, 0, len - 1, Sqr(epsilon), flags);', '    RDP(path, 0, len - 1, epsilon, flags);', 'EPS.degree'),
        ('Ellipse turns dy with the already updated dx', 'CPP/Clipper2Lib/include/clipper2/clipper.h', '      double x = dx * co - dy * si;\n      dy = dy * co + dx * si;\n      dx = x;', '      dx = dx * co - dy * si;\n      dy = dy * co + dx * si;', 'POLY.utilities'),
        ('perpendicular distance divides by a mixed term', 'CPP/Clipper2Lib/include/clipper2/clipper.core.h', '    return Sqr(a * d - c * b) / (c * c + d * d);', '    return Sqr(a * d - c * b) / (c * c + d * c);', 'POLY.measure'),
        ('a vertex that lowers the minimum cannot raise the maximum (GetBounds(Path))', 'CPP/Clipper2Lib/include/clipper2/clipper.core.h', '      if (p.x < xmin) xmin = p.x;\n      if (p.x > xmax) xmax = p.x;\n      if (p.y < ymin) ymin = p.y;\n      if (p.y > ymax) ymax = p.y;\n    }\n    return Rect<T>(xmin, ymin, xmax, ymax);\n  }\n\n  template <typename T>\n  Rect<T> GetBounds(const Paths<T>& paths)', '      if (p.x < xmin) xmin = p.x;\n      else if (p.x > xmax) xmax = p.x;\n      if (p.y < ymin) ymin = p.y;\n      if (p.y > ymax) ymax = p.y;\n    }\n    return Rect<T>(xmin, ymin, xmax, ymax);\n  }\n\n  template <typename T>\n  Rect<T> GetBounds(const Paths<T>& paths)', 'BOUNDS.minmax'),
        ("prior2 taken before the swap in SimplifyPath", H + "clipper.h", "        prior2 = prior;\n        prior = curr;", "        prior2 = GetPrior(prior, high, flags);\n        prior = curr;", "NEIGHBOURS.fresh"),
        ("inner scan of SimplifyPath uses >= where the outer test uses >", H + "clipper.h", "        } while (curr != start && distSqr[curr] > epsSqr);", "        } while (curr != start && distSqr[curr] >= epsSqr);", "EPS.threshold"),
        ("corner test against the raw previous vertex", H + "clipper.h", "      if (!IsCollinear(*prevIt, *srcIt, *(srcIt + 1)))", "      if (!IsCollinear(*(srcIt - 1), *srcIt, *(srcIt + 1)))", "TRIM.last-kept"),
        ("SimplifyPath emits a computed vertex", H + "clipper.h", "      if (!flags[i]) result.emplace_back(path[i]);", "      if (!flags[i]) result.emplace_back(MidPoint(path[i], path[i]));", "MEMBER"),
    ],
}


def _copy():
    d = tempfile.mkdtemp(prefix="clipper2_ctl.")
    os.makedirs(os.path.join(d, "CPP"))
    shutil.copytree(os.path.join(REPO, "CPP", "Clipper2Lib"), os.path.join(d, "CPP", "Clipper2Lib"))
    shutil.copy(os.path.join(REPO, "CPP", "CMakeLists.txt"), os.path.join(d, "CPP", "CMakeLists.txt"))
    return d


def _one(pid, ctl):
    name, rel, old, new, rule = ctl
    src = os.path.join(REPO, rel)
    try:
        s = open(src).read()
    except OSError:
        return name, "skipped", "file missing"
    if s.count(old) != 1:
        return name, "skipped", "anchor text occurs %d times in the current tree" % s.count(old)
    d = _copy()
    try:
        p = os.path.join(d, rel)
        open(p, "w").write(s.replace(old, new))
        env = dict(os.environ)
        env.update({"VERIF_REPO": d, "VERIF_NO_EVIDENCE": "1", "VERIF_NO_CONTROLS": "1", "VERIF_WORK": os.path.join(d, ".work")})
        r = subprocess.run([sys.executable, os.path.join(VERIF, "check.py"), pid, "--tier", "quick"], env=env,
                           stdout=subprocess.PIPE, stderr=subprocess.STDOUT)
        out = r.stdout.decode(errors="replace")
        if r.returncode == 1 and ("rule %s" % rule) in out:
            return name, "fired", rule
        if r.returncode == 1:
            return name, "fired-other", "violation reported, but not by rule %s" % rule
        if r.returncode == 2:
            return name, "broken", out.strip().splitlines()[-1][:200] if out.strip() else "exit 2"
        return name, "silent", "the check stayed silent"
    finally:
        shutil.rmtree(d, ignore_errors=True)


def run(pid, chk):
    if os.environ.get("VERIF_NO_CONTROLS") or os.environ.get("VERIF_REPO"):
        return
    ctls = CONTROLS.get(pid, [])
    if not ctls:
        return
    with ThreadPoolExecutor(max_workers=min(8, len(ctls))) as ex:
        results = list(ex.map(lambda c: _one(pid, c), ctls))
    ran = 0
    for (name, status, info), ctl in zip(results, ctls):
        chk.controls.append({"control": "mutation: " + name, "expected_rule": ctl[4], "status": status, "info": info})
        if status in ("fired",):
            ran += 1
        elif status == "skipped":
            continue
        else:
            raise AnalysisBroken("mutation control '%s' for %s did not fire as expected (%s: %s)" % (name, pid, status, info))
    if ran == 0:
        raise AnalysisBroken("none of the %d mutation controls of %s could be applied to the current tree" % (len(ctls), pid))
