"""E7 - Z accounting: every vertex created at a crossing reaches SetZ (C15, second sentence).

MUSTFOLLOW  In IntersectEdges (USINGZ build, callback installed) every call that can
            create the output vertex of a crossing (AddOutPt, AddLocalMinPoly,
            AddLocalMaxPoly, StartOpenPath) has its result captured, and on every path
            from it to an exit of the function SetZ(.., .., V->pt) is called (a null
            result needs no Z).  Forward may-pending analysis on the structured CFG.
SPLIT       In DoSplitOp the callback is invoked on the new intersection point before the
            point is stored into any OutPt.
SETZ        SetZ's own table: an intersection point equal to an end point of the crossing
            edges takes that end point's z (subject edge first), otherwise DefaultZ, and
            the callback receives the subject edge before the clip edge.
"""
import re

from ..astq import walk, kids, strip, qt, dqt, where, canon, if_parts
from ..flow import Walker, Client
from ..evalx import Interp, Unsupported
from ..extract import AnalysisBroken

CREATORS = {"AddOutPt", "AddLocalMinPoly", "AddLocalMaxPoly", "StartOpenPath"}


def _u(n):
    from .e6_siblings import _u as u
    return u(n)


class _Pending(Client):
    """state: frozenset of (var id) whose vertex still needs its Z."""

    def __init__(self, db, f, zcb_id_names):
        self.db, self.f = db, f
        self.bad = []
        self.creators = 0
        self.setz = 0
        self.names = {}

    def join(self, a, b):
        return a | b

    def _creator_calls(self, node):
        return [x for x in walk(node) if x.get("kind") == "CXXMemberCallExpr" and self.db.callee(x)[0] in CREATORS]

    def stmt(self, node, st):
        e = _u(node)
        k = e.get("kind")
        # V = creator(...)   /   T V = creator(...)
        if k == "DeclStmt":
            for d in kids(e):
                if d.get("kind") == "VarDecl":
                    init = [c for c in kids(d) if c.get("kind")]
                    if init:
                        cs = self._creator_calls(init[-1])
                        if cs:
                            self.creators += len(cs)
                            self.names[d["id"]] = d.get("name")
                            st = st | {d["id"]}
            return st
        if k == "BinaryOperator" and e.get("opcode") == "=":
            l, r = kids(e)
            l0 = _u(l)
            cs = self._creator_calls(r)
            if l0.get("kind") == "DeclRefExpr" and "OutPt" in qt(l0):
                vid = l0["referencedDecl"]["id"]
                self.names[vid] = l0["referencedDecl"].get("name")
                if vid in st:
                    self.bad.append((e, "'%s' is overwritten while the vertex it refers to has not been given its Z" % self.names[vid]))
                if cs:
                    self.creators += len(cs)
                    return st | {vid}
                if canon(r) == "nullptr":
                    return st - {vid}
                return st
            if cs:
                self.creators += len(cs)
                self.bad.append((e, "result of %s is not captured for Z accounting" % self.db.callee(cs[0])[0]))
            return st
        # SetZ(e1, e2, V->pt)
        if k in ("CXXMemberCallExpr", "CallExpr") and self.db.callee(e)[0] == "SetZ":
            args = self.db.call_args(e)
            if len(args) == 3:
                a = _u(args[2])
                if a.get("kind") == "MemberExpr" and a.get("name") == "pt" and kids(a):
                    b = _u(kids(a)[0])
                    if b.get("kind") == "DeclRefExpr":
                        self.setz += 1
                        return st - {b["referencedDecl"]["id"]}
            return st
        cs = self._creator_calls(e)
        if cs:
            self.creators += len(cs)
            self.bad.append((e, "the vertex created by %s is discarded: it can never be passed to SetZ" % self.db.callee(cs[0])[0]))
        return st

    def cond_atom(self, e, st):
        e0 = _u(e)
        # world: a callback is installed
        if e0.get("kind") == "CXXMemberCallExpr":
            callee = _u(kids(e0)[0])
            if callee.get("name") == "operator bool" and kids(callee):
                b = _u(kids(callee)[0])
                if b.get("kind") == "MemberExpr" and b.get("name") == "zCallback_":
                    return st, None
        if e0.get("kind") == "MemberExpr" and e0.get("name") == "zCallback_":
            return st, None
        if e0.get("kind") == "DeclRefExpr" and "OutPt" in qt(e0):
            vid = e0["referencedDecl"]["id"]
            return st, st - {vid}          # false branch: the creator returned null, no vertex exists
        return self.stmt(e, st), self.stmt(e, st)

    def on_return(self, node, st):
        for vid in st:
            self.bad.append((node, "function returns while the vertex held in '%s' has not been passed to SetZ" % self.names.get(vid, "?")))

    def on_exit(self, st):
        for vid in st:
            self.bad.append((self.f.node, "function ends while the vertex held in '%s' has not been passed to SetZ" % self.names.get(vid, "?")))


def rule_mustfollow(db, chk, cfg, rule="Z.must-follow"):
    f = db.one("ClipperBase::IntersectEdges")
    cl = _Pending(db, f, None)
    Walker(cl).function(f.body, frozenset())
    if cl.creators < 12:
        raise AnalysisBroken("only %d vertex-creating calls found in IntersectEdges (expected >= 12)" % cl.creators)
    seen = set()
    for node, msg in cl.bad:
        key = "%s" % (node.get("line"),)
        if key in seen:
            continue
        seen.add(key)
    chk.instance(rule, {"function": f.qual, "creator_calls": cl.creators, "SetZ_calls": cl.setz, "cfg": cfg}, n=cl.creators, ok=not cl.bad)
    for node, msg in cl.bad[:3]:
        chk.violation(rule, f.qual, canon(node)[:50] if node is not f.node else "exit",
                      "Z accounting broken at a crossing: %s (with a Z callback installed every new intersection vertex must reach "
                      "SetZ(e1, e2, vertex->pt))" % msg, where(node), cfg=cfg)
    return cl.creators


class _Called(Client):
    def __init__(self, db, ip_id):
        self.db, self.ip = db, ip_id
        self.bad = []
        self.stores = 0

    def join(self, a, b):
        return a and b

    def stmt(self, node, st):
        for x in walk(node):
            if x.get("kind") == "CXXOperatorCallExpr":
                ks = kids(x)
                obj = _u(ks[1]) if len(ks) > 1 else {}
                if obj.get("kind") == "MemberExpr" and obj.get("name") == "zCallback_" and \
                        _u(kids(ks[0])[0] if kids(ks[0]) else ks[0]).get("referencedDecl", {}).get("name") == "operator()":
                    if any(_u(a).get("kind") == "DeclRefExpr" and _u(a)["referencedDecl"]["id"] == self.ip for a in ks[2:]):
                        st = True
            if x.get("kind") == "CXXNewExpr" and "OutPt" in qt(x):
                for y in walk(x):
                    if y.get("kind") == "DeclRefExpr" and y.get("referencedDecl", {}).get("id") == self.ip:
                        self.stores += 1
                        if not st:
                            self.bad.append(x)
        return st

    def cond_atom(self, e, st):
        e0 = _u(e)
        if e0.get("kind") == "CXXMemberCallExpr":
            callee = _u(kids(e0)[0])
            if callee.get("name") == "operator bool" and kids(callee) and _u(kids(callee)[0]).get("name") == "zCallback_":
                return st, None
        s = self.stmt(e, st)
        return s, s


def rule_split(db, chk, cfg, rule="Z.split"):
    f = db.one("ClipperBase::DoSplitOp")
    ips = [x for x in walk(f.body) if x.get("kind") == "VarDecl" and x.get("name") == "ip"]
    if len(ips) != 1:
        raise AnalysisBroken("DoSplitOp: intersection point variable 'ip' not found")
    cl = _Called(db, ips[0]["id"])
    Walker(cl).function(f.body, False)
    if cl.stores < 2:
        raise AnalysisBroken("DoSplitOp: expected 2 OutPt constructions from ip, found %d" % cl.stores)
    chk.instance(rule, {"function": f.qual, "OutPt_constructed_from_ip": cl.stores, "cfg": cfg}, n=cl.stores, ok=not cl.bad)
    for x in cl.bad[:1]:
        chk.violation(rule, f.qual, "ip", "the new intersection point is stored into an OutPt (%s) on a path where the Z callback has not "
                      "been invoked on it" % canon(x)[:60], where(x), cfg=cfg)
    return cl.stores


def rule_setz_table(db, chk, cfg, rule="Z.setz-table"):
    f = db.one("ClipperBase::SetZ")
    e1, e2, ip = [p["name"] for p in f.params]
    ends = [e1 + ".bot", e1 + ".top", e2 + ".bot", e2 + ".top"]
    n = 0
    bad = []
    subj = db.enum("PathType").index("Subject")
    clip = db.enum("PathType").index("Clip")
    for t1 in (subj, clip):
        for mask in range(16):
            eq = {ends[i]: bool(mask & (1 << i)) for i in range(4)}
            calls = []

            def hook(name, argv, node, eq=eq, calls=calls):
                if name == "operator==":
                    a = [canon(x) for x in kids(node)[1:]]
                    other = [x for x in a if x != ip]
                    if len(other) == 1 and other[0] in eq:
                        return eq[other[0]]
                    return NotImplemented
                if name in ("operator()", "zCallback_"):
                    calls.append([canon(x) for x in kids(node)[2:]])
                    return None
                return NotImplemented
            env = {"zCallback_": 1, e1 + ".local_min->polytype": t1, e2 + ".local_min->polytype": clip if t1 == subj else subj,
                   "DefaultZ": "Z(default)"}
            for x in ends:
                env[x + ".z"] = "Z(%s)" % x
            it = Interp(db, env, call_hook=hook)
            try:
                it.run_function(f)
            except Unsupported as ex:
                raise AnalysisBroken("cannot interpret SetZ: %s" % ex)
            got = it.env.get(ip + ".z")
            first, second = (e1, e2) if t1 == subj else (e2, e1)
            order = [first + ".bot", first + ".top", second + ".bot", second + ".top"]
            want = "Z(default)"
            for x in order:
                if eq[x]:
                    want = "Z(%s)" % x
                    break
            want_call = order + [ip]
            n += 1
            ok = got == want and calls == [want_call]
            chk.instance(rule, {"e1_is": "Subject" if t1 == subj else "Clip", "ip_equals": [k for k, v in eq.items() if v],
                                "z_before_callback": got, "callback_args": calls[0] if calls else None} if n % 7 == 1 else None, ok=ok)
            if not ok:
                bad.append((t1 == subj, eq, got, want, calls, want_call))
    for b in bad[:1]:
        chk.violation(rule, f.qual, "e1subj=%s/eq=%s" % (b[0], sorted(k for k, v in b[1].items() if v)),
                      "SetZ pre-assigns %s (expected %s) and calls the callback with %s (expected %s); %d cell(s) differ"
                      % (b[2], b[3], b[4], b[5], len(bad)), f.where, cfg=cfg)
    return n


def rule_zcb_rebound(db, chk, cfg, rule="ZCB.rebound"):
    """ClipperD keeps the user's Z callback (PointD flavour) in zCallbackD_ and derives the engine's zCallback_ (a proxy) from it.
    The derived member must follow the user's one at every Execute, whatever it was before: CheckCallback is interpreted for the four
    combinations (user callback set / unset) x (proxy currently set / unset) and must leave the proxy set iff the user callback is
    set; every ClipperD::Execute overload with a body of its own calls CheckCallback before ExecuteInternal."""
    from ..evalx import Interp, Unsupported, _Return
    fs = db.find("ClipperD::CheckCallback", required=False)
    if not fs:
        raise AnalysisBroken("ClipperD::CheckCallback not found in a USINGZ configuration")
    f = fs[0]
    n = 0
    for user in (False, True):
        for proxy in (False, True):
            box = [None]

            def hook(name, argv, nd):
                if name == "bind":
                    return "proxy"
                if name == "operator=" and nd.get("kind") == "CXXOperatorCallExpr":
                    a = db.call_args(nd)
                    try:
                        v = box[0].ev(a[1])
                    except Unsupported:
                        v = "proxy"
                    box[0].env[canon(a[0]).split("::")[-1]] = v
                    return v
                return NotImplemented
            env = {"zCallbackD_": ("user" if user else None), "zCallback_": ("proxy" if proxy else None)}
            it = Interp(db, env, call_hook=hook)
            box[0] = it
            try:
                it.run_function(f)
            except Unsupported as e:
                raise AnalysisBroken("cannot interpret ClipperD::CheckCallback: %s" % e)
            got = bool(it.env.get("zCallback_"))
            n += 1
            chk.instance(rule, {"user_callback_set": user, "proxy_set_before": proxy, "proxy_set_after": got, "cfg": cfg}, ok=(got == user))
            if got != user:
                chk.violation(rule, f.qual, "user=%s/proxy=%s" % (user, proxy), "after CheckCallback the engine's zCallback_ is %s although the user's Z callback is %s "
                              "(it was %s before the call): %s" % ("set" if got else "unset", "set" if user else "unset", "set" if proxy else "unset",
                                                                   "the proxy would call an empty std::function" if got else "the user's callback is ignored"),
                              f.where, cfg=cfg)
    for g in db.find("ClipperD::Execute"):
        calls = [canon(x) for x in walk(g.body) if x.get("kind") in ("CXXMemberCallExpr", "CallExpr") and db.callee(x)[0] in ("CheckCallback", "ExecuteInternal", "Execute")]
        names = [c.split("(")[0] for c in calls]
        if "ExecuteInternal" not in names:
            continue                     # forwards to another overload
        n += 1
        ok = "CheckCallback" in names and names.index("CheckCallback") < names.index("ExecuteInternal")
        chk.instance(rule, {"function": g.qual, "sig": g.sig[:60], "calls": names, "cfg": cfg}, ok=ok)
        if not ok:
            chk.violation(rule, g.qual, g.sig[:40], "this ClipperD::Execute overload does not call CheckCallback before ExecuteInternal: the engine runs with a "
                          "proxy callback that does not follow the user's SetZCallback", g.where, cfg=cfg)
    return n


# ---------------------------------------------------------------------------
# Z.out-point-fresh: a point that is only given new x and y must not carry an old z
# ---------------------------------------------------------------------------

def _partial_point_writers(db):
    """{function id: set of parameter indices}: by-reference Point parameters that the function may leave with new x / y and the z they
    had (it assigns members x / y of the parameter, or hands the parameter on to such a function)."""
    out = {}
    cand = []
    for f in db.funcs:
        if f.is_pattern or f.body is None:
            continue
        for i, p in enumerate(f.params):
            t = qt(p) or ""
            if "&" in t and not t.startswith("const") and "Point<" in (dqt(p) or t).replace("Point64", "Point<").replace("PointD", "Point<"):
                cand.append((f, i, p))
    for f, i, p in cand:
        for x in walk(f.body):
            if x.get("kind") == "BinaryOperator" and x.get("opcode") == "=":
                l = _u(kids(x)[0])
                if l.get("kind") == "MemberExpr" and l.get("name") in ("x", "y") and kids(l):
                    b = _u(kids(l)[0])
                    if b.get("kind") == "DeclRefExpr" and b.get("referencedDecl", {}).get("id") == p.get("id"):
                        out.setdefault(f.id, set()).add(i)
    changed = True
    while changed:
        changed = False
        for f, i, p in cand:
            if i in out.get(f.id, ()):
                continue
            for c in walk(f.body):
                if c.get("kind") not in ("CallExpr", "CXXMemberCallExpr"):
                    continue
                g = db.callee_func(c)
                if g is None or g.id not in out:
                    continue
                for j, a in enumerate(db.call_args(c)):
                    a0 = _u(a)
                    if j in out[g.id] and a0.get("kind") == "DeclRefExpr" and a0.get("referencedDecl", {}).get("id") == p.get("id"):
                        out.setdefault(f.id, set()).add(i)
                        changed = True
    return out


def rule_out_point_fresh(db, chk, cfg, rule="Z.out-point-fresh"):
    """[USINGZ] GetSegmentIntersectPt (and whatever hands its out-parameter on to it) gives its result point new x and y only.  The z of
    a new vertex is then whatever the variable held: the default for a variable declared in the same loop iteration, but the z of an
    earlier vertex for a variable that lives across iterations of an enclosing loop.  Every call site: the destination is a local
    declared inside every loop that encloses the call (or the caller's own out-parameter, judged at its callers)."""
    pw = _partial_point_writers(db)
    if not pw:
        raise AnalysisBroken("Z.out-point-fresh: no function that assigns x / y of a by-reference point parameter found")
    n = 0
    for f in db.funcs:
        if f.is_pattern or f.body is None or not f.file or not ("/clipper2/" in f.file or "/Clipper2Lib/src/" in f.file):
            continue
        loops = None
        for c in walk(f.body):
            if c.get("kind") not in ("CallExpr", "CXXMemberCallExpr"):
                continue
            g = db.callee_func(c)
            if g is None or g.id not in pw:
                continue
            for j, a in enumerate(db.call_args(c)):
                if j not in pw[g.id]:
                    continue
                a0 = _u(a)
                n += 1
                if a0.get("kind") != "DeclRefExpr":
                    chk.instance(rule, {"function": f.qual, "call": canon(c)[:60], "destination": canon(a0)[:30], "judged": "not a plain local", "cfg": cfg}, ok=True)
                    continue
                did = a0.get("referencedDecl", {}).get("id")
                if a0.get("referencedDecl", {}).get("kind") == "ParmVarDecl":
                    chk.instance(rule, {"function": f.qual, "call": canon(c)[:60], "destination": canon(a0), "judged": "caller's out-parameter", "cfg": cfg}, ok=True)
                    continue
                if loops is None:
                    loops = [l for l in walk(f.body) if l.get("kind") in ("ForStmt", "WhileStmt", "DoStmt", "CXXForRangeStmt")]
                bad = None
                for l in loops:
                    inside = any(y is c for y in walk(l))
                    decl_inside = any(y.get("kind") == "VarDecl" and y.get("id") == did for y in walk(l))
                    if inside and not decl_inside:
                        # re-assigned as a whole before the call in the same iteration?  (kept simple: a whole-object assignment that
                        # precedes the call in the loop body, outside any nested condition)
                        body = kids(l)[-1]
                        pre_ok = False
                        for s0 in (kids(body) if body.get("kind") == "CompoundStmt" else [body]):
                            if any(y is c for y in walk(s0)):
                                break
                            s1 = _u(s0)
                            if s1.get("kind") in ("BinaryOperator", "CXXOperatorCallExpr") and (s1.get("opcode") == "=" or db.callee(s1)[0] == "operator="):
                                lhs = _u(kids(s1)[0] if s1.get("kind") == "BinaryOperator" else kids(s1)[1])
                                if lhs.get("kind") == "DeclRefExpr" and lhs.get("referencedDecl", {}).get("id") == did:
                                    pre_ok = True
                        if not pre_ok:
                            bad = l
                            break
                ok = bad is None
                chk.instance(rule, {"function": f.qual, "call": canon(c)[:60], "destination": canon(a0), "cfg": cfg}, ok=ok)
                if not ok:
                    chk.violation(rule, f.qual, "%s|%s" % (g.name, canon(a0)),
                                  "`%s`: %s writes only x and y of `%s`, which is declared outside the loop at %s that encloses the call - in the "
                                  "USINGZ build a new vertex then carries the z left in `%s` by an earlier iteration (e.g. the z of an input vertex "
                                  "copied by a whole-point assignment) instead of the default"
                                  % (canon(c)[:70], g.name, canon(a0), where(bad), canon(a0)), where(c), cfg=cfg)
    return n


# ---------------------------------------------------------------------------
# Z.carry: a point made from another point's x and y takes its z along
# ---------------------------------------------------------------------------

def rule_z_carry(db, chk, cfg, rule="Z.carry"):
    """[USINGZ] A vertex built from the x and the y of one source vertex S (`Point(f(S.x), g(S.y))`, `emplace_back(S.x * s, S.y * s)`) is S
    moved, scaled or converted - its z is S's z.  Every construction of a point from two coordinate arguments that read S.x resp. S.y
    of the same S must have a third argument (reading S.z); the two-argument form silently sets z = 0."""
    n = 0

    def sources(e, axis):
        out = set()
        for y in walk(e):
            if y.get("kind") == "MemberExpr" and y.get("name") == axis and kids(y):
                b = _u(kids(y)[0])
                t = dqt(b) or ""
                if "Point<" in t:
                    out.add(canon(b))
        return out

    # the conversion layer: the functions through which every input vertex enters the integer engine and every solution vertex leaves
    # it (scaling, building the solution paths, the polytree nodes, the C export converters).  Vector arithmetic elsewhere (normals,
    # offsets, TranslatePath ...) makes new points on purpose and is not concerned.
    LAYER = re.compile(r'^(ScalePath|ScalePaths|ScaleRect|BuildPath64|BuildPathD|TransformPath|TransformPaths|PathDToPath64|Path64ToPathD|Paths64ToPathsD|PathsDToPaths64)$')
    for f in db.funcs:
        if f.is_pattern or f.body is None or not f.file or not ("/clipper2/" in f.file or "/Clipper2Lib/src/" in f.file):
            continue
        if not (LAYER.match(f.name or "") or f.cls in ("PolyPath64", "PolyPathD") or f.file.endswith("clipper.export.h")):
            continue
        for c in walk(f.body):
            k = c.get("kind")
            args = None
            if k in ("CXXConstructExpr", "CXXTemporaryObjectExpr") and "Point<" in (dqt(c) or ""):
                args = [a for a in kids(c) if isinstance(a, dict) and a.get("kind") and a.get("kind") != "CXXDefaultArgExpr"]
            elif k == "CXXMemberCallExpr" and db.callee(c)[0] in ("emplace_back",):
                mb = db.member_base(c)
                if mb is not None and "Point<" in (dqt(_u(mb)) or ""):
                    args = [a for a in db.call_args(c) if a.get("kind") != "CXXDefaultArgExpr"]
            if args is None or len(args) < 2:
                continue
            sx, sy = sources(args[0], "x"), sources(args[1], "y")
            same = sx & sy
            if not same:
                continue
            n += 1
            ok = len(args) >= 3
            chk.instance(rule, {"function": f.qual, "construction": canon(c)[:70], "source": sorted(same)[0], "cfg": cfg} if (not ok or n % 6 == 1) else None, ok=ok)
            if not ok:
                chk.violation(rule, f.qual, "%s|%s" % (sorted(same)[0][:30], c.get("line")),
                              "`%s` builds a vertex from the x and y of `%s` without a z argument: in the USINGZ build the new vertex gets z = 0 instead of "
                              "the z of the vertex it was made from" % (canon(c)[:80], sorted(same)[0]), where(c), cfg=cfg)
    return n


class _WholeThenPart(Client):
    """state: 'clean' / 'whole' - the out-parameter has been assigned as a whole (x, y *and z* copied from another point) on this path."""

    def __init__(self, db, pid):
        self.db, self.pid = db, pid
        self.bad = []

    def join(self, a, b):
        return "whole" if "whole" in (a, b) else "clean"

    def stmt(self, node, st):
        for x in walk(node):
            if x.get("kind") == "CXXOperatorCallExpr" and self.db.callee(x)[0] == "operator=" and len(kids(x)) == 3:
                l = _u(kids(x)[1])
                if l.get("kind") == "DeclRefExpr" and l.get("referencedDecl", {}).get("id") == self.pid:
                    st = "whole"
            if x.get("kind") == "BinaryOperator" and x.get("opcode") == "=":
                l = _u(kids(x)[0])
                if l.get("kind") == "MemberExpr" and l.get("name") in ("x", "y") and kids(l):
                    b = _u(kids(l)[0])
                    if b.get("kind") == "DeclRefExpr" and b.get("referencedDecl", {}).get("id") == self.pid and st == "whole":
                        self.bad.append(x)
        return st


def rule_no_whole_then_part(db, chk, cfg, rule="Z.out-point-fresh"):
    """[USINGZ] Inside a function that gives its out-parameter new x and y member-wise, no path assigns the parameter as a whole first
    (`ip = ln1a; ... ip.x = ..; ip.y = ..;`): the member-wise result would carry the z of the point copied before.  Whole assignment
    and member-wise assignment live on different paths."""
    n = 0
    for f in db.funcs:
        if f.is_pattern or f.body is None or not f.file or not ("/clipper2/" in f.file or "/Clipper2Lib/src/" in f.file):
            continue
        for i, p in enumerate(f.params):
            t = qt(p) or ""
            if not ("&" in t and not t.startswith("const") and "Point<" in (dqt(p) or t).replace("Point64", "Point<").replace("PointD", "Point<")):
                continue
            if not any(x.get("kind") == "BinaryOperator" and x.get("opcode") == "=" and _u(kids(x)[0]).get("kind") == "MemberExpr"
                       and _u(kids(x)[0]).get("name") in ("x", "y") and kids(_u(kids(x)[0])) and
                       _u(kids(_u(kids(x)[0]))[0]).get("referencedDecl", {}).get("id") == p.get("id") for x in walk(f.body)):
                continue
            cl = _WholeThenPart(db, p.get("id"))
            Walker(cl).function(f.body, "clean")
            n += 1
            ok = not cl.bad
            chk.instance(rule, {"function": f.qual, "sig": f.sig[:50], "out_parameter": p.get("name"), "obligation": "no whole assignment precedes the member-wise x / y on any path", "cfg": cfg}, ok=ok)
            if not ok:
                chk.violation(rule, f.qual, "%s|whole-then-part|%s" % (f.sig[:30], p.get("name")),
                              "%s [%s]: `%s` is assigned as a whole and then given new x / y member-wise on the same path (%s): the resulting vertex keeps the z of the "
                              "point copied first instead of the default" % (f.qual, f.sig[:46], p.get("name"), where(cl.bad[0])), where(cl.bad[0]), cfg=cfg)
    return n


# ---------------------------------------------------------------------------
# Z.crossing-default: a crossing point the sweep makes up itself is handed to IntersectEdges with the default z
# ---------------------------------------------------------------------------

def rule_crossing_default(db, chk, cfg, rule="Z.crossing-default"):
    """[USINGZ] IntersectEdges(e1, e2, pt) receives the new vertex in `pt`; its z is decided by SetZ - and only when a callback is installed:
    without one SetZ returns at once and the vertex keeps whatever z `pt` arrived with.  So a point the caller *constructs* for the call
    (a local assigned from a Point64 constructor, as opposed to an existing vertex such as e.top or node.pt) is constructed without a z
    argument - or is a whole copy x, y, z of one vertex.  Otherwise a new vertex carries the z of some unrelated vertex, not the default."""
    n = 0
    for f in db.funcs:
        if f.is_pattern or f.body is None:
            continue
        calls = [x for x in walk(f.body) if x.get("kind") in ("CXXMemberCallExpr", "CallExpr") and db.callee(x)[0] == "IntersectEdges"]
        locs = {}
        for c in calls:
            a = _u(db.call_args(c)[-1]) if db.call_args(c) else None
            if a is not None and a.get("kind") == "DeclRefExpr" and a.get("referencedDecl", {}).get("kind") == "VarDecl":
                locs[a["referencedDecl"]["id"]] = a["referencedDecl"].get("name")
        if not locs:
            continue
        for x in walk(f.body):
            tgt, rhs = None, None
            if x.get("kind") == "CXXOperatorCallExpr" and len(kids(x)) == 3 and canon(kids(x)[0]) == "operator=":
                l = _u(kids(x)[1])
                if l.get("kind") == "DeclRefExpr" and l.get("referencedDecl", {}).get("id") in locs:
                    tgt, rhs = locs[l["referencedDecl"]["id"]], kids(x)[2]
            elif x.get("kind") == "VarDecl" and x.get("id") in locs and kids(x):
                tgt, rhs = locs[x["id"]], kids(x)[-1]
            if tgt is None:
                continue
            r = rhs
            while r.get("kind") in ("MaterializeTemporaryExpr", "ImplicitCastExpr", "CXXBindTemporaryExpr", "ExprWithCleanups", "CXXFunctionalCastExpr", "ParenExpr") and kids(r):
                r = kids(r)[0]
            if r.get("kind") not in ("CXXTemporaryObjectExpr", "CXXConstructExpr"):
                continue
            args = [_u(k) for k in kids(r)]
            if len(args) != 3:
                continue                                   # default construction / copy of an existing vertex
            n += 1
            z = args[2]
            def base(m):
                return canon(kids(m)[0]) if m.get("kind") == "MemberExpr" and kids(m) else None
            whole = all(a.get("kind") == "MemberExpr" for a in args) and [a.get("name") for a in args] == ["x", "y", "z"] and len({base(a) for a in args}) == 1
            ok = z.get("kind") == "CXXDefaultArgExpr" or whole
            chk.instance(rule, {"function": f.qual, "point": tgt, "constructed_as": canon(r)[:70], "cfg": cfg}, ok=ok)
            if not ok:
                chk.violation(rule, f.qual, "%s|%s" % (tgt, canon(z)[:30]),
                              "the crossing point `%s` handed to IntersectEdges is constructed as %s: its z comes from %s although x and y do not name "
                              "that vertex; without a Z callback SetZ leaves it alone, so a vertex the sweep has just created carries that z instead of "
                              "the default" % (tgt, canon(r)[:70], canon(z)[:30]), where(x), cfg=cfg)
    return n
