"""E10 - output pipeline: must-precede, option plumbing and effect confinement (C03, C04).

PRECEDE   every BuildPath64/BuildPathD call that builds a *closed* path (isOpen == false) is preceded, on
          all paths and for the same OutRec, by CleanCollinear; its `reverse` argument is reverse_solution_
PLUMB     preserve_collinear_ / reverse_solution_ are written only by their setters (and default initialisers);
          OutRec::path is written only by CheckBounds; polytree children are created from outrec->path only
GUARD     BuildPath64/D reject rings with fewer than three (closed) / two (open) points
PIPELINE  paths output and tree output send closed and open contours through the same calls with the same arguments
CONFINE   a branch on using_polytree_ may only write ownership fields (owner, splits, recursive_split, polypath,
          OutPt::outrec); the set of rings cannot depend on the output mode
"""
import re

from ..astq import walk, kids, strip, qt, dqt, where, canon, if_parts
from ..flow import Walker, Client
from ..evalx import Interp, Unsupported
from ..evalx import _Return as _ReturnX
from ..extract import AnalysisBroken

BUILDERS = {"BuildPath64", "BuildPathD"}


def _u(n):
    from .e6_siblings import _u as u
    return u(n)


class _Cleaned(Client):
    def __init__(self, db):
        self.db = db
        self.bad = []
        self.sites = []

    def join(self, a, b):
        return a & b

    def stmt(self, node, st):
        for x in walk(node):
            k = x.get("kind")
            if k in ("CallExpr", "CXXMemberCallExpr"):
                nm = self.db.callee(x)[0]
                args = self.db.call_args(x)
                if nm == "CleanCollinear" and args:
                    st = st | {canon(args[0])}
                elif nm in BUILDERS and len(args) >= 4:
                    is_open = canon(args[2])
                    rec = canon(args[0])
                    rec = re.sub(r'->pts$', '', rec)
                    self.sites.append((x, nm, is_open, rec, canon(args[1])))
                    if is_open == "false" and rec not in st:
                        self.bad.append((x, "closed path of %s is built without a preceding CleanCollinear(%s) on this path" % (rec, rec)))
                    if is_open not in ("true", "false"):
                        self.bad.append((x, "isOpen argument %s is not a literal: cannot tell whether cleaning is required" % is_open))
                    if canon(args[1]) != "reverse_solution_":
                        self.bad.append((x, "the `reverse` argument is %s, not reverse_solution_" % canon(args[1])))
        return st


def rule_precede(db, chk, cfg, rule="PRECEDE"):
    n = 0
    total_sites = 0
    closed_sites = 0
    for f in db.funcs:
        if f.is_pattern:
            continue
        if not any(x.get("kind") == "CallExpr" and db.callee(x)[0] in BUILDERS for x in walk(f.body)):
            continue
        cl = _Cleaned(db)
        Walker(cl).function(f.body, frozenset())
        for x, nm, is_open, rec, rev in cl.sites:
            pass
        seen = set()
        for x, nm, is_open, rec, rev in cl.sites:
            key = (x.get("line"), nm, is_open)
            if key in seen:
                continue
            seen.add(key)
            total_sites += 1
            closed_sites += is_open != "true"          # a non-literal isOpen is reported above; it still counts as a site
            bad = [m for (y, m) in cl.bad if y is x]
            chk.instance(rule, {"function": f.qual, "call": "%s(%s->pts, %s, %s, ..)" % (nm, rec, rev, is_open), "where": where(x), "cfg": cfg}, ok=not bad)
            for m in bad[:1]:
                chk.violation(rule, f.qual, "%s@%s" % (nm, is_open), m + ": duplicate / collinear / spike vertices and tiny rings would reach the solution",
                              where(x), cfg=cfg)
    if total_sites < 7 or closed_sites < 3:
        raise AnalysisBroken("expected >= 7 BuildPath call sites (>= 3 closed), found %d (%d closed)" % (total_sites, closed_sites))
    return total_sites


def rule_plumb(db, chk, cfg, rule="PLUMB"):
    n = 0
    # (a) option fields are written only by their setters
    for fld, setter in (("preserve_collinear_", "PreserveCollinear"), ("reverse_solution_", "ReverseSolution")):
        writers = []
        for f in db.funcs:
            if f.is_pattern or f.cls not in ("ClipperBase", "Clipper64", "ClipperD"):
                continue
            for x in walk(f.body):
                if x.get("kind") in ("BinaryOperator", "CompoundAssignOperator") and x.get("opcode", "").endswith("="):
                    if x.get("opcode") in ("==", "!=", "<=", ">="):
                        continue
                    l = _u(kids(x)[0])
                    if l.get("kind") == "MemberExpr" and l.get("name") == fld:
                        writers.append(f)
        n += 1
        bad = [w for w in writers if w.name != setter]
        chk.instance(rule, {"field": fld, "writers": sorted({w.qual for w in writers}), "cfg": cfg}, ok=not bad and bool(writers))
        if bad:
            chk.violation(rule, bad[0].qual, fld, "option member %s is written outside its setter %s" % (fld, setter), bad[0].where, cfg=cfg)
        if not writers:
            raise AnalysisBroken("setter of %s not found" % fld)
    # (b) preserve_collinear_ feeds CleanCollinear's condition and TrimHorz
    cc = db.one("ClipperBase::CleanCollinear")
    reads_cc = any(x.get("kind") == "MemberExpr" and x.get("name") == "preserve_collinear_" for x in walk(cc.body))
    ue = db.one("ClipperBase::UpdateEdgeIntoAEL")
    th = [x for x in walk(ue.body) if x.get("kind") == "CallExpr" and db.callee(x)[0] == "TrimHorz"]
    ok_th = bool(th) and all(canon(db.call_args(x)[1]) == "preserve_collinear_" for x in th)
    n += 1
    chk.instance(rule, {"obligation": "preserve_collinear_ read by CleanCollinear and passed to TrimHorz", "cfg": cfg}, ok=reads_cc and ok_th)
    if not reads_cc:
        chk.violation(rule, cc.qual, "preserve_collinear_", "CleanCollinear no longer consults preserve_collinear_", cc.where, cfg=cfg)
    if not ok_th:
        chk.violation(rule, ue.qual, "TrimHorz", "TrimHorz is not called with preserve_collinear_", ue.where, cfg=cfg)
    # (c) OutRec::path is produced only by CheckBounds; polytree children come from outrec->path
    for f in db.funcs:
        if f.is_pattern:
            continue
        for x in walk(f.body):
            if x.get("kind") in ("CallExpr", "CXXMemberCallExpr"):
                nm = db.callee(x)[0]
                args = db.call_args(x)
                if nm in BUILDERS and len(args) >= 4 and canon(args[3]).endswith("->path"):
                    n += 1
                    ok = f.qual == "ClipperBase::CheckBounds"
                    chk.instance(rule, {"obligation": "OutRec::path built in", "function": f.qual, "cfg": cfg}, ok=ok)
                    if not ok:
                        chk.violation(rule, f.qual, "OutRec::path", "OutRec::path is built outside CheckBounds (which cleans first)", where(x), cfg=cfg)
                if nm == "AddChild" and f.qual == "ClipperBase::RecursiveCheckOwners":
                    n += 1
                    ok = canon(args[0]) == "outrec->path"
                    chk.instance(rule, {"obligation": "polytree child path", "arg": canon(args[0]), "cfg": cfg}, ok=ok)
                    if not ok:
                        chk.violation(rule, f.qual, "AddChild", "a polytree child is created from %s, not from outrec->path" % canon(args[0]), where(x), cfg=cfg)
    return n


def rule_guard(db, chk, cfg, rule="GUARD"):
    """First statement of BuildPath64/D: reject null, single-node rings, and two-node rings unless open."""
    n = 0
    for q in ("BuildPath64", "BuildPathD"):
        f = db.one(q)
        first = kids(f.body)[0]
        if first.get("kind") != "IfStmt":
            raise AnalysisBroken("%s no longer starts with its degenerate-ring guard" % q)
        cond, then, els = if_parts(first)
        rv = canon(then)
        op, isopen = f.params[0]["name"], f.params[2]["name"]
        bad = None
        for null in (True, False):
            for nodes in (1, 2, 3):
                for open_ in (False, True):
                    def hook(name, argv, nd):
                        return NotImplemented
                    env = {isopen: open_}
                    if null:
                        env[op] = None
                    else:
                        env[op] = 100
                        env[op + "->next"] = 100 if nodes == 1 else 101
                        env[op + "->prev"] = 100 if nodes == 1 else (101 if nodes == 2 else 102)
                    try:
                        got = bool(Interp(db, env).ev(cond))
                    except Unsupported:
                        if not null:
                            raise
                        got = "null dereference"     # the short-circuit no longer protects `op->next`: a record whose ring CleanCollinear disposed of crashes here
                    want = null or nodes == 1 or (nodes == 2 and not open_)
                    n += 1
                    ok = got == want
                    chk.instance(rule, {"function": q, "op_null": null, "ring_nodes": nodes, "isOpen": open_, "rejected": got} if n % 5 == 1 else None, ok=ok)
                    if not ok and bad is None:
                        bad = (null, nodes, open_, got)
        if "return false" not in rv:
            bad = bad or ("-", "-", "-", "guard does not return false")
        if bad:
            chk.violation(rule, f.qual, "null=%s/nodes=%s/open=%s" % bad[:3],
                          "%s's degenerate-ring guard is wrong: op null=%s, ring of %s node(s), isOpen=%s -> rejected=%s (closed paths need >= 3 "
                          "points, open paths >= 2)" % ((q,) + bad), where(first), cfg=cfg)
        # the exit filter: what follows the copy loop rejects exactly a *closed* three-point ring that is a very small triangle (an open
        # piece of three vertices, two of them close together, is a polyline of real length)
        tail = []
        for s0 in reversed(kids(f.body)):
            if isinstance(s0, dict) and s0.get("kind") in ("WhileStmt", "ForStmt", "DoStmt"):
                break
            tail.insert(0, s0)
        badx = None
        pathp = f.params[3]["name"] if len(f.params) > 3 else "path"
        for open_ in (False, True):
            for size in (2, 3, 4):
                for small in (False, True):
                    def hookx(name, argv, nd, size=size, small=small):
                        if name == "size" and nd.get("kind") == "CXXMemberCallExpr":
                            return size
                        if name == "IsVerySmallTriangle":
                            return small
                        return NotImplemented
                    itx = Interp(db, {isopen: open_, "op2": 100}, [], call_hook=hookx)
                    gotx = None
                    try:
                        for s0 in tail:
                            itx.exec(s0)
                    except _ReturnX as r:
                        gotx = bool(r.v)
                    except Unsupported as e:
                        raise AnalysisBroken("%s: cannot interpret the statements after the copy loop: %s" % (q, e))
                    wantx = not (not open_ and size == 3 and small)
                    n += 1
                    okx = gotx == wantx
                    chk.instance(rule, {"function": q, "isOpen": open_, "points": size, "very_small_triangle": small, "accepted": gotx} if n % 4 == 1 or not okx else None, ok=okx)
                    if not okx and badx is None:
                        badx = (open_, size, small, gotx)
        if badx:
            chk.violation(rule, f.qual, "exit|open=%s/size=%s/small=%s" % badx[:3], "%s's final filter is wrong: isOpen=%s, %s points, very small triangle=%s -> %s; only a closed "
                          "three-point sliver is discarded (an open piece keeps its length)" % ((q,) + badx[:3] + ("accepted" if badx[3] else ("rejected" if badx[3] is not None else "no answer"),)),
                          where(tail[0]) if tail else f.where, cfg=cfg)
        # duplicate suppression while copying: a vertex is appended only if it differs from the last one appended
        emp = [x for x in walk(f.body) if x.get("kind") == "CXXMemberCallExpr" and db.callee(x)[0] == "emplace_back"]
        loops = [x for x in walk(f.body) if x.get("kind") == "WhileStmt"]
        okd = False
        for l in loops:
            for x in walk(l):
                if x.get("kind") == "IfStmt":
                    c2, t2, e2 = if_parts(x)
                    if re.search(r'\(op2->pt != lastPt\)|\(lastPt != op2->pt\)', canon(c2)) and "emplace_back" in canon(t2) and "(lastPt = op2->pt)" in canon(t2):
                        inside = [y for y in walk(l) if y.get("kind") == "CXXMemberCallExpr" and db.callee(y)[0] == "emplace_back"]
                        guarded = [y for y in walk(t2) if y.get("kind") == "CXXMemberCallExpr" and db.callee(y)[0] == "emplace_back"]
                        okd = len(inside) == len(guarded)
        n += 1
        chk.instance(rule, {"function": q, "obligation": "vertices appended in the copy loop only when != last appended", "cfg": cfg}, ok=okd)
        if not okd:
            chk.violation(rule, f.qual, "dup-skip", "%s appends a vertex in its copy loop without the `op2->pt != lastPt` test: consecutive "
                          "equal vertices can reach the solution" % q, f.where, cfg=cfg)
    return n


def _closed_pipeline(db, f):
    """Sequence of (callee, canonical args) relevant to building a closed / open contour in f."""
    seq = []
    for x in walk(f.body):
        if x.get("kind") in ("CallExpr", "CXXMemberCallExpr"):
            nm = db.callee(x)[0]
            if nm == "CleanCollinear":
                seq.append(("CleanCollinear", (canon(db.call_args(x)[0]),)))
            elif nm in BUILDERS:
                a = db.call_args(x)
                seq.append(("BuildPath", (canon(a[0]), canon(a[1]), canon(a[2]))))
    return seq


def rule_pipeline(db, chk, cfg, rule="PIPELINE"):
    n = 0
    cb = _closed_pipeline(db, db.one("ClipperBase::CheckBounds"))
    for suffix, cls in (("64", "Clipper64"), ("D", "ClipperD")):
        bp = _closed_pipeline(db, db.one("%s::BuildPaths%s" % (cls, suffix)))
        bt = _closed_pipeline(db, db.one("%s::BuildTree%s" % (cls, suffix)))
        closed_paths = [s for s in bp if not (s[0] == "BuildPath" and s[1][2] == "true")]
        open_paths = [s for s in bp if s[0] == "BuildPath" and s[1][2] == "true"]
        open_tree = [s for s in bt if s[0] == "BuildPath" and s[1][2] == "true"]
        closed_tree = [s for s in bt if not (s[0] == "BuildPath" and s[1][2] == "true")] + cb
        calls_cb = any(x.get("kind") == "CXXMemberCallExpr" and db.callee(x)[0] == "CheckBounds" for x in walk(db.one("%s::BuildTree%s" % (cls, suffix)).body))
        n += 1
        ok = closed_paths == closed_tree and open_paths == open_tree and calls_cb and len(closed_paths) == 2 and len(open_paths) == 1
        chk.instance(rule, {"engine": cls, "closed (paths)": closed_paths, "closed (tree, via CheckBounds)": closed_tree, "open (paths)": open_paths,
                            "open (tree)": open_tree, "cfg": cfg}, ok=ok)
        if not ok:
            chk.violation(rule, "%s::BuildTree%s" % (cls, suffix), "pipeline",
                          "paths output and tree output no longer send contours through the same calls: closed paths=%s tree=%s; open paths=%s tree=%s"
                          % (closed_paths, closed_tree, open_paths, open_tree), db.one("%s::BuildTree%s" % (cls, suffix)).where, cfg=cfg)
    return n


OWNERSHIP = {"owner", "splits", "recursive_split", "polypath", "outrec"}
CONFINE_ALLOW = {
    ("ClipperBase::ProcessHorzJoins", "pts"): "when a horizontal join splits a ring in tree mode, which of the two OutRecs holds which ring is swapped so "
                                              "that the outer one keeps the lower index; the set of rings is unchanged",
}


def _writes(db, node, depth=0, seen=None):
    """Member names written (assigned / mutated through a container method) in node, callees included."""
    out = set()
    seen = seen if seen is not None else set()
    local = {x["id"] for x in walk(node) if x.get("kind") == "VarDecl" and "id" in x}
    for x in walk(node):
        k = x.get("kind")
        if k in ("BinaryOperator", "CompoundAssignOperator") and x.get("opcode") in ("=", "+=", "-=", "|=", "&=", "*=", "/="):
            l = _u(kids(x)[0])
            if l.get("kind") == "MemberExpr":
                out.add(l.get("name"))
            elif l.get("kind") == "DeclRefExpr" and l.get("referencedDecl", {}).get("id") not in local and \
                    l.get("referencedDecl", {}).get("kind") == "ParmVarDecl" and "&" in qt(l):
                out.add("&" + l["referencedDecl"].get("name", "?"))
        elif k == "UnaryOperator" and x.get("opcode") in ("++", "--"):
            l = _u(kids(x)[0])
            if l.get("kind") == "MemberExpr":
                out.add(l.get("name"))
        elif k == "CXXMemberCallExpr":
            callee = _u(kids(x)[0])
            nm = callee.get("name")
            base = _u(kids(callee)[0]) if kids(callee) else {}
            f = db.callee_func(x)
            if f is None or f.body is None or (f.file and "/clipper2/" not in f.file and "/Clipper2Lib/" not in f.file):
                if nm in ("emplace_back", "push_back", "clear", "resize", "erase", "insert", "pop_back", "reset", "swap"):
                    b = base
                    while b.get("kind") in ("UnaryOperator", "CXXOperatorCallExpr") and kids(b):
                        b = _u(kids(b)[-1])
                    if b.get("kind") == "MemberExpr":
                        out.add(b.get("name"))
            elif f.id not in seen and depth < 6:
                seen.add(f.id)
                out |= _writes(db, f.body, depth + 1, seen)
        elif k == "CallExpr":
            f = db.callee_func(x)
            if f is not None and f.body is not None and f.id not in seen and depth < 6 and f.file and ("/clipper2/" in f.file or "/Clipper2Lib/" in f.file):
                seen.add(f.id)
                out |= {w for w in _writes(db, f.body, depth + 1, seen) if not w.startswith("&")}
        elif k == "CXXDeleteExpr":
            out.add("<delete>")
    return out


def rule_confine(db, chk, cfg, rule="CONFINE"):
    n = 0
    for f in db.funcs:
        if f.is_pattern or f.cls not in ("ClipperBase", "Clipper64", "ClipperD"):
            continue
        for x in walk(f.body):
            if x.get("kind") != "IfStmt":
                continue
            cond, then, els = if_parts(x)
            if not any(y.get("kind") == "MemberExpr" and y.get("name") == "using_polytree_" for y in walk(cond)):
                continue
            n += 1
            w = _writes(db, then) | (_writes(db, els) if els is not None else set())
            extra = sorted(m for m in w if m not in OWNERSHIP)
            kept = []
            for m in extra:
                a = CONFINE_ALLOW.get((f.qual, m))
                if a:
                    chk.allow(rule, "%s:%s" % (f.qual, m), a)
                else:
                    kept.append(m)
            chk.instance(rule, {"function": f.qual, "where": where(x), "writes": sorted(w), "cfg": cfg}, ok=not kept)
            if kept:
                chk.violation(rule, f.qual, ",".join(kept),
                              "the branch on using_polytree_ at %s writes %s, which is not an ownership field (owner, splits, recursive_split, "
                              "polypath, OutPt::outrec): the solution's rings could differ between paths and tree output" % (where(x), kept),
                              where(x), cfg=cfg)
    if n < 5:
        raise AnalysisBroken("only %d branches on using_polytree_ found (expected >= 5)" % n)
    return n


class _StartReset(Client):
    """state: True once startOp has been assigned since the vertex was removed."""

    def __init__(self):
        self.exits = []

    def join(self, a, b):
        return a and b

    def stmt(self, node, st):
        for x in walk(node):
            if x.get("kind") == "BinaryOperator" and x.get("opcode") == "=" and canon(kids(x)[0]) == "startOp" and canon(kids(x)[1]) == "op2":
                st = True
        return st

    def on_return(self, node, st):
        pass


def rule_removal_restart(db, chk, cfg, rule="REMOVAL.restart"):
    """CleanCollinear: after every removal the lap restarts at the current vertex (startOp = op2) before the scan continues,
    so that the neighbours of a removed vertex are examined again and the loop only ends after a full lap without removal."""
    from ..flow import _Ctx
    f = db.one("ClipperBase::CleanCollinear")
    site = None
    for x in walk(f.body):
        if x.get("kind") == "IfStmt":
            cond, then, els = if_parts(x)
            if "IsCollinear(" in canon(cond) and any(y.get("kind") == "CallExpr" and db.callee(y)[0] == "DisposeOutPt" for y in walk(then)):
                site = (x, then)
    if site is None:
        raise AnalysisBroken("removal branch of CleanCollinear not found")
    node, then = site
    # statements after the DisposeOutPt call inside the removal branch
    sts = kids(then) if then.get("kind") == "CompoundStmt" else [then]
    idx = None
    for i, s in enumerate(sts):
        if any(y.get("kind") == "CallExpr" and db.callee(y)[0] == "DisposeOutPt" for y in walk(s)):
            idx = i
    tail = {"kind": "CompoundStmt", "inner": sts[idx + 1:]}
    cl = _StartReset()
    w = Walker(cl)
    ctx = _Ctx()
    w.loops.append(ctx)
    out = w.run(tail, False)
    w.loops.pop()
    back = [s for s in [out] + ctx.continues if s is not None]
    ok = bool(back) and all(back)
    chk.instance(rule, {"function": f.qual, "paths_back_into_the_scan": len(back), "all_reset_startOp": ok, "cfg": cfg}, ok=ok)
    if not ok:
        chk.violation(rule, f.qual, "startOp", "after removing a vertex CleanCollinear can continue the scan without `startOp = op2`: the lap may "
                      "end before the neighbours of the removed vertex have been examined again, leaving a spike or a collinear vertex", where(node), cfg=cfg)
    return 1


class _Deepest(Client):
    """state: True once CheckSplitOwner(outrec, split->splits) has been evaluated for the current split."""

    def __init__(self, db, fname):
        self.db, self.fname = db, fname
        self.bad = []
        self.assigns = 0

    def join(self, a, b):
        return a and b

    def _scan(self, node, st):
        for x in walk(node):
            if x.get("kind") == "CXXMemberCallExpr" and self.db.callee(x)[0] == self.fname:
                args = self.db.call_args(x)
                if len(args) == 2 and canon(args[1]) == "split->splits":
                    st = True
            if x.get("kind") == "BinaryOperator" and x.get("opcode") == "=" and canon(kids(x)[0]) == "split":
                st = False            # `split` now names another OutRec: its splits have not been searched yet
            if x.get("kind") == "VarDecl" and x.get("name") == "split":
                st = False
            if x.get("kind") == "BinaryOperator" and x.get("opcode") == "=" and canon(kids(x)[0]) == "outrec->owner" and canon(kids(x)[1]) == "split":
                self.assigns += 1
                if not st:
                    self.bad.append(x)
        return st

    def stmt(self, node, st):
        return self._scan(node, st)

    def cond_atom(self, e, st):
        # `split->splits && CheckSplitOwner(outrec, split->splits)`: when split->splits is null there is nothing deeper
        e0 = _u(e)
        c0 = canon(e0)
        if c0 in ("split->splits", "(split->splits != nullptr)", "(nullptr != split->splits)"):
            return st, True
        if c0 in ("(split->splits == nullptr)", "(nullptr == split->splits)"):
            return True, st
        s = self._scan(e, st)
        return s, s


def rule_deepest_first(db, chk, cfg, rule="OWNER.deepest-first"):
    """CheckSplitOwner: an outrec is assigned to `split` as owner only after the splits of `split` have been searched
    (and did not contain it): the innermost containing split becomes the owner."""
    f = db.one("ClipperBase::CheckSplitOwner")
    loops = [x for x in kids(f.body) if x.get("kind") in ("CXXForRangeStmt", "ForStmt", "WhileStmt") and "outrec->owner = split" in canon(x)]
    if len(loops) != 1:
        raise AnalysisBroken("loop over splits in CheckSplitOwner not found")
    body = kids(loops[0])[-1]
    cl = _Deepest(db, "CheckSplitOwner")
    from ..flow import _Ctx
    w = Walker(cl)
    w.loops.append(_Ctx())
    w.run(body, False)
    w.loops.pop()
    if cl.assigns < 1:
        raise AnalysisBroken("`outrec->owner = split` not found in CheckSplitOwner")
    ok = not cl.bad
    chk.instance(rule, {"function": f.qual, "owner_assignments": cl.assigns, "cfg": cfg}, ok=ok)
    if not ok:
        chk.violation(rule, f.qual, "outrec->owner=split", "CheckSplitOwner can make `split` the owner without having searched split->splits first: a polygon "
                      "inside a split of a split is attached one level too high (wrong depth / IsHole alternation in the PolyTree)", where(cl.bad[0]), cfg=cfg)
    return 1


def rule_splits_append_only(db, chk, cfg, rule="SPLITS.append-only"):
    """OutRec::splits records which contours were split off a contour; the owner search (CheckSplitOwner) can only find a parent that is
    still listed.  The lists therefore only grow: a list is created where there was none, entries are appended, and the only list that
    may be emptied is one whose entries have just been appended to another list (MoveSplits).  Overwriting, swapping or erasing loses
    parents: islands end up attached to the wrong contour."""
    READ_ONLY = {"begin", "end", "cbegin", "cend", "size", "empty", "front", "back", "operator[]", "at"}
    n = 0
    for f in db.funcs:
        if f.body is None or f.is_pattern or not (f.file or "").endswith(("clipper.engine.cpp", "clipper.engine.h")):
            continue
        par = {}
        for x in walk(f.body):
            for c in kids(x):
                if isinstance(c, dict):
                    par[id(c)] = x
        body_txt = None
        for x in walk(f.body):
            k = x.get("kind")
            # (1) pointer assignments  X->splits = ...
            if k == "BinaryOperator" and x.get("opcode") == "=":
                l = _u(kids(x)[0])
                if l.get("kind") == "MemberExpr" and l.get("name") == "splits" and "OutRecList" in qt(l) or \
                        (l.get("kind") == "MemberExpr" and l.get("name") == "splits" and "vector<" in dqt(l)):
                    owner = canon(kids(l)[0]) if kids(l) else "this"
                    r = _u(kids(x)[1])
                    if r.get("kind") == "DeclRefExpr":
                        # a local that was initialised with a fresh list stands for that allocation
                        d = db.by_id.get(r.get("referencedDecl", {}).get("id"))
                        if d is not None and d.get("kind") == "VarDecl":
                            init = [c for c in kids(d) if isinstance(c, dict) and c.get("kind")]
                            if init and _u(init[-1]).get("kind") == "CXXNewExpr":
                                r = _u(init[-1])
                    n += 1
                    ok = False
                    why = ""
                    if r.get("kind") in ("CXXNullPtrLiteralExpr", "GNUNullExpr"):
                        ok = f.name == "NewOutRec" or f.kind in ("CXXConstructorDecl",)
                        why = "sets an existing list pointer to null outside NewOutRec"
                    elif r.get("kind") == "CXXNewExpr":
                        # fresh OutRec created in this function, or guarded by `if (!X->splits)`
                        fresh = any(d.get("kind") == "VarDecl" and d.get("name") == owner and any(
                            y.get("kind") in ("CXXMemberCallExpr", "CallExpr") and db.callee(y)[0] == "NewOutRec" for y in walk(d)) for d in walk(f.body))
                        guarded = False
                        p = par.get(id(x))
                        while p is not None:
                            if p.get("kind") == "IfStmt":
                                c0 = canon(if_parts(p)[0])
                                if c0 in ("(!%s->splits)" % owner, "(%s->splits == nullptr)" % owner, "(!%s.splits)" % owner):
                                    guarded = True
                                break
                            p = par.get(id(p))
                        ok = fresh or guarded
                        why = "replaces the list of an existing OutRec without testing that it has none"
                    else:
                        why = "assigns %s" % canon(r)[:40]
                    chk.instance(rule, {"function": f.qual, "write": canon(x)[:60], "cfg": cfg}, ok=ok)
                    if not ok:
                        chk.violation(rule, f.qual, "ptr|" + canon(x)[:50], "`%s` %s: entries recorded so far are lost to the owner search" % (canon(x)[:70], why),
                                      where(x), cfg=cfg)
            # (2) member calls on a splits list
            if k == "CXXMemberCallExpr":
                base = db.member_base(x)
                if base is None:
                    continue
                b = _u(base)
                if not (b.get("kind") == "MemberExpr" and b.get("name") == "splits"):
                    continue
                m = db.callee(x)[0]
                owner = canon(kids(b)[0]) if kids(b) else "this"
                n += 1
                ok = m in READ_ONLY or m in ("emplace_back", "push_back")
                why = "calls %s() on a splits list" % m
                if m == "clear":
                    # allowed only after every entry has been appended to another splits list in the same function
                    loops = [y for y in walk(f.body) if y.get("kind") in ("ForStmt", "CXXForRangeStmt", "WhileStmt")]
                    moved = False
                    for lp in loops:
                        lt = canon(lp)
                        hdr = " ".join(canon(z) for z in kids(lp)[:-1] if isinstance(z, dict) and z.get("kind"))
                        reads_src = ("%s->splits" % owner) in lt
                        appends = [y for y in walk(kids(lp)[-1]) if y.get("kind") == "CXXMemberCallExpr" and db.callee(y)[0] in ("emplace_back", "push_back")
                                   and db.member_base(y) is not None and _u(db.member_base(y)).get("name") == "splits"
                                   and canon(kids(_u(db.member_base(y)))[0]) != owner]
                        if reads_src and appends:
                            moved = True
                    ok = moved
                    why = "empties the list of %s although its entries were not appended to another list first" % owner
                chk.instance(rule, {"function": f.qual, "call": canon(x)[:60], "cfg": cfg}, ok=ok)
                if not ok:
                    chk.violation(rule, f.qual, "call|" + canon(x)[:50], "`%s` %s: the lists only grow (the owner search needs every recorded split)"
                                  % (canon(x)[:70], why), where(x), cfg=cfg)
            # (3) whole-list assignment / swap through the pointer
            if k == "CXXOperatorCallExpr" and db.callee(x)[0] == "operator=":
                a0 = _u(kids(x)[1]) if len(kids(x)) > 1 else {}
                if a0.get("kind") == "UnaryOperator" and a0.get("opcode") == "*" and _u(kids(a0)[0]).get("name") == "splits":
                    n += 1
                    chk.instance(rule, {"function": f.qual, "assign": canon(x)[:60], "cfg": cfg}, ok=False)
                    chk.violation(rule, f.qual, "assign|" + canon(x)[:50], "`%s` overwrites a whole splits list: whatever the destination had recorded is lost to the "
                                  "owner search (append instead)" % canon(x)[:80], where(x), cfg=cfg)
            if k == "CallExpr" and db.callee(x)[0] in ("swap", "iter_swap") and "splits" in canon(x):
                n += 1
                chk.instance(rule, {"function": f.qual, "swap": canon(x)[:60], "cfg": cfg}, ok=False)
                chk.violation(rule, f.qual, "swap|" + canon(x)[:50], "`%s` exchanges splits lists" % canon(x)[:80], where(x), cfg=cfg)
    if n < 10:
        raise AnalysisBroken("SPLITS.append-only: only %d accesses to OutRec::splits recognised" % n)
    return n


# ---------------------------------------------------------------------------
# OUTPUT.reset: results are not appended to what the caller's container already held
# ---------------------------------------------------------------------------

class _OutState(Client):
    """state: frozenset of output parameters that have certainly been reset on this path."""

    def __init__(self, eng, f, params):
        self.eng, self.f, self.params = eng, f, params
        self.appended_unreset = {}          # param -> first node
        self.reset_somewhere = set()

    def join(self, a, b):
        return a & b

    def _param_of(self, e):
        """The output parameter an expression denotes: p, *p, &p, p-> ..."""
        e = _u(e)
        while e.get("kind") == "UnaryOperator" and e.get("opcode") in ("*", "&"):
            e = _u(kids(e)[0])
        if e.get("kind") == "DeclRefExpr":
            nm = e.get("referencedDecl", {}).get("name")
            if nm in self.params:
                return nm
        return None

    def _apply(self, node, st):
        db = self.eng.db
        for y in walk(node):
            k = y.get("kind")
            if k == "CXXMemberCallExpr":
                base = db.member_base(y)
                p = self._param_of(base) if base is not None else None
                if p:
                    m = db.callee(y)[0]
                    a = db.call_args(y)
                    if m in ("clear", "Clear") or (m == "resize" and a and canon(a[0]) == "0"):
                        st = st | {p}
                        self.reset_somewhere.add(p)
                    elif m in ("emplace_back", "push_back", "insert", "AddChild", "emplace"):
                        if p not in st:
                            self.appended_unreset.setdefault(p, y)
            if k in ("BinaryOperator", "CXXOperatorCallExpr"):
                l = None
                if k == "BinaryOperator" and y.get("opcode") == "=":
                    l = kids(y)[0]
                elif k == "CXXOperatorCallExpr" and len(kids(y)) == 3 and _u(kids(y)[0]).get("referencedDecl", {}).get("name") == "operator=":
                    l = kids(y)[1]
                if l is not None:
                    p = self._param_of(l)
                    # only an assignment to the object itself (not to a pointer parameter variable) resets it
                    if p and (_u(l).get("kind") != "DeclRefExpr" or not self.params[p]):
                        st = st | {p}
                        self.reset_somewhere.add(p)
            if k in ("CallExpr", "CXXMemberCallExpr"):
                g = db.callee_func(y)
                if g is None or g.body is None or g.id == self.f.id:
                    continue
                for q, a in zip(g.params, db.call_args(y)):
                    p = self._param_of(a)
                    if not p or not q.get("name"):
                        continue
                    kind = self.eng.summary(g, q.get("name"))
                    if kind == "append":
                        if p not in st:
                            self.appended_unreset.setdefault(p, y)
                    elif kind == "reset":
                        st = st | {p}
                        self.reset_somewhere.add(p)
        return st

    def stmt(self, node, st):
        return self._apply(node, st)

    def cond_atom(self, e, st):
        s = self._apply(e, st)
        e0 = _u(e)
        # `if (p)` on a pointer output: where p is null there is no container to add to - nothing can accumulate on that branch
        if e0.get("kind") == "DeclRefExpr" and self.params.get(e0.get("referencedDecl", {}).get("name")):
            return s, s | {e0["referencedDecl"]["name"]}
        c0 = canon(e0)
        for p, is_ptr in self.params.items():
            if is_ptr and c0 in ("(%s != nullptr)" % p, "(nullptr != %s)" % p):
                return s, s | {p}
            if is_ptr and c0 in ("(%s == nullptr)" % p, "(nullptr == %s)" % p):
                return s | {p}, s
        return s, s


class OutputReset:
    """summary(f, param) in {'append' (may add to the container before resetting it), 'reset' (resets it; adds only afterwards), 'none'}."""

    CONTAINER = ("Paths<", "Paths64", "PathsD", "PolyPath", "PolyTree", "vector<vector")

    def __init__(self, db):
        self.db = db
        self._memo = {}

    def is_out_param(self, p):
        t = qt(p)
        d = dqt(p)
        if "const" in t.split("&")[0].split("*")[0]:
            return False
        return (t.rstrip().endswith("&") or t.rstrip().endswith("*")) and any(c in t or c in d for c in self.CONTAINER)

    def summary(self, f, pname):
        key = (f.id, pname)
        if key in self._memo:
            return self._memo[key]
        self._memo[key] = "none"           # recursion: optimistic
        pd = [p for p in f.params if p.get("name") == pname]
        if not pd or not self.is_out_param(pd[0]):
            return "none"
        is_ptr = qt(pd[0]).rstrip().endswith("*")
        cl = _OutState(self, f, {pname: is_ptr})
        Walker(cl).function(f.body, frozenset())
        if pname in cl.appended_unreset:
            r = "append"
        elif pname in cl.reset_somewhere:
            r = "reset"
        else:
            r = "none"
        self._memo[key] = r
        self._where = cl.appended_unreset.get(pname)
        return r


def rule_outputs_reset(db, chk, cfg, entries, rule="OUTPUT.reset", only=None):
    """Every result container an operation receives by reference is emptied before the operation adds to it (directly or in the
    function it hands the container to): what the caller's container held before the call must not appear in the result."""
    eng = OutputReset(db)
    n = 0
    for f in entries:
        for p in f.params:
            if not eng.is_out_param(p) or not p.get("name"):
                continue
            if only is not None and not only(f, p):
                continue
            kind = eng.summary(f, p.get("name"))
            # the container may also be filled through a member that is pointed at it (`solution = &paths64;` and the work is done
            # through `solution->`): then it must have been emptied before the first member function is called
            if kind != "append" and f.cls:
                alias = None
                for x in walk(f.body):
                    if x.get("kind") == "BinaryOperator" and x.get("opcode") == "=":
                        l, r = _u(kids(x)[0]), _u(kids(x)[1])
                        if l.get("kind") == "MemberExpr" and r.get("kind") == "UnaryOperator" and r.get("opcode") == "&" and canon(kids(r)[0]) == p.get("name"):
                            alias = l.get("name")
                if alias:
                    fills = any(y.get("kind") == "CXXMemberCallExpr" and db.callee(y)[0] in ("emplace_back", "push_back", "insert") and
                                canon(db.member_base(y)).replace("(", "").replace(")", "").replace("*", "") in (alias, "this->" + alias)
                                for g in db.funcs if g.cls == f.cls and g.body is not None and not g.is_pattern for y in walk(g.body))
                    # ... or by handing `*alias` to a function that fills it (the clean-up union writes into *solution_tree): the paths of the
                    # member function that return before that call leave the caller's container as it was
                    fills = fills or any(y.get("kind") in ("CallExpr", "CXXMemberCallExpr") and
                                         any(_u(a).get("kind") == "UnaryOperator" and _u(a).get("opcode") == "*" and
                                             canon(kids(_u(a))[0]).replace("(", "").replace(")", "") in (alias, "this->" + alias) for a in kids(y)[1:])
                                         for g in db.funcs if g.cls == f.cls and g.body is not None and not g.is_pattern for y in walk(g.body))
                    if fills:
                        reset_seen = False
                        for s0 in kids(f.body):
                            if not isinstance(s0, dict):
                                continue
                            if any(y.get("kind") == "CXXMemberCallExpr" and db.callee(y)[0] in ("clear", "Clear", "resize") and canon(db.member_base(y)) == p.get("name")
                                   for y in walk(s0)):
                                reset_seen = True
                            calls_member = [y for y in walk(s0) if y.get("kind") == "CXXMemberCallExpr" and db.callee_func(y) is not None and db.callee_func(y).cls == f.cls
                                            and _u(db.member_base(y) or {}).get("kind") in ("CXXThisExpr", None)]
                            if calls_member and not reset_seen:
                                kind = "append"
                                n += 1
                                chk.instance(rule, {"function": f.qual, "sig": f.sig[:70], "output": p.get("name"), "summary": "filled through this->%s, not emptied first" % alias, "cfg": cfg}, ok=False)
                                chk.violation(rule, f.qual, "%s|%s|alias" % (f.sig[:40], p.get("name")), "%s points `%s` at its output `%s` and the work (`%s`) appends through that pointer, "
                                              "but `%s` has not been emptied before: whatever the caller's container held before the call is offset result too"
                                              % (f.qual, alias, p.get("name"), canon(calls_member[0])[:40], p.get("name")), where(calls_member[0]), cfg=cfg)
                                break
                            if calls_member:
                                break
                if kind == "append":
                    continue
            n += 1
            ok = kind != "append"
            chk.instance(rule, {"function": f.qual, "sig": f.sig[:70], "output": p.get("name"), "summary": kind, "cfg": cfg}, ok=ok)
            if not ok:
                cl = _OutState(eng, f, {p.get("name"): qt(p).rstrip().endswith("*")})
                Walker(cl).function(f.body, frozenset())
                at = cl.appended_unreset.get(p.get("name"))
                chk.violation(rule, f.qual, "%s|%s" % (f.sig[:40], p.get("name")), "%s can add to its output `%s` (at `%s`) on a path on which the container has not been "
                              "emptied: whatever the caller's container held before the call stays in the result" % (f.qual, p.get("name"), canon(at)[:70] if at else "?"),
                              where(at) if at else f.where, cfg=cfg)
    return n


# ---------------------------------------------------------------------------
# ITER.stable: no container is grown or shrunk while a range-for / iterator loop walks it
# ---------------------------------------------------------------------------

def rule_iter_stable(db, chk, cfg, e2eng_factory, rule="ITER.stable"):
    """A range-for (or an iterator loop) over a member container keeps iterators into it for the whole loop; if the body - through any
    callee - can append to, erase from or reassign that container, the iterators dangle (reallocation): undefined behaviour.  Loops
    that index the container afresh in every iteration are the safe idiom and are not concerned.  The may-modify sets come from
    the E2 summaries (interprocedural)."""
    GROW = ("emplace_back", "push_back", "insert", "erase", "clear", "resize", "reserve", "pop_back", "assign", "emplace", "swap")
    n = 0
    for cls in (["ClipperBase", "Clipper64"], ["ClipperBase", "ClipperD"], ["ClipperOffset"], ["RectClip64", "RectClipLines64"]):
        eng = e2eng_factory(cls)
        for f in db.funcs:
            if f.body is None or f.is_pattern or f.cls not in cls:
                continue
            for lp in walk(f.body):
                member = None
                if lp.get("kind") == "CXXForRangeStmt":
                    for s0 in kids(lp)[:-2]:
                        if s0 and s0.get("kind") == "DeclStmt":
                            for d in kids(s0):
                                if d.get("kind") == "VarDecl" and d.get("name", "").startswith("__range"):
                                    init = [c for c in kids(d) if isinstance(c, dict) and c.get("kind")]
                                    e = _u(init[-1]) if init else {}
                                    while e.get("kind") == "UnaryOperator" and e.get("opcode") == "*":
                                        e = _u(kids(e)[0])
                                    if e.get("kind") == "MemberExpr" and (not kids(e) or _u(kids(e)[0]).get("kind") == "CXXThisExpr") and e.get("name") in eng.fields:
                                        member = e.get("name")
                elif lp.get("kind") == "ForStmt":
                    hdr = " ".join(canon(z) for z in kids(lp)[:-1] if isinstance(z, dict) and z.get("kind"))
                    m = re.search(r"(?<![\w.>])(\w+_)\.(?:c?begin|c?end)\(\)", hdr)
                    if m and m.group(1) in eng.fields:
                        member = m.group(1)
                if member is None:
                    continue
                body = kids(lp)[-1]
                # direct modifications and modifications through callees
                mods = []
                for y in walk(body):
                    if y.get("kind") == "CXXMemberCallExpr":
                        base = db.member_base(y)
                        if base is not None and canon(base) == member and db.callee(y)[0] in GROW:
                            mods.append(y)
                    if y.get("kind") in ("CallExpr", "CXXMemberCallExpr"):
                        g = db.callee_func(y)
                        if g is not None and g.body is not None and g.cls in cls + [None]:
                            try:
                                s = eng.summary(g, {}, {}, True)
                            except AnalysisBroken:
                                continue
                            if member in s.may_def or member in s.may_dirty:
                                mods.append(y)
                n += 1
                ok = not mods
                chk.instance(rule, {"function": f.qual, "loop_over": member, "at": where(lp), "cfg": cfg}, ok=ok)
                if not ok:
                    chk.violation(rule, f.qual, "%s|%s" % (member, canon(mods[0])[:40]), "the loop at %s iterates over `%s` with iterators while `%s` in its body can modify "
                                  "that container (reallocation invalidates the loop's iterators: use-after-free); index the container afresh in every "
                                  "iteration instead" % (where(lp), member, canon(mods[0])[:60]), where(mods[0]), cfg=cfg)
    return n


def rule_bound_live(db, chk, cfg, e2eng_factory, rule="LOOP.bound-live"):
    """An index loop `for (i = 0; i < M.size(); ++i) .. M[i] ..` over a member container whose body - through any callee - can append to
    M visits the elements appended on the way only if the bound is read afresh in every iteration.  (The output builders rely on it:
    CleanCollinear can split a ring and append the new OutRec to outrec_list_ while the solution is being built.)  Every such loop:
    the condition itself mentions M.size(), not a value cached before the loop.  May-modify sets from the E2 summaries."""
    GROW = ("emplace_back", "push_back", "insert", "resize", "emplace")
    n = 0
    for cls in (["ClipperBase", "Clipper64"], ["ClipperBase", "ClipperD"]):
        eng = e2eng_factory(cls)
        for f in db.funcs:
            if f.body is None or f.is_pattern or f.cls not in cls:
                continue
            for lp in walk(f.body):
                if lp.get("kind") not in ("ForStmt", "WhileStmt", "DoStmt"):
                    continue
                ks = kids(lp)
                body = ks[-1]
                if lp.get("kind") == "ForStmt":
                    cond = ks[2] if len(ks) >= 4 else None
                elif lp.get("kind") == "DoStmt":
                    body = ks[0]
                    cond = ks[-1]
                else:
                    cs = [c0 for c0 in ks[:-1] if isinstance(c0, dict) and c0.get("kind")]
                    cond = cs[-1] if cs else None
                if not isinstance(cond, dict) or not cond.get("kind"):
                    continue
                # the member indexed with the loop's counter
                member = None
                idx = None
                for y in walk(body):
                    if y.get("kind") == "CXXOperatorCallExpr" and db.callee(y)[0] == "operator[]" and len(kids(y)) == 3:
                        b = _u(kids(y)[1])
                        # the index expression reads a local that the loop condition reads too (i, i++, i - 1 ...)
                        ivars = [z["referencedDecl"].get("name") for z in walk(kids(y)[2]) if z.get("kind") == "DeclRefExpr" and
                                 z.get("referencedDecl", {}).get("kind") == "VarDecl"]
                        ivars = [v for v in ivars if v and re.search(r"(?<![\w])%s(?![\w])" % re.escape(v), canon(cond))]
                        if b.get("kind") == "MemberExpr" and (not kids(b) or _u(kids(b)[0]).get("kind") == "CXXThisExpr") and b.get("name") in eng.fields and ivars:
                            member, idx = b.get("name"), ivars[0]
                            break
                if member is None:
                    continue
                mods = []
                for y in walk(body):
                    if y.get("kind") == "CXXMemberCallExpr":
                        base = db.member_base(y)
                        if base is not None and canon(base) == member and db.callee(y)[0] in GROW:
                            mods.append(y)
                    if y.get("kind") in ("CallExpr", "CXXMemberCallExpr"):
                        g = db.callee_func(y)
                        if g is not None and g.body is not None and g.cls in cls + [None]:
                            try:
                                sm = eng.summary(g, {}, {}, True)
                            except AnalysisBroken:
                                continue
                            if member in sm.may_def or member in sm.may_dirty:
                                mods.append(y)
                if not mods:
                    continue
                n += 1
                live = ("%s.size()" % member) in canon(cond)
                chk.instance(rule, {"function": f.qual, "loop_over": member, "condition": canon(cond)[:50], "body_may_grow_it_through": canon(mods[0])[:40], "cfg": cfg}, ok=live)
                if not live:
                    chk.violation(rule, f.qual, "%s|%s" % (member, idx), "the loop at %s indexes `%s[%s]` under the condition `%s`, which does not read %s.size() afresh, "
                                  "while `%s` in its body can append to that container: the elements appended during the loop (rings split off "
                                  "while the solution is built) are never visited" % (where(lp), member, idx, canon(cond)[:50], member, canon(mods[0])[:50]), where(lp), cfg=cfg)
    return n


class _OwnerPaths(Client):
    """Disjunctive state: set of (hot, tree, written).  hot: what is known about the edge GetPrevHotEdge returned ('?', 'none', 'some');
    tree: what is known about using_polytree_ ('?', True, False); written: the ring's owner has been assigned on this path."""

    def __init__(self, db, f):
        self.db, self.f = db, f
        self.var = None              # decl id of the local holding GetPrevHotEdge's result
        self.bad = []

    def join(self, a, b):
        return a | b

    def _one(self, node, x):
        hot, tree, written = x
        for y in walk(node):
            if y.get("kind") == "VarDecl":
                init = [c for c in kids(y) if isinstance(c, dict) and c.get("kind")]
                if init and any(z.get("kind") == "CallExpr" and self.db.callee(z)[0] == "GetPrevHotEdge" for z in walk(init[-1])):
                    self.var = y.get("id")
                    hot = "?"
            if y.get("kind") in ("CallExpr", "CXXMemberCallExpr") and self.db.callee(y)[0] == "SetOwner":
                written = True
            if y.get("kind") == "BinaryOperator" and y.get("opcode") == "=":
                l = _u(kids(y)[0])
                if l.get("kind") == "MemberExpr" and l.get("name") == "owner":
                    written = True
        return (hot, tree, written)

    def stmt(self, node, st):
        return frozenset(self._one(node, x) for x in st)

    def cond_atom(self, e, st):
        e0 = _u(e)
        T, F = set(), set()
        for x in st:
            hot, tree, written = self._one(e, x)
            t = f = (hot, tree, written)
            if e0.get("kind") == "DeclRefExpr" and self.var is not None and e0.get("referencedDecl", {}).get("id") == self.var:
                t, f = ("some", tree, written), ("none", tree, written)
            elif e0.get("kind") == "MemberExpr" and e0.get("name") == "using_polytree_":
                t, f = (hot, True, written), (hot, False, written)
            T.add(t)
            F.add(f)
        return frozenset(T), frozenset(F)

    def _end(self, st, node):
        for hot, tree, written in st:
            if self.var is not None and hot == "none" and tree is not False and not written:
                self.bad.append(node)

    def on_return(self, node, st):
        self._end(st, node)

    def on_exit(self, st):
        self._end(st, None)


def rule_owner_assigned(db, chk, cfg, rule="OWNER.assigned"):
    """Where the engine looks for the nearest hot edge to the left of a ring (GetPrevHotEdge) to record a tentative owner for the tree,
    both outcomes assign the owner: SetOwner(ring, that edge's ring) when there is one, `owner = nullptr` when there is none - a ring
    closed with nothing on its left is a top-level candidate, and the owner it was given at its local minimum must not survive.  Path
    analysis of every function that calls GetPrevHotEdge: no path with 'no hot edge' and tree output possible ends without an owner
    assignment."""
    n = 0
    for f in db.funcs:
        if f.is_pattern or f.body is None or f.cls != "ClipperBase":
            continue
        if not any(y.get("kind") == "CallExpr" and db.callee(y)[0] == "GetPrevHotEdge" for y in walk(f.body)):
            continue
        cl = _OwnerPaths(db, f)
        Walker(cl).function(f.body, frozenset([("?", "?", False)]))
        n += 1
        ok = not cl.bad
        chk.instance(rule, {"function": f.qual, "obligation": "no path with GetPrevHotEdge() == null (tree output possible) ends without assigning the ring's owner", "cfg": cfg}, ok=ok)
        if not ok:
            chk.violation(rule, f.qual, "owner", "%s: on the path where GetPrevHotEdge finds no hot edge (and tree output may be requested) the ring's owner is not assigned - "
                          "it keeps whatever owner it was given before, and RecursiveCheckOwners may accept that stale owner" % f.qual,
                          where(cl.bad[0]) if cl.bad[0] is not None else f.where, cfg=cfg)
    if n < 2:
        raise AnalysisBroken("OWNER.assigned: only %d functions calling GetPrevHotEdge found" % n)
    return n


# ---------------------------------------------------------------------------
# OPEN.flag: the builders are told the truth about open / closed (C05, C03)
# ---------------------------------------------------------------------------

class _OpenBranch(Client):
    """state: 'open' / 'closed' / '?' - what is known about outrec->is_open on this path."""

    def __init__(self, db):
        self.db = db
        self.sites = []

    def join(self, a, b):
        return a if a == b else "?"

    def stmt(self, node, st):
        for x in walk(node):
            if x.get("kind") in ("CallExpr", "CXXMemberCallExpr") and self.db.callee(x)[0] in BUILDERS:
                a = self.db.call_args(x)
                if len(a) >= 3:
                    self.sites.append((x, st, canon(a[2])))
        return st

    def cond_atom(self, e, st):
        e0 = _u(e)
        c0 = canon(e0)
        if c0.endswith("->is_open") or c0.endswith(".is_open"):
            return "open", "closed"
        for x in walk(e):
            if x.get("kind") in ("CallExpr", "CXXMemberCallExpr") and self.db.callee(x)[0] in BUILDERS:
                a = self.db.call_args(x)
                if len(a) >= 3:
                    self.sites.append((x, st, canon(a[2])))
        return st, st


def rule_open_flag(db, chk, cfg, rule="OPEN.flag"):
    """In the four output builders (BuildPaths64/D, BuildTree64/D) every BuildPath64 / BuildPathD call made where `outrec->is_open` is known
    to hold passes isOpen = true, and every call made where it is known not to hold passes false: an open piece built as closed loses
    its two-point pieces and is closed up; a closed ring built as open skips the degenerate-ring guard."""
    n = 0
    for q in ("Clipper64::BuildPaths64", "Clipper64::BuildTree64", "ClipperD::BuildPathsD", "ClipperD::BuildTreeD"):
        f = db.one(q)
        cl = _OpenBranch(db)
        Walker(cl).function(f.body, "?")
        seen = set()
        for x, st, arg in cl.sites:
            key = (x.get("line"), x.get("col"), st)
            if key in seen or st == "?":
                continue
            seen.add(key)
            want = "true" if st == "open" else "false"
            n += 1
            ok = arg == want
            chk.instance(rule, {"function": f.qual, "call": canon(x)[:70], "branch": st, "isOpen_argument": arg, "cfg": cfg}, ok=ok)
            if not ok:
                chk.violation(rule, f.qual, "%s|%s" % (st, arg), "in the %s-path branch of %s the builder is called with isOpen = %s: `%s`" % (st, f.qual, arg, canon(x)[:80]),
                              where(x), cfg=cfg)
        # a builder that takes the open solution through a pointer sends open records down the closed branch when the pointer is null
        # (`if (solutionOpen && outrec->is_open) ... else <closed>`): sound only while every caller hands it the address of an object
        unguarded = [(x, arg) for x, st, arg in cl.sites if st == "?" and arg == "false"]
        ptr_params = [i for i, p0 in enumerate(f.params) if (qt(p0) or "").rstrip().endswith("*")]
        if ptr_params and unguarded:
            for g in db.funcs:
                if g.is_pattern or g.body is None:
                    continue
                for c in walk(g.body):
                    if c.get("kind") not in ("CallExpr", "CXXMemberCallExpr") or db.callee_func(c) is None or db.callee_func(c).id != f.id:
                        continue
                    for i in ptr_params:
                        a = db.call_args(c)
                        if i >= len(a):
                            continue
                        a0 = _u(a[i])
                        nonnull = a0.get("kind") == "UnaryOperator" and a0.get("opcode") == "&"
                        n += 1
                        chk.instance(rule, {"function": g.qual, "call": canon(c)[:70], "open_solution_argument": canon(a0)[:30], "non_null": nonnull, "cfg": cfg}, ok=nonnull)
                        if not nonnull:
                            chk.violation(rule, g.qual, "%s|%s" % (f.name, canon(a0)[:20]),
                                          "`%s` passes `%s` (not the address of an object) as the open solution of %s; with a null pointer %s "
                                          "sends open output records down its closed branch (%s: `%s`), so open pieces are closed up and added to the "
                                          "closed solution" % (canon(c)[:70], canon(a0)[:30], f.name, f.name, where(unguarded[0][0]), canon(unguarded[0][0])[:60]),
                                          where(c), cfg=cfg)
    if n < 4:
        raise AnalysisBroken("OPEN.flag: only %d builder calls found under a test of outrec->is_open" % n)
    return n


# ---------------------------------------------------------------------------
# FLAG.sticky: "some open path has been added" is only ever switched on (C05)
# ---------------------------------------------------------------------------

def rule_sticky_open_flag(db, chk, cfg, rule="FLAG.sticky", flag="has_open_paths_"):
    """has_open_paths_ gates the open-path logic of the sweep (IntersectEdges) and of the builders.  It means 'at least one open path has
    been added since the last Clear()': every write outside Clear() / the member initialiser stores the literal `true`; only Clear()
    stores `false`.  A write of a computed value (`flag = this_path_is_open`) lets a later closed path switch the open-path logic off
    while open edges are in the sweep."""
    n = 0
    for f in db.funcs:
        if f.is_pattern or f.body is None or f.cls not in ("ClipperBase", "Clipper64", "ClipperD"):
            continue
        for x in walk(f.body):
            if x.get("kind") != "BinaryOperator" or x.get("opcode") != "=":
                continue
            l = _u(kids(x)[0])
            if not (l.get("kind") == "MemberExpr" and l.get("name") == flag and (not kids(l) or _u(kids(l)[0]).get("kind") == "CXXThisExpr")):
                continue
            r = canon(kids(x)[1])
            n += 1
            # `flag = flag || X` (either order) can only switch the flag on as well
            r0 = _u(kids(x)[1])
            monotone = r0.get("kind") == "BinaryOperator" and r0.get("opcode") == "||" and any(
                _u(z).get("kind") == "MemberExpr" and _u(z).get("name") == flag for z in kids(r0))
            ok = r == "true" or monotone or (r == "false" and f.name in ("Clear", "ClipperBase"))
            chk.instance(rule, {"function": f.qual, "write": canon(x)[:50], "cfg": cfg}, ok=ok)
            if not ok:
                chk.violation(rule, f.qual, "%s|%s" % (flag, r[:30]), "%s: `%s` - the flag means 'an open path has been added since the last Clear()' and may only be "
                              "switched on here; storing %s lets a later closed path switch the open-path logic off" % (f.qual, canon(x)[:60], "false" if r == "false" else "a computed value"),
                              where(x), cfg=cfg)
    if n < 3:
        raise AnalysisBroken("FLAG.sticky: only %d writes of %s found" % (n, flag))
    return n


# ---------------------------------------------------------------------------
# TRIM.closed-only: horizontal trimming never touches an open path (C05)
# ---------------------------------------------------------------------------

def rule_trim_closed_only(db, chk, cfg, rule="TRIM.closed-only"):
    """TrimHorz removes vertices from a horizontal run (collinear vertices, 180-degree spikes).  On a closed path that does not change the
    region; on an open path every vertex is part of the line, and a doubled-back stretch is length that must be reported.  Every call
    of TrimHorz(E, ..) is dominated by a condition under which IsOpen(E) is false (the conditions are interpreted with IsOpen(E)
    answered `true`: the call must then be unreachable)."""
    from ..evalx import Interp, Unsupported
    n = 0
    for f in db.funcs:
        if f.is_pattern or f.body is None or f.cls != "ClipperBase":
            continue
        par = {}
        for x in walk(f.body):
            for c in kids(x):
                if isinstance(c, dict):
                    par[id(c)] = x
        for c in walk(f.body):
            if c.get("kind") not in ("CallExpr", "CXXMemberCallExpr") or db.callee(c)[0] != "TrimHorz":
                continue
            arg = canon(db.call_args(c)[0])
            n += 1
            unreachable_for_open = False
            p = par.get(id(c))
            child = c
            while p is not None and not unreachable_for_open:
                if p.get("kind") == "IfStmt":
                    cond, then, els = if_parts(p)
                    in_then = any(y is child or y is c for y in walk(then))

                    def hook(name, argv, nd):
                        if name == "IsOpen" and canon(db.call_args(nd)[0]) == arg:
                            return True
                        return NotImplemented
                    try:
                        v = bool(Interp(db, {}, call_hook=hook).ev(cond))
                        if v != in_then:
                            unreachable_for_open = True
                    except Unsupported:
                        pass
                child, p = p, par.get(id(p))
            chk.instance(rule, {"function": f.qual, "call": canon(c)[:50], "unreachable_when_open": unreachable_for_open, "cfg": cfg}, ok=unreachable_for_open)
            if not unreachable_for_open:
                chk.violation(rule, f.qual, "TrimHorz|%s" % arg, "`%s` in %s can be reached with IsOpen(%s): trimming removes vertices of an open path (a doubled-back horizontal "
                              "stretch disappears from the open solution)" % (canon(c)[:50], f.qual, arg), where(c), cfg=cfg)
    if n < 1:
        raise AnalysisBroken("TRIM.closed-only: no call of TrimHorz found")
    return n


# ---------------------------------------------------------------------------
# OWNER.reparent: SetOwner keeps the forest a forest and never loses the nesting of the ring it re-attaches (C04)
# ---------------------------------------------------------------------------

def rule_owner_reparent(db, chk, cfg, rule="OWNER.reparent"):
    """SetOwner(outrec, new_owner) is the one place where the tentative ownership forest is re-linked.  It is executed on every
    forest over four records (owner of each: none or one of the others, acyclic; the two bystanders dead or alive) with
    outrec = A, new_owner = B, and the resulting heap must satisfy: A's owner is B; the forest is still acyclic; no bystander was
    re-linked; and B's live ancestors are what they were - or, when B hung below A (the link would close a cycle), what A's were:
    the merged ring stays nested in whatever contained it.  RecursiveCheckOwners only ever climbs these links, so a ring cut loose
    here is reported as a top-level polygon in the tree while the paths output is unaffected."""
    from ..evalx import Interp, Unsupported, _Return, Ref
    import itertools
    f = db.one("SetOwner")
    if len(f.params) != 2:
        raise AnalysisBroken("%s: SetOwner(outrec, new_owner) expected" % rule)
    p_out, p_new = f.params[0]["name"], f.params[1]["name"]
    nodes = ["A", "B", "C", "D"]
    n = bad = 0
    first = None

    def chain(own, x):
        out = []
        seen = set()
        y = own[x]
        while y is not None:
            if y in seen:
                return None
            seen.add(y)
            out.append(y)
            y = own[y]
        return out

    for owners in itertools.product(*[[None] + [m for m in nodes if m != x] for x in nodes]):
        own = dict(zip(nodes, owners))
        if any(chain(own, x) is None for x in nodes):
            continue
        for live in itertools.product((True, False), repeat=2):
            pts = {"A": True, "B": True, "C": live[0], "D": live[1]}
            env = {p_out: Ref("A"), p_new: Ref("B")}
            for x in nodes:
                env[x + ".owner"] = Ref(own[x]) if own[x] else None
                env[x + ".pts"] = Ref("pts_" + x) if pts[x] else None
                env["pts_" + x + ".x"] = 0
            it = Interp(db, env, [])
            it.concrete_loops = True
            it.heap = True
            try:
                it.exec(f.body)
            except _Return:
                pass
            except Unsupported as e:
                raise AnalysisBroken("%s: cannot interpret SetOwner: %s" % (rule, e))
            n += 1
            after = {}
            for x in nodes:
                v = it.env.get(x + ".owner")
                after[x] = v.name if isinstance(v, Ref) else None
            why = None
            if after["A"] != "B":
                why = "outrec's owner is %s, not new_owner" % after["A"]
            elif any(chain(after, x) is None for x in nodes):
                why = "the owner links form a cycle"
            elif any(after[x] != own[x] for x in ("C", "D")):
                why = "a record that is neither outrec nor new_owner was re-linked"
            else:
                livef = lambda lst: [y for y in lst if pts[y]]
                before_b = chain(own, "B")
                want = livef(chain(own, "A")) if "A" in before_b else livef(before_b)
                got = livef([y for y in chain(after, "B")])
                if got != want:
                    why = ("new_owner's live ancestors become %s; %s they must be %s" % (got or "none (top level)",
                           "it hung below outrec, so" if "A" in before_b else "it did not hang below outrec, so", want or "none"))
            if why:
                bad += 1
                if first is None:
                    first = (dict(own), dict(pts), why)
    chk.instance(rule, {"function": f.qual, "heaps": n, "wrong": bad, "cfg": cfg}, ok=not bad)
    if bad:
        own, pts, why = first
        chk.violation(rule, f.qual, "heap", "SetOwner(A, B) breaks the ownership forest on %d of %d heaps, e.g. owners %s (%s dead): %s - in tree output the ring is "
                      "reported at the wrong level (the paths output does not use these links)"
                      % (bad, n, ", ".join("%s->%s" % (k, v or "none") for k, v in own.items()), ", ".join(k for k, v in pts.items() if not v) or "none", why), f.where, cfg=cfg)
    if n < 100:
        raise AnalysisBroken("%s: only %d heaps enumerated" % (rule, n))
    return n


# ---------------------------------------------------------------------------
# SPLIT.recorded: a ring split off in tree mode is entered in a splits list (C04)
# ---------------------------------------------------------------------------

def rule_split_recorded(db, chk, cfg, rule="SPLIT.recorded"):
    """DoSplitOp and ProcessHorzJoins cut one ring into two (NewOutRec).  In tree mode the two records are tied together through a
    `splits` list - the only way RecursiveCheckOwners can later find out that a ring whose tentative owner is one of them really lies
    in the other.  On every path from the NewOutRec() call on which using_polytree_ can be true, a `...->splits->emplace_back(..)`
    follows before the iteration / function ends (forward may-analysis over the structured CFG)."""
    n = 0
    for f in db.funcs:
        if f.is_pattern or f.body is None or f.cls not in ("ClipperBase", "Clipper64", "ClipperD"):
            continue
        news = [x for x in walk(f.body) if x.get("kind") in ("CallExpr", "CXXMemberCallExpr") and db.callee(x)[0] == "NewOutRec"]
        links = [x for x in walk(f.body) if x.get("kind") == "CXXMemberCallExpr" and db.callee(x)[0] in ("emplace_back", "push_back") and
                 "splits" in canon(db.member_base(x) or {})]
        if not news or not links:
            continue

        class C(Client):
            def __init__(self):
                self.bad = []

            def join(self, a, b):
                return a or b

            def stmt(self, node, st):
                for y in walk(node):
                    if any(y is l for l in links):
                        st = False
                    elif any(y is m for m in news):
                        st = True
                return st

            def cond_atom(self, expr, st):
                st = self.stmt(expr, st)
                e = strip(expr)
                if e.get("kind") == "MemberExpr" and e.get("name") == "using_polytree_":
                    return st, False
                return st, st

            def on_return(self, node, st):
                if st:
                    self.bad.append(node)

            def on_exit(self, st):
                if st:
                    self.bad.append(None)
        cl = C()
        Walker(cl).function(f.body, False)
        n += 1
        chk.instance(rule, {"function": f.qual, "NewOutRec_sites": len(news), "splits_links": len(links), "cfg": cfg}, ok=not cl.bad)
        if cl.bad:
            at = cl.bad[0]
            chk.violation(rule, f.qual, "splits", "%s can finish%s with a ring split off in tree mode (NewOutRec) that was entered in no `splits` list: a ring created later "
                          "inside it keeps the other half as its owner and is reported at the wrong level of the tree" % (f.qual, (" at %s" % where(at)) if at is not None else ""),
                          where(at) if at is not None else f.where, cfg=cfg)
    if n < 2:
        raise AnalysisBroken("%s: fewer than 2 ring-splitting functions found (configuration %s)" % (rule, cfg))
    return n
