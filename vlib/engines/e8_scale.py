"""E8 - scale plumbing of the floating-point API: a dimensional analysis (C16, C17).

One base unit S (the scale factor).  Caller-side (double) lengths have
dimension S^0; everything handed to the integer engine must be S^1; the value
returned to the caller must be S^0 again.  pow(10, precision) introduces S^1,
1/scale is S^-1, the scaling helpers add the dimension of their scale argument.
The checker infers the dimension of every local of each wrapper (functions that
compute a scale from the precision) and of ClipperD's scaling members, and
requires the right dimension at every integer-API argument and at every return.
"""
import re

from ..astq import walk, kids, strip, qt, dqt, where, canon
from ..extract import AnalysisBroken

SCALERS = {"ScalePaths": (0, 1), "ScalePath": (0, 1), "ScaleRect": (0, 1), "ConvertCPathsDToPaths64": (0, 1),
           "ConvertCPathDToPath64WithScale": (0, 1), "CreateCPathsDFromPaths64": (0, 1)}
IDENTITY = {"ConvertCPathsToPathsT", "ConvertCPathToPathT", "CRectToRect", "CreateCPathsFromPathsT", "CreateCPathsDFromPathsD",
            "Union", "move", "forward", "PathsD", "PathD", "Paths64", "Path64"}
# integer-API sinks: callee -> {param name: required dimension}
LENGTH_SINKS = {
    "ClipperOffset::ClipperOffset": {"arc_tolerance": 1},
    "ClipperOffset::Execute": {"delta": 1},
    "ClipperOffset::AddPaths": {"paths": 1},
    "ClipperOffset::AddPath": {"path": 1},
    "RectClip64::RectClip64": {"rect": 1},
    "RectClipLines64::RectClipLines64": {"rect": 1},
    "RectClip64::Execute": {"paths": 1},
    "RectClipLines64::Execute": {"paths": 1},
    "TrimCollinear": {"p": 1},
    "detail::Minkowski": {"pattern": 1, "path": 1},
    "ClipperBase::AddPaths": {"paths": 1},
}
D_GEOM = re.compile(r'(PathsD|PathD\b|RectD|CPathsD|CPathD|CRectD|Paths<double>|Path<double>|Rect<double>|CRect<double>|double \*)')
I_GEOM = re.compile(r'(Paths64|Path64\b|Rect64|Point64|Paths<long>|Path<long>|Rect<long>|Point<long>|Paths<int64_t>|Path<int64_t>)')
LEN_NAMES = {"delta", "arc_tolerance"}


class Dim:
    """Dimension analysis of one function body."""

    def __init__(self, db, f, chk, cfg, rule):
        self.db, self.f, self.chk, self.cfg, self.rule = db, f, chk, cfg, rule
        self.env = {}
        self.problems = []
        self.sinks = 0
        for p in f.params:
            t = qt(p)
            if D_GEOM.search(t) or (t.replace("const ", "") == "double" and p.get("name") in LEN_NAMES):
                self.env[p["id"]] = 0
            else:
                self.env[p["id"]] = None

    def dim(self, e):
        e = strip(e)
        k = e.get("kind")
        ks = kids(e)
        if k in ("IntegerLiteral", "FloatingLiteral", "CXXBoolLiteralExpr"):
            return None
        if k == "DeclRefExpr":
            return self.env.get(e.get("referencedDecl", {}).get("id"))
        if k == "MemberExpr":
            nm = e.get("name")
            if nm in ("scale_",):
                return self.member_dims.get(nm, None) if hasattr(self, "member_dims") else None
            if nm in ("invScale_",):
                return self.member_dims.get(nm, None) if hasattr(self, "member_dims") else None
            return self.dim(ks[0]) if ks else None
        if k == "BinaryOperator":
            op = e.get("opcode")
            a, b = self.dim(ks[0]), self.dim(ks[1])
            if op == "*":
                return None if a is None and b is None else (a or 0) + (b or 0)
            if op == "/":
                return None if a is None and b is None else (a or 0) - (b or 0)
            if op in ("+", "-"):
                if a is not None and b is not None and a != b:
                    self.problems.append(("sum of quantities of dimension S^%d and S^%d: %s" % (a, b, canon(e)[:60]), e))
                return a if a is not None else b
            return None
        if k == "UnaryOperator":
            return self.dim(ks[0])
        if k in ("CXXStaticCastExpr", "CStyleCastExpr", "CXXFunctionalCastExpr"):
            return self.dim(ks[0]) if ks else None
        if k == "ConditionalOperator":
            a, b = self.dim(ks[1]), self.dim(ks[2])
            return a if a is not None else b
        if k in ("CallExpr", "CXXMemberCallExpr", "CXXConstructExpr", "CXXTemporaryObjectExpr", "CXXOperatorCallExpr"):
            return self.call(e)
        if k == "InitListExpr":
            ds = [self.dim(x) for x in ks]
            ds = [d for d in ds if d is not None]
            return ds[0] if ds else None
        if k == "CXXStdInitializerListExpr":
            return self.dim(ks[0]) if ks else None
        return None

    def _callee_qual(self, c):
        from .e5_errors import _callee_func
        g = _callee_func(self.db, c)
        name = self.db.callee(c)[0] or ""
        if c.get("kind") in ("CXXConstructExpr", "CXXTemporaryObjectExpr"):
            t = dqt(c).replace("Clipper2Lib::", "")
            return g, t + "::" + t.split("::")[-1], t
        return g, (g.qual if g is not None else name), name

    def call(self, c):
        db = self.db
        g, qual, name = self._callee_qual(c)
        args = db.call_args(c)
        # elements and iterators of a container have the container's dimension
        if c.get("kind") == "CXXMemberCallExpr" and name in ("begin", "end", "cbegin", "cend", "front", "back", "at", "data"):
            mb = db.member_base(c)
            if mb is not None:
                return self.dim(mb)
        if c.get("kind") == "CXXOperatorCallExpr" and (db.callee(c)[0] or "") in ("operator*", "operator[]", "operator->", "operator++", "operator--") and len(kids(c)) >= 2 \
                and not (len(kids(c)) == 3 and (db.callee(c)[0] or "") == "operator*"):
            return self.dim(kids(c)[1])
        if c.get("kind") == "CXXOperatorCallExpr":
            args = kids(c)[1:]
            if len(args) == 2 and (db.callee(c)[0] or "").endswith("="):
                d = self.dim(args[1])
                l = strip(args[0])
                if l.get("kind") == "DeclRefExpr":
                    self.env[l["referencedDecl"]["id"]] = d
                return d
            if (db.callee(c)[0] or "") == "operator*" and len(args) == 2:
                a, b = self.dim(args[0]), self.dim(args[1])
                return None if a is None and b is None else (a or 0) + (b or 0)
        if name == "pow" and len(args) == 2 and canon(args[0]) in ("10", "10.0"):
            return 1
        if name in ("log10",):
            return None
        if name in SCALERS:
            xi, si = SCALERS[name]
            a = self.dim(args[xi]) if len(args) > xi else None
            s = self.dim(args[si]) if len(args) > si else None
            return (a or 0) + (s or 0)
        # sinks of the integer API
        sink = LENGTH_SINKS.get(qual)
        if sink is None and g is not None:
            sink = LENGTH_SINKS.get(g.qual)
        ret = None
        if sink and g is not None:
            for i, a in enumerate(args):
                if i >= len(g.params):
                    break
                pn = g.params[i].get("name")
                if pn in sink:
                    self.sinks += 1
                    d = self.dim(a)
                    a0 = strip(a)
                    literal = a0.get("kind") in ("IntegerLiteral", "FloatingLiteral", "CXXDefaultArgExpr")
                    if d != sink[pn] and not (d is None and literal):
                        self.problems.append((
                            "argument '%s' of %s must be in scaled integer units (S^%d) but %s has dimension %s"
                            % (pn, qual, sink[pn], canon(a)[:50], "S^%d" % d if d is not None else "none (unscaled number)"), c))
            # out-parameters / results of the integer engine are in scaled units
            if qual == "ClipperOffset::Execute" and len(args) >= 2:
                o = strip(args[1])
                if o.get("kind") == "DeclRefExpr":
                    self.env[o["referencedDecl"]["id"]] = 1
            if qual.endswith("::Execute") or qual in ("TrimCollinear", "detail::Minkowski"):
                ret = 1
        else:
            for a in args:
                self.dim(a)
        if g is not None and not sink and ret is None and name not in IDENTITY and g.name not in IDENTITY:
            # the integer API is homogeneous in length: integer geometry in, integer geometry of the same dimension out; what a wrapper
            # hands to any of its functions must be in scaled units
            gd = []
            for i, a in enumerate(args):
                if i < len(g.params) and I_GEOM.search(qt(g.params[i]) or ""):
                    d = self.dim(a)
                    gd.append(d)
                    if d is not None and d != 1:
                        self.problems.append(("argument '%s' of %s must be in scaled integer units (S^1) but %s has dimension S^%d"
                                              % (g.params[i].get("name"), qual, canon(a)[:50], d), c))
            if gd and I_GEOM.search(g.sig.split("(")[0]):
                known = [d for d in gd if d is not None]
                ret = (1 if 1 in known else known[0]) if known else None
        if name in IDENTITY or (g is not None and g.name in IDENTITY):
            ds = [self.dim(a) for a in args]
            ds = [d for d in ds if d is not None]
            return ds[0] if ds else None
        if c.get("kind") in ("CXXConstructExpr", "CXXTemporaryObjectExpr") and len(args) == 1:
            return self.dim(args[0])
        return ret

    def run(self):
        f = self.f
        ret_t = f.sig.split("(")[0]
        self.problems = []
        self.sinks = 0

        def stmt(s):
            if not s:
                return
            k = s.get("kind")
            if k == "CompoundStmt":
                for x in kids(s):
                    stmt(x)
            elif k == "DeclStmt":
                for d in kids(s):
                    if d.get("kind") == "VarDecl" and "id" in d:
                        init = [c for c in kids(d) if c.get("kind")]
                        self.env[d["id"]] = self.dim(init[-1]) if init else None
            elif k == "IfStmt":
                from ..astq import if_parts
                cond, then, els = if_parts(s)
                self.dim(cond)
                em = _empty_params(cond)
                self.known_empty = getattr(self, "known_empty", frozenset()) | em
                stmt(then)
                self.known_empty = self.known_empty - em
                stmt(els)
            elif k in ("ForStmt", "WhileStmt", "DoStmt", "CXXForRangeStmt", "SwitchStmt"):
                for x in kids(s):
                    if x and x.get("kind") in ("CompoundStmt", "DeclStmt", "IfStmt", "ReturnStmt"):
                        stmt(x)
            elif k == "ReturnStmt":
                if kids(s) and D_GEOM.search(ret_t):
                    rv = kids(s)[0]
                    d = self.dim(rv)
                    r0 = strip(rv)
                    empty = r0.get("kind") in ("CXXTemporaryObjectExpr", "CXXConstructExpr", "CXXNullPtrLiteralExpr") and not kids(r0)
                    if d not in (0, None) and not empty:
                        self.problems.append(("returns a value of dimension S^%d to the caller (must be de-scaled, S^0): %s"
                                              % (d, canon(rv)[:60]), s))
                    # the result of a D wrapper lies on the integer grid divided by the scale: handing the caller's own doubles back
                    # (a parameter returned as it came in) skips the rounding to the precision and whatever the integer operation drops
                    r1 = r0
                    while r1.get("kind") in ("CXXConstructExpr",) and len(kids(r1)) == 1:
                        r1 = strip(kids(r1)[0])
                    if r1.get("kind") == "DeclRefExpr" and r1.get("referencedDecl", {}).get("kind") == "ParmVarDecl" and \
                            D_GEOM.search(qt(r1) or "") and r1["referencedDecl"].get("id") not in getattr(self, "known_empty", ()):
                        self.problems.append(("returns its argument '%s' unchanged: the result of the floating-point API is the integer operation's "
                                              "result on the scaled and rounded input, divided by the scale - the caller's doubles have not been through the "
                                              "integer grid" % r1["referencedDecl"].get("name"), s))
            else:
                s0 = strip(s)
                if s0.get("kind") == "BinaryOperator" and s0.get("opcode") == "=":
                    d = self.dim(kids(s0)[1])
                    l = strip(kids(s0)[0])
                    if l.get("kind") == "DeclRefExpr":
                        self.env[l["referencedDecl"]["id"]] = d
                else:
                    self.dim(s)

        stmt(f.body)
        return self.problems


def _empty_params(cond):
    """Parameters a condition establishes to be empty containers when it holds: p.empty(), !p.size(), p.size() == 0,
    and conjunctions/disjunctions of one parameter's tests (an empty path list has nothing to round)."""
    c = strip(cond)
    k = c.get("kind")

    def recv(call, names):
        ks = kids(call)
        if call.get("kind") != "CXXMemberCallExpr" or len(ks) != 1:
            return None
        m = strip(ks[0])
        if m.get("kind") != "MemberExpr" or m.get("name") not in names:
            return None
        o = strip(kids(m)[0])
        if o.get("kind") == "DeclRefExpr" and o.get("referencedDecl", {}).get("kind") == "ParmVarDecl":
            return o["referencedDecl"].get("id")
        return None

    r = recv(c, ("empty",))
    if r:
        return frozenset([r])
    if k == "UnaryOperator" and c.get("opcode") == "!":
        r = recv(strip(kids(c)[0]), ("size",))
        return frozenset([r]) if r else frozenset()
    if k == "BinaryOperator" and c.get("opcode") == "==":
        a, b = (strip(x) for x in kids(c))
        for x, y in ((a, b), (b, a)):
            if y.get("kind") == "IntegerLiteral" and y.get("value") == "0":
                r = recv(x, ("size",))
                if r:
                    return frozenset([r])
        return frozenset()
    if k == "BinaryOperator" and c.get("opcode") == "&&":
        a, b = kids(c)
        return _empty_params(a) | _empty_params(b)
    return frozenset()


def wrappers(db):
    """Concrete functions that derive a scale from a precision with pow(10, .)."""
    out = []
    for f in db.funcs:
        if f.is_pattern:
            continue
        for x in walk(f.body):
            if x.get("kind") == "VarDecl":
                init = [c for c in kids(x) if c.get("kind")]
                if init:
                    i0 = strip(init[-1])
                    if i0.get("kind") == "CallExpr" and db.callee(i0)[0] == "pow" and canon(db.call_args(i0)[0]) in ("10", "10.0") \
                            and "ClipperD" not in (f.cls or ""):
                        out.append(f)
                        break
    return out


def rule_wrappers(db, chk, cfg, rule="SCALE.wrapper", only=None):
    ws = wrappers(db)
    n = 0
    for f in ws:
        if only and not only(f):
            continue
        d = Dim(db, f, chk, cfg, rule)
        probs = d.run()
        n += 1
        chk.instance(rule, {"function": f.qual, "sig": f.sig[:70], "length_sinks_checked": d.sinks, "cfg": cfg}, ok=not probs)
        seen = set()
        for msg, node in probs:
            key = re.sub(r'\s+', ' ', msg)[:60]
            if key in seen:
                continue
            seen.add(key)
            m = re.search(r"argument '(\w+)'", msg)
            chk.violation(rule, f.qual, m.group(1) if m else ("return" if "returns" in msg else "expr"), msg, where(node), cfg=cfg)
    return n


def rule_clipperd(db, chk, cfg, rule="SCALE.ClipperD"):
    """ClipperD: scale_ is derived from the precision, invScale_ = 1/scale_, inputs are multiplied by scale_,
    outputs by invScale_."""
    n = 0

    def inst(desc, ok, f, key, msg):
        chk.instance(rule, {"obligation": desc, "cfg": cfg}, ok=ok)
        if not ok:
            chk.violation(rule, f.qual, key, msg, f.where, cfg=cfg)

    ctor = [f for f in db.funcs if f.cls == "ClipperD" and f.kind == "CXXConstructorDecl"]
    if len(ctor) != 1:
        raise AnalysisBroken("ClipperD constructor not found")
    ctor = ctor[0]
    txt = canon(ctor.body)
    p = ctor.params[0].get("name")
    # scale_ depends on the precision (through locals if need be); its value is decided by SCALE.ClipperD-table
    deps = {}
    for x in walk(ctor.body):
        if x.get("kind") == "VarDecl" and x.get("name"):
            deps[x["name"]] = {y.get("referencedDecl", {}).get("name") for y in walk(x) if y.get("kind") == "DeclRefExpr"}
    reach = set()
    for x in walk(ctor.body):
        if x.get("kind") == "BinaryOperator" and x.get("opcode") == "=" and canon(kids(x)[0]) == "scale_":
            todo = [y.get("referencedDecl", {}).get("name") for y in walk(kids(x)[1]) if y.get("kind") == "DeclRefExpr"]
            while todo:
                nm = todo.pop()
                if nm in reach:
                    continue
                reach.add(nm)
                todo.extend(deps.get(nm, ()))
    inst("scale_ derives from the precision", p in reach, ctor, "scale_",
         "ClipperD's scale_ no longer depends on the precision argument: " + txt[:120])
    inst("invScale_ = 1 / scale_", "(invScale_ = (1 / scale_))" in txt, ctor, "invScale_",
         "ClipperD's invScale_ is not 1 / scale_: " + txt[:160])
    n += 2
    for m in ("AddSubject", "AddOpenSubject", "AddClip"):
        f = db.one("ClipperD::" + m)
        calls = [c for c in walk(f.body) if c.get("kind") == "CallExpr" and db.callee(c)[0] == "ScalePaths"]
        ok = len(calls) == 1 and canon(db.call_args(calls[0])[1]) == "scale_" and "<long>" in dqt(calls[0])
        inst("%s scales its input by scale_ into int64" % m, ok, f, "scale_", "ClipperD::%s does not scale its input by scale_: %s" % (m, canon(f.body)[:120]))
        n += 1
    for m in ("BuildPathsD", "BuildTreeD"):
        f = db.one("ClipperD::" + m)
        calls = [c for c in walk(f.body) if c.get("kind") == "CallExpr" and db.callee(c)[0] == "BuildPathD"]
        ok = bool(calls) and all(canon(db.call_args(c)[4]) == "invScale_" for c in calls)
        inst("%s de-scales with invScale_" % m, ok, f, "invScale_", "ClipperD::%s does not pass invScale_ to BuildPathD" % m)
        n += 1
    bp = db.one("BuildPathD")
    sp = bp.params[4].get("name")
    emps = [c for c in walk(bp.body) if c.get("kind") == "CXXMemberCallExpr" and db.callee(c)[0] == "emplace_back"]
    ok = bool(emps)
    for c in emps:
        a = db.call_args(c)
        if len(a) < 2 or not (re.match(r'^\(\(?(\w+)\)?\.x \* \(?%s\)?\)$' % sp, canon(a[0])) and re.match(r'^\(\(?(\w+)\)?\.y \* \(?%s\)?\)$' % sp, canon(a[1]))):
            ok = False
    inst("BuildPathD multiplies x and y of every emitted vertex by inv_scale", ok, bp, "inv_scale",
         "BuildPathD no longer emits (x * inv_scale, y * inv_scale) for every vertex")
    n += 1
    for f in db.find("ClipperD::Execute"):
        if "PolyPathD" in f.sig and len(f.params) == 4:
            ok = "polytree.SetScale(invScale_)" in canon(f.body)
            inst("Execute(PolyTreeD) sets the tree's scale to invScale_", ok, f, "SetScale", "ClipperD::Execute(PolyTreeD&) does not call polytree.SetScale(invScale_)")
            n += 1
    for f in db.funcs:
        if f.cls == "PolyPathD" and f.kind == "CXXConstructorDecl" and len(f.params) == 2 and "Path64" in qt(f.params[1]):
            txt = canon(f.body)
            ok = "ScalePath(path, scale_, error_code)" in txt and "(scale_ = (parent ? parent->scale_ : 1" in txt
            inst("PolyPathD(parent, Path64) de-scales with the parent's scale", ok, f, "scale_", "PolyPathD's Path64 constructor does not de-scale with the inherited scale: " + txt[:140])
            n += 1
    return n


def rule_rounding(db, chk, cfg, rule="ROUND"):
    """double -> int64 coordinate conversion goes through std::round (Point<T>::Init and ScaleRect), and nothing
    in the scaling layer converts with a bare cast."""
    n = 0
    inits = [f for f in db.funcs if f.qual == "Point<long>::Init" and f.params and qt(f.params[0]).replace("const ", "") == "double"]
    if not inits:
        raise AnalysisBroken("instantiation Point<int64_t>::Init<double> not found")
    targets = inits + [f for f in db.find("ScaleRect") if "Rect<long>" in f.sig.split("(")[0]]
    for f in targets:
        casts = [x for x in walk(f.body) if x.get("kind") in ("CXXStaticCastExpr", "CStyleCastExpr", "ImplicitCastExpr", "CXXFunctionalCastExpr")
                 and x.get("castKind") == "FloatingToIntegral"]
        okc = bool(casts)
        for c in casts:
            inner = strip(kids(c)[0])
            if not (inner.get("kind") == "CallExpr" and db.callee(inner)[0] in ("round", "nearbyint", "lround", "llround", "rint")):
                okc = False
        n += 1
        chk.instance(rule, {"function": f.qual, "sig": f.sig[:60], "float_to_int_conversions": len(casts), "cfg": cfg}, ok=okc)
        if not okc:
            chk.violation(rule, f.qual, f.sig.split("(")[0].strip(), "a double -> int64 coordinate conversion is not wrapped in std::round: "
                          "scaled coordinates would be truncated instead of rounded to nearest", f.where, cfg=cfg)
    # scaling helpers must not convert by themselves
    from .e5_errors import E5
    for f in db.funcs:
        if f.is_pattern or f in targets:
            continue
        if f.name in SCALERS or f.name in ("ZCB",):
            casts = [x for x in walk(f.body) if x.get("castKind") == "FloatingToIntegral" and dqt(x).replace("const ", "") in ("long", "long long", "int64_t")]
            n += 1
            ok = not casts
            chk.instance(rule, None, ok=ok)
            if not ok:
                chk.violation(rule, f.qual, "bare-cast", "scaling helper converts double to int64 with a bare cast (truncation) at %s" % where(casts[0]),
                              where(casts[0]), cfg=cfg)
    return n


def rule_clipperd_scale_table(db, chk, cfg, rule="SCALE.ClipperD-table"):
    """ClipperD's scale for every valid precision: the smallest power of two above 10^precision (finite domain, exhaustive).
    The constructor's arithmetic expression is interpreted from the AST with the C math functions it names."""
    import math
    from fractions import Fraction
    from ..evalx import Interp, Unsupported
    from .e5_errors import E5
    ctor = [f for f in db.funcs if f.cls == "ClipperD" and f.kind == "CXXConstructorDecl"][0]
    M = E5(db, chk, cfg).max_prec
    p = ctor.params[0]["name"]
    assign = None
    for s in kids(ctor.body):
        s0 = strip(s)
        if s0.get("kind") == "BinaryOperator" and s0.get("opcode") == "=" and canon(kids(s0)[0]) == "scale_":
            assign = kids(s0)[1]
    if assign is None:
        raise AnalysisBroken("assignment to scale_ not found in ClipperD's constructor")

    def hook(name, argv, node):
        if argv is None:
            return NotImplemented
        a = [float(x) if isinstance(x, (int, float)) else x for x in argv]
        try:
            if name == "pow":
                return math.pow(a[0], a[1])
            if name == "ilogb":
                return math.frexp(a[0])[1] - 1
            if name in ("exp2",):
                return math.pow(2.0, a[0])
            if name in ("log2",):
                return math.log2(a[0])
            if name in ("log10",):
                return math.log10(a[0])
            if name in ("log",):
                return math.log(a[0])
            if name in ("ceil",):
                return float(math.ceil(a[0]))
            if name in ("floor",):
                return float(math.floor(a[0]))
            if name in ("round",):
                return float(math.floor(a[0] + 0.5)) if a[0] >= 0 else -float(math.floor(-a[0] + 0.5))
            if name in ("ldexp", "scalbn"):
                return math.ldexp(a[0], int(a[1]))
        except (ValueError, OverflowError):
            return float("nan")
        return NotImplemented
    n = 0
    bad = []
    for prec in range(-M, M + 1):
        try:
            got = Interp(db, {p: prec, "radix": 2}, call_hook=hook).ev(assign)
        except Unsupported as e:
            raise AnalysisBroken("cannot interpret ClipperD's scale formula %s: %s" % (canon(assign)[:80], e))
        ten = Fraction(10) ** prec
        k = 0
        while Fraction(2) ** k <= ten:
            k += 1
        while Fraction(2) ** (k - 1) > ten:
            k -= 1
        want = float(Fraction(2) ** k)
        n += 1
        ok = (got == want)
        chk.instance(rule, {"precision": prec, "scale": got, "smallest_power_of_two_above_10^p": want, "cfg": cfg} if prec in (-M, 0, 2, M) else None, ok=ok)
        if not ok:
            bad.append((prec, got, want))
    for b in bad[:1]:
        chk.violation(rule, ctor.qual, "precision=%d" % b[0],
                      "ClipperD's scale for precision %d is %r; the documented scale is the smallest power of two above 10^precision = %r "
                      "(%d precision value(s) differ)" % (b[0], b[1], b[2], len(bad)), ctor.where, cfg=cfg)
    return n


# ---------------------------------------------------------------------------
# WRAP.no-passthrough: the boolean convenience functions return what the sweep produced
# ---------------------------------------------------------------------------

BOOLEAN_WRAPPERS = ("BooleanOp", "Intersect", "Union", "Difference", "Xor")


def rule_no_passthrough(db, chk, cfg, rule="WRAP.no-passthrough"):
    """Intersect / Union / Difference / Xor / BooleanOp (free functions, 64-bit and floating-point): every value they return is an empty
    result, a local filled by an Execute call, or the result of another such wrapper - never one of their own path parameters handed
    back as it came in (unless a dominating test established that it is empty).  The input of a boolean operation is not its result:
    the result is the region under the fill rule (overlaps resolved, orientation and start vertices normalised, duplicates removed)."""
    n = 0
    for f in db.funcs:
        if f.is_pattern or f.body is None or f.name not in BOOLEAN_WRAPPERS or f.cls or not f.file or not f.file.endswith("clipper.h"):
            continue
        ret_t = f.sig.split("(")[0]
        if not re.search(r'Paths|Path', ret_t):
            continue
        known_empty = [frozenset()]

        def stmt(s):
            nonlocal n
            if not isinstance(s, dict) or not s.get("kind"):
                return
            k = s.get("kind")
            if k == "CompoundStmt":
                for x in kids(s):
                    stmt(x)
            elif k == "IfStmt":
                from ..astq import if_parts
                cond, then, els = if_parts(s)
                em = _empty_params(cond)
                known_empty.append(known_empty[-1] | em)
                stmt(then)
                known_empty.pop()
                stmt(els)
            elif k in ("ForStmt", "WhileStmt", "DoStmt", "CXXForRangeStmt", "SwitchStmt"):
                for x in kids(s):
                    stmt(x)
            elif k == "ReturnStmt" and kids(s):
                r0 = strip(kids(s)[0])
                while r0.get("kind") in ("CXXConstructExpr",) and len(kids(r0)) == 1:
                    r0 = strip(kids(r0)[0])
                n += 1
                bad = r0.get("kind") == "DeclRefExpr" and r0.get("referencedDecl", {}).get("kind") == "ParmVarDecl" and \
                    r0["referencedDecl"].get("id") not in known_empty[-1]
                chk.instance(rule, {"function": f.qual, "sig": f.sig[:60], "returns": canon(r0)[:40], "cfg": cfg}, ok=not bad)
                if bad:
                    chk.violation(rule, f.qual, "%s|%s" % (f.sig[:40], r0["referencedDecl"].get("name")),
                                  "%s [%s] returns its parameter '%s' as the result: the caller gets the input as it came in (overlaps unresolved, orientation, start "
                                  "vertices and duplicates not normalised) instead of the region the fill rule defines" % (f.qual, f.sig[:50], r0["referencedDecl"].get("name")),
                                  where(s), cfg=cfg)
        stmt(f.body)
    if n < 8:
        raise AnalysisBroken("WRAP.no-passthrough: only %d returns of boolean wrappers found in configuration %s" % (n, cfg))
    return n


# ---------------------------------------------------------------------------
# PRECISION.forwarded: the precision a caller asks for is the precision used
# ---------------------------------------------------------------------------

PREC_NAMES = ("precision", "decimal_prec", "decimalPlaces", "decimal_places")


def rule_precision_forwarded(db, chk, cfg, rule="PRECISION.forwarded"):
    """Every library function with a precision parameter uses it for more than validation: it reaches pow(10, .), a ClipperD constructor, or
    the precision parameter of another function; and no ClipperD is default-constructed (precision 2) inside a function that was
    given a precision.  Otherwise the floating-point API silently works on another grid than the one asked for."""
    n = 0
    for f in db.funcs:
        if f.is_pattern or f.body is None or not f.file or not ("/clipper2/" in f.file or "/Clipper2Lib/src/" in f.file):
            continue
        pp = [p for p in f.params if p.get("name") in PREC_NAMES and (qt(p) or "").replace("const ", "").strip() in ("int", "int &")]
        if not pp or f.name == "CheckPrecisionRange":
            continue
        pid = pp[0].get("id")
        par = {}
        for x in walk(f.body):
            for c in kids(x):
                if isinstance(c, dict):
                    par[id(c)] = x
        # member initialisers of constructors count as body
        roots = [f.body] + list(getattr(f, "inits", []) or [])
        used = []
        for root in roots:
            for r in walk(root):
                if r.get("kind") != "DeclRefExpr" or r.get("referencedDecl", {}).get("id") != pid:
                    continue
                p = par.get(id(r))
                while p is not None and p.get("kind") in ("ImplicitCastExpr", "ParenExpr", "CXXStaticCastExpr", "CStyleCastExpr", "CXXFunctionalCastExpr", "UnaryOperator"):
                    p = par.get(id(p))
                if p is None:
                    used.append("expression")
                    continue
                k = p.get("kind")
                if k in ("CallExpr", "CXXMemberCallExpr"):
                    nm = db.callee(p)[0]
                    used.append("validation" if nm == "CheckPrecisionRange" else "call:%s" % nm)
                elif k in ("CXXConstructExpr", "CXXTemporaryObjectExpr"):
                    used.append("ctor:%s" % (dqt(p) or "").replace("Clipper2Lib::", ""))
                else:
                    used.append(k)
        real = [u for u in used if u != "validation"]
        n += 1
        ok = bool(real)
        chk.instance(rule, {"function": f.qual, "sig": f.sig[:60], "uses": sorted(set(used)), "cfg": cfg}, ok=ok)
        if not ok:
            chk.violation(rule, f.qual, "%s|unused" % f.sig[:40], "%s [%s]: the parameter '%s' is %s but never reaches a scale (pow(10, .)), a ClipperD or another "
                          "function's precision: the operation runs at another precision than the caller asked for" % (f.qual, f.sig[:50], pp[0].get("name"),
                                                                                                          "only validated" if used else "not used at all"), f.where, cfg=cfg)
        for c in walk(f.body):
            if c.get("kind") in ("CXXConstructExpr", "CXXTemporaryObjectExpr") and (dqt(c) or "").replace("Clipper2Lib::", "") == "ClipperD":
                args = [a for a in kids(c) if isinstance(a, dict) and a.get("kind") and a.get("kind") != "CXXDefaultArgExpr"]
                n += 1
                ok = bool(args)
                chk.instance(rule, {"function": f.qual, "ClipperD_constructed_with": canon(args[0])[:30] if args else "default precision", "cfg": cfg}, ok=ok)
                if not ok:
                    chk.violation(rule, f.qual, "%s|ClipperD()" % f.sig[:40], "%s [%s] constructs a ClipperD with the default precision although it was given '%s'"
                                  % (f.qual, f.sig[:50], pp[0].get("name")), where(c), cfg=cfg)
    if n < 10:
        raise AnalysisBroken("PRECISION.forwarded: only %d precision parameters / ClipperD constructions found in configuration %s" % (n, cfg))
    return n


# ---------------------------------------------------------------------------
# SCALE.total: the scaling primitives transform everything they are handed
# ---------------------------------------------------------------------------

def rule_scale_total(db, chk, cfg, rule="SCALE.total"):
    """ScalePath / ScalePaths (the four-argument forms every PathsD entry goes through) return the element-wise image of their
    input: on every path to a `return` the input has been run through the transform (a std::transform over it, or a loop over it
    that appends to the result) - except where an error has just been reported (DoError on that path) or the branch is taken only
    by short inputs (a pure size test).  A shortcut that returns early for some geometry ("the bounds are empty") silently hands
    the integer engine less than the caller supplied."""
    from ..flow import Walker, Client
    from ..evalx import Interp, Unsupported
    n = 0
    for q in ("ScalePath", "ScalePaths"):
        for f in db.find(q):
            if f.is_pattern or f.body is None or len(f.params) != 4:
                continue
            pname = f.params[0].get("name")

            class C(Client):
                def __init__(self):
                    self.bad = []

                def join(self, a, b):
                    return a and b

                def stmt(self, node, st):
                    if st:
                        return st
                    for y in walk(node):
                        k = y.get("kind")
                        if k == "CallExpr" and db.callee(y)[0] == "DoError":
                            return True
                        if k == "CallExpr" and db.callee(y)[0] == "transform" and any(canon(a).startswith(pname + ".") for a in db.call_args(y)[:2]):
                            return True
                    return st

                def cond_atom(self, expr, st):
                    ok_leaves = True
                    for y in walk(expr):
                        k = y.get("kind")
                        if k == "DeclRefExpr" and y.get("referencedDecl", {}).get("name") != pname:
                            ok_leaves = False
                        if k in ("CallExpr", "CXXOperatorCallExpr") or (k == "CXXMemberCallExpr" and db.callee(y)[0] not in ("size", "empty")):
                            ok_leaves = False
                        if k == "MemberExpr" and y.get("name") not in ("size", "empty"):
                            ok_leaves = False
                    if ok_leaves and any(y.get("kind") == "CXXMemberCallExpr" for y in walk(expr)):
                        def hook(name, argv, nd):
                            if name == "size":
                                return 1000
                            if name == "empty":
                                return False
                            return NotImplemented
                        try:
                            long_takes = bool(Interp(db, {}, [], call_hook=hook).ev(expr))
                            return (st, True) if long_takes else (True, st)
                        except Unsupported:
                            pass
                    s2 = self.stmt(expr, st)
                    return s2, s2

                def on_return(self, node, st):
                    if not st:
                        self.bad.append(node)

                def on_exit(self, st):
                    if st is not None and not st:
                        self.bad.append(None)

            cl = C()
            w = Walker(cl)
            # loops over the input that append to the result count as the transform
            body = f.body

            def loop_fills(lp, pname=pname):
                over_input = False
                if lp.get("kind") == "CXXForRangeStmt":
                    for y in walk(lp):
                        if y.get("kind") == "VarDecl" and y.get("name", "").startswith("__range"):
                            over_input = any(z.get("kind") == "DeclRefExpr" and z.get("referencedDecl", {}).get("name") == pname for z in walk(y))
                else:
                    hdr = [c for c in kids(lp)[:-1] if isinstance(c, dict)]
                    over_input = any(z.get("kind") == "DeclRefExpr" and z.get("referencedDecl", {}).get("name") == pname for h in hdr for z in walk(h))
                return over_input and any(y.get("kind") == "CXXMemberCallExpr" and db.callee(y)[0] in ("emplace_back", "push_back") for y in walk(lp))
            orig_stmt = cl.stmt

            def stmt2(node, st, orig=orig_stmt):
                return orig(node, st)
            cl.stmt = stmt2
            orig_loop = w._loop

            def _loop2(nn, st):
                out = orig_loop(nn, st)
                if out is not None and not out and loop_fills(nn):
                    return True
                return out
            w._loop = _loop2
            w.function(body, False)
            n += 1
            chk.instance(rule, {"function": f.qual, "sig": f.sig[:70], "cfg": cfg}, ok=not cl.bad)
            if cl.bad:
                at = cl.bad[0]
                chk.violation(rule, f.qual, f.sig.split("(")[0].strip()[-40:], "%s can return%s without having transformed its input and without having reported an error: the "
                              "caller's paths are silently dropped before the integer operation sees them" % (f.qual, (" at %s" % where(at)) if at is not None else ""),
                              where(at) if at is not None else f.where, cfg=cfg)
    if n < 4:
        raise AnalysisBroken("%s: only %d four-argument ScalePath / ScalePaths instantiations found (configuration %s)" % (rule, n, cfg))
    return n
