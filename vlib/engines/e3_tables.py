"""E3 - finite decision tables by abstract interpretation.

Each table: enumerate every cell of a finite partition of the inputs of one
pure decision function, evaluate the function's AST on the cell with the
interpreter of evalx.py (which logs every comparison so that uniformity of the
partition can be verified), and compare with an oracle written here from the
property's wording.  Only *reachable* cells are compared.
"""
import itertools
import re

from ..astq import walk, kids, strip, canon, qt, dqt, where, if_parts
from ..evalx import Interp, SymVal, Unsupported, Ref, _Return
from ..extract import AnalysisBroken

FILL = ["EvenOdd", "NonZero", "Positive", "Negative"]
CLIP = ["NoClip", "Intersection", "Union", "Difference", "Xor"]
PTYPE = ["Subject", "Clip"]


def enum_index(db, enum, name):
    vals = db.enum(enum)
    if name not in vals:
        raise AnalysisBroken("enumerator %s::%s vanished" % (enum, name))
    return vals.index(name)


class CrossAxis(AnalysisBroken):
    """A comparison between quantities of two different ordering groups (an x with a y bound): no table over orderings *within* each
    axis can be uniform for it - and in the tables that use two groups (point against rectangle) it is a bug by itself: the
    classification of a point by x must not depend on how its x compares with a y bound."""

    def __init__(self, a, b, line):
        AnalysisBroken.__init__(self, "comparison between two symbolic inputs %s and %s (line %s) is outside the partition" % (a, b, line))
        self.a, self.b, self.line = a, b, line


def check_uniform(log, bounds):
    """Every logged comparison must be uniform on every cell of the enumerated partition:
       * symbol vs. constant: the critical points of the comparison (see SymVal.crit) lie strictly inside the contiguous
         representative range (L, R) of the symbol, so the singleton cells L+1..R-1 and the two rays (-inf,L], [R,inf) are uniform;
       * symbol vs. symbol: both belong to one ordering group (cells are weak orderings) or both range over {-1,0,1};
       * symbols of a complete finite domain ('tri', 'finite*') need no argument."""
    for op, a, b, line in log:
        syms = [s for s in (a, b) if s[0] == "sym"]
        consts = [s for s in (a, b) if s[0] == "const"]
        if len(syms) == 2:
            ga, gb = syms[0][2], syms[1][2]
            if ga is not None and ga == gb and ga.startswith("order"):
                continue
            if ga == "tri" and gb == "tri":
                continue
            if ga is not None and gb is not None and ga.startswith("order") and gb.startswith("order"):
                raise CrossAxis(syms[0][1], syms[1][1], line)
            raise AnalysisBroken("comparison between two symbolic inputs %s and %s (line %s) is outside the partition"
                                 % (syms[0][1], syms[1][1], line))
        if not syms:
            continue
        _, sym, group, crits, form = syms[0]
        c = consts[0][1]
        if group == "tri" or (group or "").startswith("finite"):
            continue
        if (group or "").startswith("order"):
            raise AnalysisBroken("ordering symbol %s compared with constant %r (line %s)" % (sym, c, line))
        if sym not in bounds:
            raise AnalysisBroken("no partition declared for symbol %s" % sym)
        L, R = bounds[sym]
        for cc in crits:
            if not (L < cc < R):
                raise AnalysisBroken("comparison of %s(%s) with constant %r (line %s) has a critical point at %s, outside the singleton "
                                     "cells of the partition (%d..%d): the ray cells are not uniform for it" % (form, sym, c, line, cc, L, R))


def sgn(x):
    return (x > 0) - (x < 0)


def filled(rule, w):
    if rule == "EvenOdd":
        return w % 2 != 0
    if rule == "NonZero":
        return w != 0
    if rule == "Positive":
        return w > 0
    if rule == "Negative":
        return w < 0
    raise ValueError(rule)


def setop(ct, s, c):
    if ct == "Intersection":
        return s and c
    if ct == "Union":
        return s or c
    if ct == "Difference":
        return s and not c
    if ct == "Xor":
        return s != c
    if ct == "NoClip":
        return False
    raise ValueError(ct)


def oracle_closed(fill, ct, ptype, wc, wc2):
    """Does a closed-path edge with these counts lie on the boundary of the
    solution region?  From the definition: wc is the winding number (own path
    type) of the side of the edge farther from zero, the other side is one
    closer to zero; wc2 is the winding number of the other path type in the
    region containing the edge."""
    own_a = filled(fill, wc)
    own_b = filled(fill, wc - sgn(wc))
    m = filled(fill, wc2)
    if ptype == "Subject":
        ra, rb = setop(ct, own_a, m), setop(ct, own_b, m)
    else:
        ra, rb = setop(ct, m, own_a), setop(ct, m, own_b)
    return ra != rb


def reachable_closed(fill, wc, wc2):
    if fill == "EvenOdd":
        return wc in (1, -1) and wc2 in (0, 1)
    return wc != 0


REPS = [-3, -2, -1, 0, 1, 2, 3]
BOUNDS = (-3, 3)   # -3 and 3 stand for the rays (-inf,-3] and [3,inf); -2..2 are singleton cells


def table_closed(db, chk, cfg, rule="T.closed"):
    f = db.one("ClipperBase::IsContributingClosed")
    ncell = 0
    bad = []
    for fill in FILL:
        for ct in CLIP:
            for pt in PTYPE:
                for wc in REPS:
                    for wc2 in REPS:
                        log = []
                        env = {
                            "fillrule_": enum_index(db, "FillRule", fill),
                            "cliptype_": enum_index(db, "ClipType", ct),
                            "e.wind_cnt": SymVal(wc, "wind_cnt", log),
                            "e.wind_cnt2": SymVal(wc2, "wind_cnt2", log),
                            "e.local_min->polytype": enum_index(db, "PathType", pt),
                        }
                        it = Interp(db, env, log)
                        got = it.run_function(f)
                        check_uniform(log, {"wind_cnt": BOUNDS, "wind_cnt2": BOUNDS})
                        if not isinstance(got, bool):
                            raise AnalysisBroken("IsContributingClosed returned non-bool %r" % (got,))
                        if not reachable_closed(fill, wc, wc2):
                            continue
                        ncell += 1
                        want = oracle_closed(fill, ct, pt, wc, wc2)
                        cell = {"fill": fill, "clip": ct, "ptype": pt, "wind_cnt": wc, "wind_cnt2": wc2, "code": got, "oracle": want}
                        chk.instance(rule, cell if ncell % 97 == 1 else None, ok=(got == want))
                        if got != want:
                            bad.append(cell)
    for cell in bad[:1]:
        chk.violation(rule, f.qual, "%s/%s/%s/wc=%d/wc2=%d" % (cell["clip"], cell["fill"], cell["ptype"], cell["wind_cnt"], cell["wind_cnt2"]),
                      "closed-path contribution table deviates from the set-algebra definition on %d reachable cell(s); first: %s"
                      % (len(bad), cell), f.where, detail=bad[:20], cfg=cfg)
    return ncell


# ---------------------------------------------------------------------------
# open paths (C05)
# ---------------------------------------------------------------------------

def oracle_open(fill, ct, wc, wc2):
    in_subj = filled(fill, wc)
    in_clip = filled(fill, wc2)
    if ct == "Intersection":
        return in_clip
    if ct == "Union":
        return (not in_subj) and (not in_clip)
    return not in_clip          # Difference, Xor: the part outside the clip region


def reachable_open(fill, wc, wc2):
    if fill == "EvenOdd":
        return wc in (0, 1) and wc2 in (0, 1)
    return True


def table_open(db, chk, cfg, rule="T.open"):
    f = db.one("ClipperBase::IsContributingOpen")
    n = 0
    bad = []
    for fill in FILL:
        for ct in CLIP[1:]:
            for wc in REPS:
                for wc2 in REPS:
                    log = []
                    env = {"fillrule_": enum_index(db, "FillRule", fill), "cliptype_": enum_index(db, "ClipType", ct),
                           "e.wind_cnt": SymVal(wc, "wind_cnt", log), "e.wind_cnt2": SymVal(wc2, "wind_cnt2", log)}
                    got = Interp(db, env, log).run_function(f)
                    check_uniform(log, {"wind_cnt": BOUNDS, "wind_cnt2": BOUNDS})
                    if not reachable_open(fill, wc, wc2):
                        continue
                    n += 1
                    want = oracle_open(fill, ct, wc, wc2)
                    cell = {"fill": fill, "clip": ct, "wind_cnt": wc, "wind_cnt2": wc2, "code": got, "oracle": want}
                    chk.instance(rule, cell if n % 61 == 1 else None, ok=(got == want))
                    if got != want:
                        bad.append(cell)
    for cell in bad[:1]:
        chk.violation(rule, f.qual, "%s/%s/wc=%d/wc2=%d" % (cell["clip"], cell["fill"], cell["wind_cnt"], cell["wind_cnt2"]),
                      "open-path contribution table deviates from the definition (inside clip for Intersection; outside subject and clip "
                      "for Union; outside clip for Difference/Xor) on %d reachable cell(s); first: %s" % (len(bad), cell), f.where,
                      detail=bad[:20], cfg=cfg)
    return n


def own_boundary(fill, wc):
    return filled(fill, wc) != filled(fill, wc - sgn(wc))


def table_open_toggle(db, chk, cfg, rule="T.open-toggle"):
    """The open-path prefix of IntersectEdges: does an open edge crossing a closed edge toggle its contribution?"""
    from ..astq import if_parts
    f = db.one("ClipperBase::IntersectEdges")
    first = kids(f.body)[0]
    if first.get("kind") != "IfStmt" or "has_open_paths_" not in canon(if_parts(first)[0]):
        raise AnalysisBroken("IntersectEdges no longer starts with the open-path branch `if (has_open_paths_ && ...)`")
    cond, then, els = if_parts(first)
    stmts = kids(then)
    # the prefix ends where the contribution is toggled: the first statement that calls AddOutPt / StartOpenPath
    cut = None
    for i, s in enumerate(stmts):
        if any(x.get("kind") in ("CXXMemberCallExpr", "CallExpr") and db.callee(x)[0] in ("AddOutPt", "StartOpenPath") for x in walk(s)):
            cut = i
            break
    if cut is None:
        raise AnalysisBroken("toggle site (AddOutPt / StartOpenPath) not found in the open-path branch of IntersectEdges")
    prefix = stmts[:cut]
    n = 0
    bad = []
    for which in ("e1", "e2"):       # which of the two edges is the open one
        o, c = which, ("e2" if which == "e1" else "e1")
        for fill in FILL:
            for ct in CLIP[1:]:
                for pt in PTYPE:
                    for wc in REPS:
                        for hot in (False, True):
                            log = []
                            env = {
                                "has_open_paths_": True,
                                "fillrule_": enum_index(db, "FillRule", fill), "cliptype_": enum_index(db, "ClipType", ct),
                                o + ".local_min->is_open": True, c + ".local_min->is_open": False,
                                c + ".local_min->polytype": enum_index(db, "PathType", pt),
                                o + ".local_min->polytype": enum_index(db, "PathType", "Subject"),
                                c + ".wind_cnt": SymVal(wc, "wind_cnt", log),
                                c + ".outrec": (1 if hot else None),
                                c + ".join_with": enum_index(db, "JoinWith", "NoJoin"),
                                o + ".join_with": enum_index(db, "JoinWith", "NoJoin"),
                            }
                            it = Interp(db, env, log)
                            try:
                                if not it._truth(it.ev(cond), cond):
                                    raise AnalysisBroken("open-path branch condition is false for an open/closed pair")
                                toggled = True
                                from ..evalx import _Return
                                try:
                                    for s in prefix:
                                        it.exec(s)
                                except _Return:
                                    toggled = False
                            except Unsupported as e:
                                raise AnalysisBroken("cannot interpret the open-path prefix of IntersectEdges: %s" % e)
                            check_uniform(log, {"wind_cnt": BOUNDS})
                            # reachability: wind_cnt != 0 (EvenOdd: +-1); a hot closed edge is an own-boundary
                            if wc == 0 or (fill == "EvenOdd" and wc not in (1, -1)):
                                continue
                            if hot and not own_boundary(fill, wc):
                                continue
                            n += 1
                            if ct == "Union":
                                want = hot
                            else:
                                want = (pt == "Clip") and own_boundary(fill, wc)
                            cell = {"open_edge": o, "fill": fill, "clip": ct, "closed_edge_type": pt, "wind_cnt": wc, "hot": hot,
                                    "code_toggles": toggled, "oracle": want}
                            chk.instance(rule, cell if n % 83 == 1 else None, ok=(toggled == want))
                            if toggled != want:
                                bad.append(cell)
    for cell in bad[:1]:
        chk.violation(rule, f.qual, "%s/%s/%s/wc=%d/hot=%s" % (cell["clip"], cell["fill"], cell["closed_edge_type"], cell["wind_cnt"], cell["hot"]),
                      "the open-path toggle condition deviates from the definition (non-Union: the closed edge is a clip edge bounding the "
                      "clip-filled region; Union: it is on the closed solution's boundary) on %d reachable cell(s); first: %s" % (len(bad), cell),
                      f.where, detail=bad[:20], cfg=cfg)
    return n


# ---------------------------------------------------------------------------
# symmetries of the closed table (C13)
# ---------------------------------------------------------------------------

def _closed_value(db, f, fill, ct, pt, wc, wc2):
    log = []
    env = {"fillrule_": enum_index(db, "FillRule", fill), "cliptype_": enum_index(db, "ClipType", ct),
           "e.wind_cnt": SymVal(wc, "wind_cnt", log), "e.wind_cnt2": SymVal(wc2, "wind_cnt2", log),
           "e.local_min->polytype": enum_index(db, "PathType", pt)}
    v = Interp(db, env, log).run_function(f)
    check_uniform(log, {"wind_cnt": BOUNDS, "wind_cnt2": BOUNDS})
    return v


def table_symmetry(db, chk, cfg, rule="T.symmetry"):
    f = db.one("ClipperBase::IsContributingClosed")
    n = 0
    bad = []
    mirror = {"Positive": "Negative", "Negative": "Positive", "EvenOdd": "EvenOdd", "NonZero": "NonZero"}
    for fill in FILL:
        for ct in CLIP[1:]:
            for pt in PTYPE:
                for wc in REPS:
                    for wc2 in REPS:
                        if not reachable_closed(fill, wc, wc2):
                            continue
                        v = _closed_value(db, f, fill, ct, pt, wc, wc2)
                        # (a) reversing every path negates all winding numbers: Positive <-> Negative, EvenOdd/NonZero unchanged
                        if fill != "EvenOdd":
                            v2 = _closed_value(db, f, mirror[fill], ct, pt, -wc, -wc2)
                            n += 1
                            ok = (v == v2)
                            chk.instance(rule, {"symmetry": "reversal", "fill": fill, "clip": ct, "ptype": pt, "wc": wc, "wc2": wc2}
                                         if n % 151 == 1 else None, ok=ok)
                            if not ok:
                                bad.append(("reversal", fill, ct, pt, wc, wc2, v, v2))
                        # (b) swapping subject and clip leaves Intersection, Union and Xor unchanged
                        if ct != "Difference":
                            other = "Clip" if pt == "Subject" else "Subject"
                            v3 = _closed_value(db, f, fill, ct, other, wc, wc2)
                            n += 1
                            ok = (v == v3)
                            chk.instance(rule, None, ok=ok)
                            if not ok:
                                bad.append(("swap", fill, ct, pt, wc, wc2, v, v3))
    for b in bad[:1]:
        chk.violation(rule, f.qual, "%s/%s/%s/%s/wc=%d/wc2=%d" % b[:6],
                      "contribution table is not symmetric under %s (%d cells); first: fill=%s clip=%s type=%s wc=%d wc2=%d gives %s vs %s"
                      % ((b[0], len(bad)) + b[1:]), f.where, cfg=cfg)
    return n


# ---------------------------------------------------------------------------
# comparators: strict weak orders (C13 determinism, C10 UB-freedom of std::sort)
# ---------------------------------------------------------------------------

def _strict_weak(elems, less, name):
    """Returns a description of the first violated axiom, or None."""
    for a in elems:
        if less(a, a):
            return "irreflexivity fails for %s" % (a,)
    for a in elems:
        for b in elems:
            if less(a, b) and less(b, a):
                return "asymmetry fails for %s, %s" % (a, b)
    for a in elems:
        for b in elems:
            for c in elems:
                if less(a, b) and less(b, c) and not less(a, c):
                    return "transitivity fails for %s < %s < %s" % (a, b, c)
                ab = (not less(a, b)) and (not less(b, a))
                bc = (not less(b, c)) and (not less(c, b))
                if ab and bc and (less(a, c) or less(c, a)):
                    return "incomparability is not transitive for %s ~ %s ~ %s" % (a, b, c)
    return None


def comparators(db, chk, cfg, rule="T.comparator"):
    n = 0
    dom = [(y, x) for y in (0, 1, 2) for x in (0, 1, 2)]
    specs = []
    # LocMinSorter::operator()(locMin1, locMin2): keys vertex->pt.y, vertex->pt.x
    f = db.one("LocMinSorter::operator()")
    p1, p2 = f.params[0]["name"], f.params[1]["name"]

    def less_lm(a, b, f=f, p1=p1, p2=p2):
        log = []
        env = {p1 + "->vertex->pt.y": SymVal(a[0], "y1", log, group="order-y"), p1 + "->vertex->pt.x": SymVal(a[1], "x1", log, group="order-x"),
               p2 + "->vertex->pt.y": SymVal(b[0], "y2", log, group="order-y"), p2 + "->vertex->pt.x": SymVal(b[1], "x2", log, group="order-x")}
        r = Interp(db, env, log).run_function(f)
        check_uniform(log, {})
        return bool(r)
    specs.append(("LocMinSorter", f, dom, less_lm))
    # IntersectListSort(a, b): keys pt.y, pt.x
    f2 = db.one("IntersectListSort")
    q1, q2 = f2.params[0]["name"], f2.params[1]["name"]

    def less_il(a, b, f=f2, p1=q1, p2=q2):
        log = []
        env = {p1 + ".pt.y": SymVal(a[0], "y1", log, group="order-y"), p1 + ".pt.x": SymVal(a[1], "x1", log, group="order-x"),
               p2 + ".pt.y": SymVal(b[0], "y2", log, group="order-y"), p2 + ".pt.x": SymVal(b[1], "x2", log, group="order-x")}
        r = Interp(db, env, log).run_function(f)
        check_uniform(log, {})
        return bool(r)
    specs.append(("IntersectListSort", f2, dom, less_il))
    # HorzSegSorter::operator()(hs1, hs2): keys right_op (null?), left_op->pt.x
    f3 = db.one("HorzSegSorter::operator()")
    h1, h2 = f3.params[0]["name"], f3.params[1]["name"]
    dom3 = [(r, x) for r in (None, 1) for x in (0, 1, 2)]

    def less_hs(a, b, f=f3, p1=h1, p2=h2):
        log = []
        env = {p1 + ".right_op": a[0], p2 + ".right_op": b[0],
               p1 + ".left_op->pt.x": SymVal(a[1], "x1", log, group="order-x"), p2 + ".left_op->pt.x": SymVal(b[1], "x2", log, group="order-x")}
        r = Interp(db, env, log).run_function(f)
        check_uniform(log, {})
        return bool(r)
    specs.append(("HorzSegSorter", f3, dom3, less_hs))
    for name, fn, d, less in specs:
        try:
            err = _strict_weak(d, less, name)
        except Unsupported as e:
            raise AnalysisBroken("cannot interpret comparator %s: %s" % (name, e))
        n += len(d) ** 3
        chk.instance(rule, {"comparator": name, "elements": len(d), "triples_checked": len(d) ** 3, "cfg": cfg}, n=len(d) ** 3, ok=err is None)
        if err:
            chk.violation(rule, fn.qual, name, "comparator handed to std::sort / std::stable_sort is not a strict weak ordering: %s "
                          "(undefined behaviour in the sort, and an order that depends on the input permutation)" % err, fn.where, cfg=cfg)
    return n


# ---------------------------------------------------------------------------
# rectangle predicates behind RectClip's shortcuts (C08)
# ---------------------------------------------------------------------------

def rect_shortcuts(db, chk, cfg, rule="T.rect"):
    from ..astq import if_parts
    contains = db.one("Rect<long>::Contains", inst="Rect<long> &")
    inter = db.one("Rect<long>::Intersects")
    empty = db.one("Rect<long>::IsEmpty")
    pc = contains.params[0]["name"]
    pi = inter.params[0]["name"]
    vals = (0, 1, 2, 3)
    n = 0
    bad = []
    for l in vals:
        for r in vals:
            if not l < r:
                continue                      # RectClip64::Execute returns early when rect_.IsEmpty()
            for bl in vals:
                for br in vals:
                    if br < bl:
                        continue              # bounds of a path: left <= right
                    for t in vals:
                        for b in vals:
                            if not t < b:
                                continue
                            for bt in vals:
                                for bb in vals:
                                    if bb < bt:
                                        continue
                                    log = []

                                    def S(v, nm, g):
                                        return SymVal(v, nm, log, group=g)
                                    this = {"left": S(l, "left", "order-x"), "right": S(r, "right", "order-x"),
                                            "top": S(t, "top", "order-y"), "bottom": S(b, "bottom", "order-y")}
                                    env_c = dict(this)
                                    env_c.update({pc + ".left": S(bl, "b.left", "order-x"), pc + ".right": S(br, "b.right", "order-x"),
                                                  pc + ".top": S(bt, "b.top", "order-y"), pc + ".bottom": S(bb, "b.bottom", "order-y")})
                                    env_i = dict(this)
                                    env_i.update({pi + ".left": S(bl, "b.left", "order-x"), pi + ".right": S(br, "b.right", "order-x"),
                                                  pi + ".top": S(bt, "b.top", "order-y"), pi + ".bottom": S(bb, "b.bottom", "order-y")})
                                    try:
                                        gc = bool(Interp(db, env_c, log).run_function(contains))
                                        gi = bool(Interp(db, env_i, log).run_function(inter))
                                    except Unsupported as e:
                                        raise AnalysisBroken("cannot interpret Rect predicates: %s" % e)
                                    check_uniform(log, {})
                                    want_c = bl >= l and br <= r and bt >= t and bb <= b
                                    want_i = not (br < l or bl > r or bb < t or bt > b)
                                    n += 1
                                    ok = gc == want_c and gi == want_i
                                    chk.instance(rule, {"rect": (l, t, r, b), "bounds": (bl, bt, br, bb), "Contains": gc, "Intersects": gi}
                                                 if n % 997 == 1 else None, ok=ok)
                                    if not ok:
                                        bad.append(((l, t, r, b), (bl, bt, br, bb), gc, want_c, gi, want_i))
    for b_ in bad[:1]:
        chk.violation(rule, "Rect<long>::Contains/Intersects", "rect=%s/bounds=%s" % (b_[0], b_[1]),
                      "bounding-box predicate behind RectClip's shortcuts is wrong on %d ordering cell(s); first: rect(l,t,r,b)=%s bounds=%s: "
                      "Contains=%s (closed inclusion: %s), Intersects=%s (closed boxes meet: %s)" % ((len(bad),) + b_), contains.where, cfg=cfg)
    # IsEmpty: zero or negative extent
    for l in (0, 1, 2):
        for r in (0, 1, 2):
            for t in (0, 1, 2):
                for b in (0, 1, 2):
                    log = []
                    env = {"left": SymVal(l, "left", log, group="order-x"), "right": SymVal(r, "right", log, group="order-x"),
                           "top": SymVal(t, "top", log, group="order-y"), "bottom": SymVal(b, "bottom", log, group="order-y")}
                    g = bool(Interp(db, env, log).run_function(empty))
                    check_uniform(log, {})
                    n += 1
                    want = (r <= l) or (b <= t)
                    chk.instance(rule, None, ok=(g == want))
                    if g != want:
                        chk.violation(rule, empty.qual, "IsEmpty", "Rect::IsEmpty() is %s for (l,t,r,b)=%s, zero-or-negative extent is %s"
                                      % (g, (l, t, r, b), want), empty.where, cfg=cfg)
    # how RectClip64::Execute uses them: the leading statements of the path loop are interpreted for the three possible answers of
    # (Intersects, Contains) - whatever their spelling (else-if chain, early continues, hoisted locals)
    from ..evalx import _Continue, _Break, _Return
    f = db.one("RectClip64::Execute")
    loops = [x for x in kids(f.body) if x.get("kind") == "CXXForRangeStmt"]
    if len(loops) != 1:
        raise AnalysisBroken("path loop of RectClip64::Execute not found")
    body = kids(loops[0])[-1]
    lv = [d for d in walk(kids(loops[0])[-2]) if d.get("kind") == "VarDecl"][0].get("name")
    sts = [x for x in kids(body) if isinstance(x, dict) and x.get("kind")]
    problems = []
    for inter, cont in ((False, False), (True, False), (True, True)):
        appended = []
        bounds_args = []
        state = {"exec": False}
        it_box = [None]

        def hook(name, argv, nd, inter=inter, cont=cont):
            if name == "GetBounds":
                return "bounds(%s)" % canon(db.call_args(nd)[0])
            if name in ("Intersects", "Contains") and nd.get("kind") == "CXXMemberCallExpr":
                try:
                    bounds_args.append(it_box[0].ev(db.call_args(nd)[0]))
                except Unsupported:
                    bounds_args.append(canon(db.call_args(nd)[0]))
                return inter if name == "Intersects" else cont
            if name in ("emplace_back", "push_back") and nd.get("kind") == "CXXMemberCallExpr" and canon(db.member_base(nd)) == "result":
                appended.append(_argtext(db.call_args(nd)[0]))
                return None
            if name == "ExecuteInternal":
                state["exec"] = True
                raise _Break()
            if name == "operator=" and nd.get("kind") == "CXXOperatorCallExpr":
                a = db.call_args(nd)
                try:
                    v = it_box[0].ev(a[1])
                except Unsupported:
                    v = None
                it_box[0].env[canon(a[0])] = v
                return v
            if name == "size":
                return 10                   # a path long enough to be clipped
            if name in ("clear", "IsEmpty", "empty"):
                return 0
            return NotImplemented
        it = Interp(db, {lv: lv}, [], call_hook=hook)
        it_box[0] = it
        outcome = "fell through"
        try:
            for st in sts:
                it.exec(st)
                if state["exec"]:
                    break
        except _Continue:
            outcome = "continue"
        except _Break:
            outcome = "clip"
        except _Return:
            outcome = "return"
        except Unsupported as e:
            if state["exec"]:
                outcome = "clip"
            else:
                raise AnalysisBroken("cannot interpret the leading statements of RectClip64::Execute's path loop: %s" % e)
        if state["exec"]:
            outcome = "clip"
        for nm, av, ln in it.effects:
            if nm in ("emplace_back", "push_back"):
                appended.append(av[0] if av else "?")
        want = ("continue", []) if not inter else (("continue", [lv]) if cont else ("clip", []))
        if (outcome, appended) != want:
            problems.append("when the path's bounds %s the rectangle's and %s inside it the loop does `%s` having appended %s (expected `%s` / %s)" % (
                "meet" if inter else "do not meet", "lie" if cont else "do not lie", outcome, appended, want[0], want[1]))
        if any(b != "bounds(%s)" % lv for b in bounds_args):
            problems.append("the bounding-box predicates are not applied to GetBounds(<the current path>): %s" % bounds_args)
    n += 1
    chk.instance(rule, {"function": f.qual, "shortcuts": "outside -> continue; inside -> result.emplace_back(path); continue", "cfg": cfg}, ok=not problems)
    if problems:
        chk.violation(rule, f.qual, "shortcuts", "; ".join(problems), f.where, cfg=cfg)
    return n


# ---------------------------------------------------------------------------
# CleanCollinear's removal condition (C03)
# ---------------------------------------------------------------------------

def clean_collinear_condition(db, chk, cfg, rule="T.removal"):
    from ..astq import if_parts
    f = db.one("ClipperBase::CleanCollinear")
    conds = []
    for x in walk(f.body):
        if x.get("kind") == "IfStmt":
            cond, then, els = if_parts(x)
            if "IsCollinear(" in canon(cond) and any(y.get("kind") == "CallExpr" and db.callee(y)[0] == "DisposeOutPt" for y in walk(then)):
                conds.append((x, cond))
    if len(conds) != 1:
        raise AnalysisBroken("removal condition of CleanCollinear not found (%d candidates)" % len(conds))
    node, cond = conds[0]
    n = 0
    bad = []
    for collinear in (False, True):
        for dup_prev in (False, True):
            for dup_next in (False, True):
                for preserve in (False, True):
                    for dot in (-1, 0, 1):
                        log = []

                        def hook(name, args, nd):
                            if name == "IsCollinear":
                                return collinear
                            if name == "DotProduct":
                                return SymVal(dot, "dot", log, group="finite")
                            if name == "operator==" or name == "operator!=":
                                s = canon(nd)
                                if "prev" in s:
                                    v = dup_prev
                                elif "next" in s:
                                    v = dup_next
                                else:
                                    return NotImplemented
                                return v if name == "operator==" else (not v)
                            return NotImplemented
                        env = {"preserve_collinear_": preserve}
                        it = Interp(db, env, log, call_hook=hook)
                        # make point operands evaluable: they are opaque tokens
                        try:
                            got = bool(_eval_with_opaque(it, cond))
                        except Unsupported as e:
                            raise AnalysisBroken("cannot interpret CleanCollinear's removal condition: %s" % e)
                        want = collinear and (dup_prev or dup_next or (not preserve) or dot < 0)
                        n += 1
                        chk.instance(rule, {"collinear": collinear, "dup_prev": dup_prev, "dup_next": dup_next, "preserve": preserve,
                                            "dot_sign": dot, "remove": got} if n % 17 == 1 else None, ok=(got == want))
                        if got != want:
                            bad.append((collinear, dup_prev, dup_next, preserve, dot, got, want))
    for b in bad[:1]:
        chk.violation(rule, f.qual, "coll=%s/dupP=%s/dupN=%s/preserve=%s/dot=%d" % b[:5],
                      "CleanCollinear removes a vertex when %s but the rule is: collinear and (duplicate of a neighbour or not PreserveCollinear "
                      "or a 180-degree reversal); %d cell(s) differ" % ("it should not" if b[5] else "it should and does not", len(bad)), where(node), cfg=cfg)
    return n


def _eval_with_opaque(it, cond):
    """Evaluate a condition whose leaves are calls on opaque point objects (handled by the hook)."""
    e = strip(cond)
    k = e.get("kind")
    ks = kids(e)
    if k == "BinaryOperator" and e.get("opcode") in ("&&", "||"):
        a = _eval_with_opaque(it, ks[0])
        if e.get("opcode") == "&&":
            return bool(a) and bool(_eval_with_opaque(it, ks[1]))
        return bool(a) or bool(_eval_with_opaque(it, ks[1]))
    if k == "UnaryOperator" and e.get("opcode") == "!":
        return not _eval_with_opaque(it, ks[0])
    if k in ("CallExpr", "CXXOperatorCallExpr", "CXXMemberCallExpr"):
        name = it.db.callee(e)[0]
        r = it.call_hook(name, [], e)
        if r is not NotImplemented:
            return r
    if k == "BinaryOperator" and e.get("opcode") in ("<", ">", "<=", ">=", "==", "!="):
        a = _eval_leaf(it, ks[0])
        b = _eval_leaf(it, ks[1])
        return it._cmp(e.get("opcode"), a, b, e)
    return it._truth(it.ev(e), e)


def _eval_leaf(it, e):
    e0 = strip(e)
    if e0.get("kind") in ("CallExpr", "CXXOperatorCallExpr"):
        r = it.call_hook(it.db.callee(e0)[0], [], e0)
        if r is not NotImplemented:
            return r
    return it.ev(e0)


# ---------------------------------------------------------------------------
# exact predicates (C18)
# ---------------------------------------------------------------------------

PRED_FUNCS = ["CrossProductSign", "ProductsAreEqual", "IsCollinear", "TriSign", "Multiply"]


def predicates_integer_only(db, chk, cfg, rule="P.integer-only"):
    """No expression of floating type inside the exact predicates; products only of widened (__int128) or 64-bit unsigned operands."""
    n = 0
    for q in PRED_FUNCS:
        fs = db.find(q)
        for f in fs:
            fl = [x for x in walk(f.body) if re_float.search(dqt(x) or "")]
            muls = [x for x in walk(f.body) if x.get("kind") == "BinaryOperator" and x.get("opcode") == "*"]
            narrow = []
            for m in muls:
                t = dqt(m)
                if t in ("__int128", "__int128_t", "unsigned __int128", "unsigned long", "uint64_t", "int"):
                    continue
                narrow.append((t, m))
            n += 1
            ok = not fl and not narrow
            chk.instance(rule, {"function": f.qual, "sig": f.sig[:50], "products": len(muls), "cfg": cfg}, ok=ok)
            if fl:
                chk.violation(rule, f.qual, "floating-point", "exact predicate contains an expression of floating type (%s) at %s: the answer is "
                              "no longer exact for all 64-bit inputs" % (dqt(fl[0]), where(fl[0])), where(fl[0]), cfg=cfg)
            if narrow:
                chk.violation(rule, f.qual, "narrow-product", "product computed in type %s at %s: 64x64-bit products must be formed in 128 bits "
                              "(or by the portable Multiply)" % (narrow[0][0], where(narrow[0][1])), where(narrow[0][1]), cfg=cfg)
    return n


import re as _re
re_float = _re.compile(r'\b(double|float|long double)\b')


def portable_sign_logic(db, chk, cfg, rule="P.portable-sign"):
    """Tails of CrossProductSign / ProductsAreEqual in the portable configuration."""
    n = 0
    # consistent cells: sign == 0  <=>  magnitude == 0
    mags = [(0, 0), (0, 1), (1, 0), (1, 1), (0, 2), (2, 0), (1, 2), (2, 1)]     # (hi, lo) of a 128-bit magnitude

    def cells():
        for sa in (-1, 0, 1):
            for sc in (-1, 0, 1):
                for ma in mags:
                    for mc in mags:
                        if (sa == 0) != (ma == (0, 0)) or (sc == 0) != (mc == (0, 0)):
                            continue
                        yield sa, sc, ma, mc

    f = db.one("CrossProductSign", inst="Point<long>")
    stmts = kids(f.body)
    tail = [s for s in stmts if s.get("kind") != "DeclStmt"]
    if not tail or "Multiply" not in canon(f.body):
        raise AnalysisBroken("portable branch of CrossProductSign not present in configuration %s" % cfg)
    bad = []
    for sa, sc, ma, mc in cells():
        log = []
        env = {"sign_ab": SymVal(sa, "sign_ab", log, group="tri"), "sign_cd": SymVal(sc, "sign_cd", log, group="tri"),
               "ab.hi": SymVal(ma[0], "ab.hi", log, group="order-hi"), "cd.hi": SymVal(mc[0], "cd.hi", log, group="order-hi"),
               "ab.lo": SymVal(ma[1], "ab.lo", log, group="order-lo"), "cd.lo": SymVal(mc[1], "cd.lo", log, group="order-lo")}
        it = Interp(db, env, log)
        from ..evalx import _Return
        got = None
        try:
            for s in tail:
                it.exec(s)
        except _Return as r:
            got = r.v
        except Unsupported as e:
            raise AnalysisBroken("cannot interpret the portable tail of CrossProductSign: %s" % e)
        got = got.v if isinstance(got, SymVal) else got
        check_uniform(log, {})
        va = sa * (ma[0] * 4 + ma[1])
        vc = sc * (mc[0] * 4 + mc[1])
        want = (va > vc) - (va < vc)
        n += 1
        chk.instance(rule, {"sign_ab": sa, "sign_cd": sc, "|ab|(hi,lo)": ma, "|cd|(hi,lo)": mc, "result": got} if n % 41 == 1 else None, ok=(got == want))
        if got != want:
            bad.append((sa, sc, ma, mc, got, want))
    for b in bad[:1]:
        chk.violation(rule, f.qual, "sab=%d/scd=%d/ab=%s/cd=%s" % b[:4],
                      "portable CrossProductSign returns %s where sign(ab - cd) is %s (sign_ab=%d, sign_cd=%d, |ab|=%s, |cd|=%s as (hi,lo)); %d cell(s) differ"
                      % (b[4], b[5], b[0], b[1], b[2], b[3], len(bad)), f.where, cfg=cfg)
    g = db.one("ProductsAreEqual")
    gt = [s for s in kids(g.body) if s.get("kind") != "DeclStmt"]
    bad = []
    for sa, sc, ma, mc in cells():
        log = []
        env = {"sign_ab": SymVal(sa, "sign_ab", log, group="tri"), "sign_cd": SymVal(sc, "sign_cd", log, group="tri"),
               "ab.hi": SymVal(ma[0], "ab.hi", log, group="order-hi"), "cd.hi": SymVal(mc[0], "cd.hi", log, group="order-hi"),
               "ab.lo": SymVal(ma[1], "ab.lo", log, group="order-lo"), "cd.lo": SymVal(mc[1], "cd.lo", log, group="order-lo")}
        it = Interp(db, env, log)
        from ..evalx import _Return
        got = None
        try:
            for s in gt:
                it.exec(s)
        except _Return as r:
            got = bool(r.v)
        except Unsupported as e:
            raise AnalysisBroken("cannot interpret the portable tail of ProductsAreEqual: %s" % e)
        want = (sa == sc) and (ma == mc)
        n += 1
        chk.instance(rule, None, ok=(got == want))
        if got != want:
            bad.append((sa, sc, ma, mc, got, want))
    for b in bad[:1]:
        chk.violation(rule, g.qual, "sab=%d/scd=%d/ab=%s/cd=%s" % b[:4],
                      "portable ProductsAreEqual returns %s where a*b == c*d is %s; %d cell(s) differ" % (b[4], b[5], len(bad)), g.where, cfg=cfg)
    # TriSign
    t = db.one("TriSign")
    for v in (-3, -2, -1, 0, 1, 2, 3):
        log = []
        r = Interp(db, {t.params[0]["name"]: SymVal(v, "x", log)}, log).run_function(t)
        check_uniform(log, {"x": BOUNDS})
        n += 1
        ok = r == sgn(v)
        chk.instance(rule, None, ok=ok)
        if not ok:
            chk.violation(rule, t.qual, "x=%d" % v, "TriSign(%d) is %s" % (v, r), t.where, cfg=cfg)
    return n


def multiply_no_wrap(db, chk, cfg, rule="P.multiply-no-wrap"):
    """Interval abstract interpretation of Multiply: no 64-bit intermediate can wrap around."""
    f = db.one("Multiply")
    M64 = (1 << 64) - 1
    env = {}
    for p in f.params:
        env[p["name"]] = (0, M64)
    lambdas = {}
    n = 0
    problems = []

    def iv(e):
        e = strip(e)
        k = e.get("kind")
        ks = kids(e)
        if k == "IntegerLiteral":
            v = int(e["value"])
            return (v, v)
        if k == "DeclRefExpr":
            nm = e["referencedDecl"]["name"]
            if nm in env:
                return env[nm]
            raise AnalysisBroken("Multiply: unknown variable %s" % nm)
        if k == "BinaryOperator":
            op = e.get("opcode")
            a, b = iv(ks[0]), iv(ks[1])
            if op == "&":
                return (0, min(a[1], b[1]))
            if op == ">>":
                return (a[0] >> b[1], a[1] >> b[0])
            if op == "<<":
                r = (a[0] << b[0], a[1] << b[1])
            elif op == "*":
                r = (a[0] * b[0], a[1] * b[1])
            elif op == "+":
                r = (a[0] + b[0], a[1] + b[1])
            elif op == "|":
                # disjoint bit ranges in this code; the sound bound is the sum
                r = (max(a[0], b[0]), a[1] + b[1]) if (a[1] & b[1]) else (max(a[0], b[0]), a[1] | b[1])
            else:
                raise AnalysisBroken("Multiply: unsupported operator %s" % op)
            nonlocal n
            n += 1
            ok = r[1] <= M64
            chk.instance(rule, {"expr": canon(e)[:60], "max": hex(r[1]), "fits_in_64_bits": ok, "cfg": cfg}, ok=ok)
            if not ok:
                problems.append((canon(e), r[1], e))
            return (r[0], min(r[1], M64))
        if k == "CXXOperatorCallExpr":       # call of the lambdas lo / hi
            callee_obj = strip(ks[1])
            nm = callee_obj.get("referencedDecl", {}).get("name")
            if nm in lambdas:
                pn, body = lambdas[nm]
                saved = env.get(pn)
                env[pn] = iv(ks[2])
                r = iv(body)
                if saved is None:
                    env.pop(pn, None)
                else:
                    env[pn] = saved
                return r
            raise AnalysisBroken("Multiply: unknown callable %s" % nm)
        raise AnalysisBroken("Multiply: unsupported expression %s" % k)

    def shift_of(e):
        """(variable name, K) if e is `v >> K` or a call of a local lambda whose body is `x >> K` on a plain variable."""
        e0 = strip(e)
        if e0.get("kind") == "BinaryOperator" and e0.get("opcode") == ">>":
            l, r = strip(kids(e0)[0]), strip(kids(e0)[1])
            if l.get("kind") == "DeclRefExpr" and r.get("kind") == "IntegerLiteral":
                return l["referencedDecl"]["name"], int(r["value"])
        if e0.get("kind") == "CXXOperatorCallExpr" and len(kids(e0)) == 3:
            nm = strip(kids(e0)[1]).get("referencedDecl", {}).get("name")
            a = strip(kids(e0)[2])
            if nm in lambdas and a.get("kind") == "DeclRefExpr":
                pn, body = lambdas[nm]
                b0 = strip(body)
                if b0.get("kind") == "BinaryOperator" and b0.get("opcode") == ">>":
                    l, r = strip(kids(b0)[0]), strip(kids(b0)[1])
                    if l.get("kind") == "DeclRefExpr" and l["referencedDecl"]["name"] == pn and r.get("kind") == "IntegerLiteral":
                        return a["referencedDecl"]["name"], int(r["value"])
        return None

    def refine(c):
        """Disjunction of refinements {variable: (lo, hi)} under which the condition can hold (an over-approximation)."""
        c0 = strip(c)
        if c0.get("kind") == "BinaryOperator" and c0.get("opcode") == "||":
            return refine(kids(c0)[0]) + refine(kids(c0)[1])
        if c0.get("kind") == "BinaryOperator" and c0.get("opcode") == "&&":
            out = []
            for a in refine(kids(c0)[0]):
                for b in refine(kids(c0)[1]):
                    m = dict(a)
                    for k2, v2 in b.items():
                        m[k2] = (max(m[k2][0], v2[0]), min(m[k2][1], v2[1])) if k2 in m else v2
                    out.append(m)
            return out
        if c0.get("kind") == "UnaryOperator" and c0.get("opcode") == "!":
            sh = shift_of(kids(c0)[0])
            if sh and sh[0] in env:
                return [{sh[0]: (env[sh[0]][0], min(env[sh[0]][1], (1 << sh[1]) - 1))}]
        if c0.get("kind") == "BinaryOperator" and c0.get("opcode") in ("==", "<", "<="):
            l, r = kids(c0)
            for x, y in ((l, r), (r, l)):
                y0 = strip(y)
                if y0.get("kind") != "IntegerLiteral":
                    continue
                cst = int(y0["value"])
                if c0.get("opcode") != "==" and x is not l:
                    continue
                sh = shift_of(x)
                top = cst if c0.get("opcode") in ("==", "<=") else cst - 1
                if sh and sh[0] in env:
                    return [{sh[0]: (env[sh[0]][0], min(env[sh[0]][1], ((top + 1) << sh[1]) - 1))}]
                x0 = strip(x)
                if x0.get("kind") == "DeclRefExpr" and x0["referencedDecl"]["name"] in env:
                    v = x0["referencedDecl"]["name"]
                    return [{v: (env[v][0], min(env[v][1], top))}]
        return [{}]

    def topmost(x):
        x0 = strip(x)
        if x0.get("kind") in ("BinaryOperator", "CXXOperatorCallExpr"):
            iv(x0)
            return
        for c in kids(x0):
            if isinstance(c, dict):
                topmost(c)

    def process(stmts):
        for s in stmts:
            if not isinstance(s, dict):
                continue
            k0 = s.get("kind")
            if k0 == "CompoundStmt":
                process(kids(s))
            elif k0 == "DeclStmt":
                for d in kids(s):
                    if d.get("kind") != "VarDecl":
                        continue
                    init = [c for c in kids(d) if c.get("kind")]
                    lam = [x for x in walk(d) if x.get("kind") == "LambdaExpr"]
                    if lam:
                        meth = [x for x in walk(lam[0]) if x.get("kind") == "CXXMethodDecl" and x.get("name") == "operator()"]
                        if not meth:
                            raise AnalysisBroken("Multiply: lambda without operator()")
                        prm = [c for c in kids(meth[0]) if c.get("kind") == "ParmVarDecl"]
                        body = [c for c in kids(meth[0]) if c.get("kind") == "CompoundStmt"][0]
                        ret = [x for x in walk(body) if x.get("kind") == "ReturnStmt"][0]
                        lambdas[d["name"]] = (prm[0]["name"], kids(ret)[0])
                    elif init:
                        env[d["name"]] = iv(init[-1])
            elif k0 == "IfStmt":
                from ..astq import if_parts
                cond, then, els = if_parts(s)
                for ref in refine(cond):
                    saved = dict(env)
                    env.update(ref)
                    process([then])
                    env.clear()
                    env.update(saved)
                if els is not None:
                    saved = dict(env)
                    process([els])
                    env.clear()
                    env.update(saved)
            elif k0 == "ReturnStmt":
                # arithmetic written directly into the returned aggregate ({ lo-expression, hi-expression })
                for x in kids(s):
                    topmost(x)

    process(kids(f.body))
    if n < 8:
        raise AnalysisBroken("Multiply: only %d arithmetic intermediates recognised" % n)
    for txt, mx, node in problems[:1]:
        chk.violation(rule, f.qual, txt[:40], "intermediate %s can reach %s > 2^64-1: the partial sum wraps around and the 128-bit product is wrong"
                      % (txt, hex(mx)), where(node), cfg=cfg)
    return n


# ---------------------------------------------------------------------------
# AddPaths_: the closing vertex of a path is dropped for closed paths only (C05, C13)
# ---------------------------------------------------------------------------

def closing_vertex_rule(db, chk, cfg, rule="ADD.closing-vertex"):
    from ..astq import if_parts
    f = db.one("AddPaths_")
    sites = []
    parent_of = {}
    for x in walk(f.body):
        for c in kids(x):
            parent_of[id(c)] = x
    for x in walk(f.body):
        if x.get("kind") == "IfStmt":
            cond, then, els = if_parts(x)
            t = canon(then).strip("()")
            m = re.match(r"^(\w+) = \1->prev$", t)
            if m and els is None:
                sites.append((x, cond, then, m.group(1)))
    if len(sites) != 1:
        raise AnalysisBroken("the closing-vertex step of AddPaths_ (`if (...) prev_v = prev_v->prev`) was not found uniquely (%d)" % len(sites))
    node, cond, then, last = sites[0]
    # the vertex the ring is closed onto is named by the statement that follows: `<last>->next = <first>`
    sib = kids(parent_of[id(node)])
    nxt = sib[[id(c) for c in sib].index(id(node)) + 1] if id(node) in [id(c) for c in sib[:-1]] else None
    m = re.match(r"^\(?%s->next = (\w+)\)?$" % last, canon(nxt)) if nxt is not None else None
    if not m:
        raise AnalysisBroken("AddPaths_: the statement closing the vertex ring (`%s->next = <first vertex>`) does not follow the closing-vertex step" % last)
    first = m.group(1)
    eqs = [y for y in walk(cond) if y.get("kind") == "CXXOperatorCallExpr" and canon(y).count("==")]
    ok_operands = False
    for y in eqs:
        ops = sorted(canon(c) for c in kids(y)[1:])
        if ops == sorted(["%s->pt" % last, "%s->pt" % first]):
            ok_operands = True
    chk.instance(rule, {"compares": [canon(y) for y in eqs], "last": last, "first": first, "cfg": cfg}, ok=ok_operands)
    if not ok_operands:
        chk.violation(rule, f.qual, "operands", "the closing-vertex test of AddPaths_ must compare the path's last vertex (%s->pt) with the first vertex of the "
                      "same path (%s->pt, the one the ring is closed onto in the next statement); it compares %s" %
                      (last, first, ", ".join(canon(y) for y in eqs) or "nothing"), where(node), cfg=cfg)
    n = 0
    for is_open in (False, True):
        for equal in (False, True):
            def hook(name, argv, nd, equal=equal):
                if name == "operator==":
                    return equal
                if name == "operator!=":
                    return not equal
                return NotImplemented
            try:
                got = bool(_eval_with_opaque(Interp(db, {"is_open": is_open}, call_hook=hook), cond))
            except Unsupported as e:
                raise AnalysisBroken("cannot interpret the closing-vertex condition of AddPaths_: %s" % e)
            want = (not is_open) and equal
            n += 1
            chk.instance(rule, {"is_open": is_open, "last_equals_first": equal, "dropped": got, "cfg": cfg}, ok=(got == want))
            if got != want:
                chk.violation(rule, f.qual, "open=%s/equal=%s" % (is_open, equal),
                              "AddPaths_ %s the last vertex when is_open=%s and last==first is %s; a trailing vertex equal to the first one is "
                              "redundant only for closed paths - for an open path it is the end point of the last segment"
                              % ("drops" if got else "keeps", is_open, equal), where(node), cfg=cfg)
    return n


# ---------------------------------------------------------------------------
# winding-count bookkeeping (C01, C13): updates at a crossing and at insertion
# ---------------------------------------------------------------------------

WREPS = [-5, -4, -3, -2, -1, 0, 1, 2, 3, 4, 5]
WBOUNDS = (-4, 4)         # -3..3 singleton cells; <= -4 and >= 4 are the rays (two representatives each: 4 and 5)


def farther(a, b):
    """Of the winding numbers of the two sides of an edge, the one farther from zero (they differ by one)."""
    return a if abs(a) > abs(b) else b


def _near(wc):
    return wc - sgn(wc)


def table_crossing_update(db, chk, cfg, rule="T.wind-crossing"):
    """The 'UPDATE WINDING COUNTS' step of IntersectEdges(e1, e2): e1 is immediately left of e2 and the two swap.
    Definition: crossing an edge from left to right adds its wind_dx to the winding number of its own path type;
    wind_cnt is the winding of the side of the edge farther from zero, wind_cnt2 the other type's winding of the region."""
    from ..astq import if_parts
    f = db.one("ClipperBase::IntersectEdges")
    site = None
    for s in kids(f.body):
        if s.get("kind") == "IfStmt":
            cond, then, els = if_parts(s)
            cs = canon(cond)
            if "polytype" in cs and "e1." in cs and "e2." in cs and "==" in cs and els is not None and "wind_cnt" in canon(then):
                site = s
                break
    if site is None:
        raise AnalysisBroken("winding update `if (e1.local_min->polytype == e2.local_min->polytype)` not found in IntersectEdges")
    n = 0
    bad = []
    for fill in FILL:
        for same in (True, False):
            for d1 in (1, -1):
                for d2 in (1, -1):
                    for w1 in WREPS:
                        for w2 in WREPS:
                            for c1 in (WREPS if not same else [0]):
                                for c2 in (WREPS if not same else [0]):
                                    # reachability
                                    if fill == "EvenOdd":
                                        if w1 not in (1, -1) or w2 not in (1, -1) or c1 not in (0, 1) or c2 not in (0, 1):
                                            continue
                                    elif w1 == 0 or w2 == 0:
                                        continue
                                    if not same and (abs(w1) > 1 or abs(w2) > 1) and (w1, w2) != (w1, w2):
                                        pass
                                    if not same and (w1 not in (1, -1, 2) or w2 not in (1, -1, 2)):
                                        continue      # own winding numbers are not touched in this branch: three representatives suffice
                                    log = []
                                    env = {"fillrule_": enum_index(db, "FillRule", fill),
                                           "e1.local_min->polytype": 0, "e2.local_min->polytype": 0 if same else 1,
                                           "e1.wind_dx": d1, "e2.wind_dx": d2,
                                           "e1.wind_cnt": SymVal(w1, "w1", log), "e2.wind_cnt": SymVal(w2, "w2", log),
                                           "e1.wind_cnt2": SymVal(c1, "c1", log), "e2.wind_cnt2": SymVal(c2, "c2", log)}
                                    it = Interp(db, env, log)
                                    try:
                                        it.exec(site)
                                    except Unsupported as e:
                                        raise AnalysisBroken("cannot interpret the winding update of IntersectEdges: %s" % e)
                                    check_uniform(log, {"w1": WBOUNDS, "w2": WBOUNDS, "c1": WBOUNDS, "c2": WBOUNDS})
                                    g = {k: (it.env[k].v if isinstance(it.env[k], SymVal) else it.env[k])
                                         for k in ("e1.wind_cnt", "e2.wind_cnt", "e1.wind_cnt2", "e2.wind_cnt2")}
                                    if same:
                                        if fill == "EvenOdd":
                                            want = {"e1.wind_cnt": w2, "e2.wind_cnt": w1}     # magnitudes stay 1; the code exchanges them
                                            ok = abs(g["e1.wind_cnt"]) == 1 and abs(g["e2.wind_cnt"]) == 1
                                        else:
                                            want = {"e1.wind_cnt": farther(w1 + d2, _near(w1) + d2), "e2.wind_cnt": farther(w2 - d1, _near(w2) - d1)}
                                            ok = g["e1.wind_cnt"] == want["e1.wind_cnt"] and g["e2.wind_cnt"] == want["e2.wind_cnt"]
                                        ok = ok and g["e1.wind_cnt2"] == c1 and g["e2.wind_cnt2"] == c2
                                    else:
                                        if fill == "EvenOdd":
                                            want = {"e1.wind_cnt2": 1 - c1, "e2.wind_cnt2": 1 - c2}
                                        else:
                                            want = {"e1.wind_cnt2": c1 + d2, "e2.wind_cnt2": c2 - d1}
                                        ok = g["e1.wind_cnt2"] == want["e1.wind_cnt2"] and g["e2.wind_cnt2"] == want["e2.wind_cnt2"] \
                                            and g["e1.wind_cnt"] == w1 and g["e2.wind_cnt"] == w2
                                    n += 1
                                    cell = {"fill": fill, "same_type": same, "dx": (d1, d2), "wind_cnt": (w1, w2), "wind_cnt2": (c1, c2), "after": g}
                                    chk.instance(rule, cell if n % 499 == 1 else None, ok=ok)
                                    if not ok:
                                        bad.append((cell, want))
    for cell, want in bad[:1]:
        chk.violation(rule, f.qual, "%s/same=%s/dx=%s/wc=%s/wc2=%s" % (cell["fill"], cell["same_type"], cell["dx"], cell["wind_cnt"], cell["wind_cnt2"]),
                      "winding counts after a crossing deviate from the definition on %d reachable cell(s); first: %s, expected %s"
                      % (len(bad), cell, want), where(site), detail=[b[0] for b in bad[:10]], cfg=cfg)
    return n


def table_insertion_wind(db, chk, cfg, rule="T.wind-insert"):
    """SetWindCountForClosedPathEdge, NonZero/Positive/Negative branch: wind_cnt of an edge inserted immediately to the
    right of its nearest same-type neighbour e2.  Definition: the region right of e2 has winding  wc2 (if wc2 and dx2 have
    the same sign: filling on the right) else wc2 - sgn(wc2); crossing the new edge adds its wind_dx; wind_cnt is the
    side farther from zero."""
    from ..astq import if_parts
    f = db.one("ClipperBase::SetWindCountForClosedPathEdge")
    site = None
    for x in walk(f.body):
        if x.get("kind") == "IfStmt":
            cond, then, els = if_parts(x)
            cs = canon(cond)
            if "e2->wind_cnt * e2->wind_dx" in cs and "< 0" in cs and els is not None:
                site = x
                break
    if site is None:
        raise AnalysisBroken("`if (e2->wind_cnt * e2->wind_dx < 0)` not found in SetWindCountForClosedPathEdge")
    n = 0
    bad = []
    for dx2 in (1, -1):
        for dx in (1, -1):
            for wc2 in WREPS:
                if wc2 == 0:
                    continue
                log = []
                env = {"e2->wind_cnt": SymVal(wc2, "wc2", log), "e2->wind_dx": dx2, "e.wind_dx": dx, "e.wind_cnt": 0,
                       "e.local_min->is_open": False}
                it = Interp(db, env, log)
                try:
                    it.exec(site)
                except Unsupported as e:
                    raise AnalysisBroken("cannot interpret SetWindCountForClosedPathEdge: %s" % e)
                check_uniform(log, {"wc2": WBOUNDS})
                got = it.env["e.wind_cnt"]
                got = got.v if isinstance(got, SymVal) else got
                r = wc2 if wc2 * dx2 > 0 else _near(wc2)
                want = farther(r, r + dx) if r != 0 and r + dx != 0 else (dx if r == 0 else r)
                n += 1
                cell = {"e2.wind_cnt": wc2, "e2.wind_dx": dx2, "e.wind_dx": dx, "e.wind_cnt": got}
                chk.instance(rule, cell if n % 7 == 1 else None, ok=(got == want))
                if got != want:
                    bad.append((cell, want))
    for cell, want in bad[:1]:
        chk.violation(rule, f.qual, "wc2=%d/dx2=%d/dx=%d" % (cell["e2.wind_cnt"], cell["e2.wind_dx"], cell["e.wind_dx"]),
                      "wind_cnt of a newly inserted edge deviates from the definition on %d cell(s); first: %s, expected %d" % (len(bad), cell, want),
                      where(site), cfg=cfg)
    # the wind_cnt2 accumulation: every other-type closed edge between the neighbour and e contributes (its wind_dx; a toggle under
    # EvenOdd), same-type and open edges contribute nothing; the start value is the neighbour's wind_cnt2.  The loop bodies are interpreted.
    loops = [x for x in walk(f.body) if x.get("kind") == "WhileStmt" and any(
        y.get("kind") == "MemberExpr" and y.get("name") == "wind_cnt2" for y in walk(kids(x)[-1]))]
    ok2 = len(loops) == 2
    detail = []
    if ok2:
        for lp in loops:
            body = kids(lp)[-1]
            for other_type in (False, True):
                for is_open in (False, True):
                    for start in (0, 1, -2, 3):
                        for d in (-1, 1):
                            def hook(name, argv, nd, other_type=other_type, is_open=is_open):
                                if name == "GetPolyType":
                                    a0 = canon(db.call_args(nd)[0])
                                    return 1 if (other_type and "e2" in a0) else 0
                                if name == "IsOpen":
                                    return is_open
                                return NotImplemented
                            env = {"e.wind_cnt2": start, "e2->wind_dx": d, "pt": 0, "e2->next_in_ael": Ref("E3")}
                            it = Interp(db, env, [], call_hook=hook)
                            try:
                                it.exec(body)
                            except Unsupported as ex:
                                raise AnalysisBroken("cannot interpret the wind_cnt2 loop of SetWindCountForClosedPathEdge: %s" % ex)
                            got = it.env["e.wind_cnt2"]
                            detail.append((other_type, is_open, start, d, got))
        # classify the two loops: one adds wind_dx, the other toggles 0/1 (on the EvenOdd domain start in {0,1})
        half = len(detail) // 2

        def adds(rows):
            return all(g == (st + d if (ot and not op) else st) for ot, op, st, d, g in rows)

        def toggles(rows):
            return all(g == ((1 - st) if (ot and not op) else st) for ot, op, st, d, g in rows if st in (0, 1))
        l1, l2 = detail[:half], detail[half:]
        ok2 = (adds(l1) and toggles(l2)) or (adds(l2) and toggles(l1))
    starts = [x for x in walk(f.body) if x.get("kind") == "BinaryOperator" and x.get("opcode") == "=" and canon(kids(x)[0]) == "e.wind_cnt2"
              and canon(kids(x)[1]) == "e2->wind_cnt2"]
    if len(starts) < 2:
        ok2 = False
    n += 1
    chk.instance(rule, {"obligation": "wind_cnt2 starts from the neighbour's and adds wind_dx (EvenOdd: toggles) per other-type closed edge in between", "cfg": cfg}, ok=ok2)
    if not ok2:
        chk.violation(rule, f.qual, "wind_cnt2", "the accumulation of wind_cnt2 (start from e2->wind_cnt2; per other-type closed edge between the neighbour and "
                      "the new edge add its wind_dx, or toggle under EvenOdd; nothing for same-type or open edges) changed", f.where, cfg=cfg)
    return n


def table_crossing_dispatch(db, chk, cfg, rule="T.cross-dispatch", debug=False):
    """The closed-path part of IntersectEdges as a whole (winding update + 'process the intersection'):
    starting from a consistent state (an edge is 'hot', i.e. carries output, iff it lies on the solution boundary for its
    winding counts), the calls it makes (AddLocalMaxPoly / AddLocalMinPoly / AddOutPt / SwapOutrecs) must leave each edge
    hot iff it lies on the solution boundary for its *updated* counts.  Oracle: oracle_closed() before and after, with
    the update taken from the definition."""
    from ..astq import if_parts
    from ..evalx import _Return
    f = db.one("ClipperBase::IntersectEdges")
    stmts = kids(f.body)
    start = None
    for i, s in enumerate(stmts):
        if s.get("kind") == "IfStmt":
            cond, then, els = if_parts(s)
            cs = canon(cond)
            if "polytype" in cs and "e1." in cs and "e2." in cs and "==" in cs and els is not None and "wind_cnt" in canon(then):
                start = i
                break
    if start is None:
        raise AnalysisBroken("winding update not found in IntersectEdges")
    tail = stmts[start:]
    n = 0
    bad = []
    reps = [-3, -2, -1, 0, 1, 2, 3]
    bounds = {"w1": (-3, 3), "w2": (-3, 3), "c1": (-3, 3), "c2": (-3, 3), "w1*w2": (-3, 3)}
    for fill in FILL:
        for ct in CLIP[1:]:
            for t1 in PTYPE:
                for t2 in PTYPE:
                    same = t1 == t2
                    for d1 in (1, -1):
                        for d2 in (1, -1):
                            for w1 in reps:
                                for w2 in reps:
                                    for c1 in reps:
                                        # in the same region just left of the crossing the two edges see the same other-type winding
                                        # when they are of the same type; for different types c1/c2 are tied to the partner's counts
                                        for c2 in reps:
                                            if fill == "EvenOdd":
                                                if w1 not in (1, -1) or w2 not in (1, -1) or c1 not in (0, 1) or c2 not in (0, 1):
                                                    continue
                                            elif w1 == 0 or w2 == 0:
                                                continue
                                            if not _consistent_before(fill, same, d1, d2, w1, w2, c1, c2):
                                                continue
                                            h1 = oracle_closed(fill, ct, t1, w1, c1)
                                            h2 = oracle_closed(fill, ct, t2, w2, c2)
                                            for front1 in ((True, False) if h1 else (False,)):
                                                for same_or in ((True, False) if (h1 and h2) else (False,)):
                                                    log = []
                                                    calls = []

                                                    def hook(name, argv, node, calls=calls, front1=front1):
                                                        if name in ("AddLocalMaxPoly", "AddLocalMinPoly", "AddOutPt", "SwapOutrecs", "SetZ"):
                                                            calls.append(name)
                                                            return 1
                                                        if name == "IsFront":
                                                            return front1
                                                        return NotImplemented
                                                    env = {"fillrule_": enum_index(db, "FillRule", fill), "cliptype_": enum_index(db, "ClipType", ct),
                                                           "fillpos": enum_index(db, "FillRule", "Positive"),
                                                           "e1.local_min->polytype": enum_index(db, "PathType", t1),
                                                           "e2.local_min->polytype": enum_index(db, "PathType", t2),
                                                           "e1.wind_dx": d1, "e2.wind_dx": d2,
                                                           "e1.wind_cnt": SymVal(w1, "w1", log), "e2.wind_cnt": SymVal(w2, "w2", log),
                                                           "e1.wind_cnt2": SymVal(c1, "c1", log), "e2.wind_cnt2": SymVal(c2, "c2", log),
                                                           "e1.outrec": (7 if h1 else None), "e2.outrec": ((7 if same_or else 8) if h2 else None),
                                                           "pt": 0, "zCallback_": None}
                                                    it = Interp(db, env, log, call_hook=hook)
                                                    try:
                                                        try:
                                                            for s in tail:
                                                                it.exec(s)
                                                        except _Return:
                                                            pass
                                                    except Unsupported as e:
                                                        raise AnalysisBroken("cannot interpret the closed-path part of IntersectEdges: %s" % e)
                                                    check_uniform(log, bounds)
                                                    # hot status after, from the calls made
                                                    a1, a2 = h1, h2
                                                    for c in calls:
                                                        if c == "AddLocalMaxPoly":
                                                            a1, a2 = False, False
                                                        elif c == "AddLocalMinPoly":
                                                            a1, a2 = True, True
                                                        elif c == "SwapOutrecs":
                                                            a1, a2 = a2, a1
                                                    # definition of the counts after the crossing
                                                    if same:
                                                        if fill == "EvenOdd":
                                                            nw1, nw2 = w2, w1
                                                        else:
                                                            nw1 = farther(w1 + d2, _near(w1) + d2)
                                                            nw2 = farther(w2 - d1, _near(w2) - d1)
                                                        nc1, nc2 = c1, c2
                                                    else:
                                                        nw1, nw2 = w1, w2
                                                        if fill == "EvenOdd":
                                                            nc1, nc2 = 1 - c1, 1 - c2
                                                        else:
                                                            nc1, nc2 = c1 + d2, c2 - d1
                                                    want1 = oracle_closed(fill, ct, t1, nw1, nc1) if (fill != "EvenOdd" or True) else h1
                                                    want2 = oracle_closed(fill, ct, t2, nw2, nc2)
                                                    n += 1
                                                    ok = (a1, a2) == (want1, want2)
                                                    cell = {"fill": fill, "clip": ct, "types": (t1, t2), "dx": (d1, d2), "wc": (w1, w2), "wc2": (c1, c2),
                                                            "hot_before": (h1, h2), "e1_front": front1, "same_outrec": same_or, "calls": list(calls),
                                                            "hot_after": (a1, a2), "on_boundary_after": (want1, want2)}
                                                    chk.instance(rule, cell if n % 2003 == 1 else None, ok=ok)
                                                    if not ok:
                                                        bad.append(cell)
    if debug:
        return n, bad
    for cell in bad[:1]:
        chk.violation(rule, f.qual, "%s/%s/%s/dx=%s/wc=%s/wc2=%s" % (cell["clip"], cell["fill"], cell["types"], cell["dx"], cell["wc"], cell["wc2"]),
                      "after a crossing the edges that carry output are not the edges on the solution boundary (%d cell(s)); first: %s"
                      % (len(bad), cell), f.where, detail=bad[:10], cfg=cfg)
    return n


def _consistent_before(fill, same, d1, d2, w1, w2, c1, c2):
    """Geometric consistency of the counts of two AEL-adjacent edges e1 | e2 (e1 immediately left of e2) just below their
    crossing: the region between them is e1's right side and e2's left side."""
    def right_of(w, d):      # winding (own type) of the region to the right of an edge
        return w if w * d > 0 else _near(w)

    def left_of(w, d):
        return _near(w) if w * d > 0 else w
    if fill == "EvenOdd":
        if same:
            return c1 == c2
        # different types: the region between them: e2 sees e1's type on its left ... parity bookkeeping only
        return True
    if same:
        # same path type: the region between them has one own-type winding number, and the same other-type winding
        return right_of(w1, d1) == left_of(w2, d2) and c1 == c2
    # different types: e1's wind_cnt2 is the winding of e2's type in the region where e1 lies... e1 lies on the border of the
    # middle region, whose e2-type winding is left_of(w2, d2); likewise e2's wind_cnt2 is e1's type in the middle region
    return c1 == left_of(w2, d2) and c2 == right_of(w1, d1)


# ---------------------------------------------------------------------------
# DoHorizontal: when may a horizontal edge ignore the end of its own segment? (C05)
# ---------------------------------------------------------------------------

def horz_open_end_rule(db, chk, cfg, rule="HORZ.open-end"):
    """While a horizontal edge sweeps along the scanline it stops at the end of its own segment, except when it is a
    closed-path maximum that has to reach its maxima pair.  An open path ending in a horizontal segment has no pair:
    the end-of-segment tests must stay active for it (otherwise the open solution runs on past the subject's end)."""
    from ..astq import if_parts
    f = db.one("ClipperBase::DoHorizontal")
    site = None
    for x in walk(f.body):
        if x.get("kind") == "IfStmt":
            cond, then, els = if_parts(x)
            cs = canon(cond)
            if "vertex_max" in cs and "horz.vertex_top" in cs and any(y.get("kind") == "BreakStmt" for y in walk(then)):
                site = (x, cond)
                break
    if site is None:
        raise AnalysisBroken("the end-of-segment guard of DoHorizontal (`if (vertex_max != horz.vertex_top || ...)`) was not found")
    node, cond = site
    n = 0
    for at_max in (False, True):
        for open_end in (False, True):
            def hook(name, argv, nd, open_end=open_end):
                if name == "IsOpenEnd":
                    return open_end
                return NotImplemented
            env = {"vertex_max": 5 if at_max else 6, "horz.vertex_top": 5}
            try:
                got = bool(Interp(db, env, call_hook=hook).ev(cond))
            except Unsupported as e:
                raise AnalysisBroken("cannot interpret DoHorizontal's end-of-segment guard: %s" % e)
            want = (not at_max) or open_end
            n += 1
            chk.instance(rule, {"horz_is_the_maximum": at_max, "open_end": open_end, "end_of_segment_tests_active": got, "cfg": cfg}, ok=(got == want))
            if got != want:
                chk.violation(rule, f.qual, "max=%s/open_end=%s" % (at_max, open_end),
                              "the end-of-segment tests of a horizontal edge are %s when it %s the maximum and its end %s an open end; they may "
                              "only be skipped for a closed-path maximum heading for its maxima pair" %
                              ("active" if got else "skipped", "is" if at_max else "is not", "is" if open_end else "is not"), where(node), cfg=cfg)
    return n


# ---------------------------------------------------------------------------
# RectClip / RectClipLines: where is a point relative to the rectangle? (C08, C09)
# ---------------------------------------------------------------------------

def location_table(db, chk, cfg, rule="T.location"):
    """GetLocation(rec, pt, loc) on every weak ordering of pt.x against left < right and pt.y against top < bottom (25 cells):
    strictly inside -> true/Inside; on the boundary -> false and loc names an edge the point lies on; outside -> true and loc names
    a side the point lies beyond.  Both clippers add a vertex as 'inside' on the strength of this answer."""
    f = db.one("GetLocation")
    names = [p.get("name") for p in f.params]
    if len(names) != 3:
        raise AnalysisBroken("GetLocation: expected (rec, pt, loc)")
    rec, pt, loc = names
    loc_enum = None
    for en, vals in db.enums.items():
        if set(("Left", "Top", "Right", "Bottom", "Inside")) <= set(vals):
            loc_enum = (en, vals)
    if loc_enum is None:
        raise AnalysisBroken("enum Location {Left, Top, Right, Bottom, Inside} not found")
    L, R, T, B = 2, 4, 2, 4
    n = 0
    for x in (1, 2, 3, 4, 5):
        for y in (1, 2, 3, 4, 5):
            log = []
            env = {rec + ".left": SymVal(L, "left", log, group="order-x"), rec + ".right": SymVal(R, "right", log, group="order-x"),
                   rec + ".top": SymVal(T, "top", log, group="order-y"), rec + ".bottom": SymVal(B, "bottom", log, group="order-y"),
                   pt + ".x": SymVal(x, "pt.x", log, group="order-x"), pt + ".y": SymVal(y, "pt.y", log, group="order-y"),
                   loc: None}
            it = Interp(db, env, log)
            try:
                ret = bool(it.run_function(f))
            except Unsupported as e:
                raise AnalysisBroken("cannot interpret GetLocation: %s" % e)
            try:
                check_uniform(log, {})
            except CrossAxis as ca:
                chk.instance(rule, {"function": f.qual, "cross_axis": "%s vs %s" % (ca.a, ca.b), "cfg": cfg}, ok=False)
                chk.violation(rule, f.qual, "cross-axis|%s|%s" % (ca.a, ca.b), "GetLocation compares %s with %s (line %s): a coordinate of one axis against a bound of the "
                              "other - the classification is wrong for rectangles whose %s and %s are ordered the other way" % (ca.a, ca.b, ca.line, ca.b, ca.a.split(".")[-1]),
                              f.where, cfg=cfg)
                return 1
            got = it.env.get(loc)
            got_name = None
            for nm in loc_enum[1]:
                if got is not None and _raw_int(got) == _raw_int(it.enum_value(None, nm) if False else _enum_val(db, loc_enum[0], nm)):
                    got_name = nm
            inside_x = L < x < R
            inside_y = T < y < B
            in_closed = L <= x <= R and T <= y <= B
            if inside_x and inside_y:
                ok = ret and got_name == "Inside"
                want = "true / Inside"
            elif in_closed:
                on = set()
                if x == L:
                    on.add("Left")
                if x == R:
                    on.add("Right")
                if y == T:
                    on.add("Top")
                if y == B:
                    on.add("Bottom")
                ok = (not ret) and got_name in on
                want = "false / one of %s" % sorted(on)
            else:
                beyond = set()
                if x < L:
                    beyond.add("Left")
                if x > R:
                    beyond.add("Right")
                if y < T:
                    beyond.add("Top")
                if y > B:
                    beyond.add("Bottom")
                ok = ret and got_name in beyond
                want = "true / one of %s" % sorted(beyond)
            n += 1
            chk.instance(rule, {"pt.x": ["<left", "=left", "between", "=right", ">right"][x - 1], "pt.y": ["<top", "=top", "between", "=bottom", ">bottom"][y - 1],
                                "returns": ret, "loc": got_name, "cfg": cfg}, ok=ok)
            if not ok:
                chk.violation(rule, f.qual, "x%d/y%d" % (x, y), "GetLocation returns %s / %s for a point with x %s and y %s; the definition gives %s" %
                              (ret, got_name, ["< left", "== left", "between left and right", "== right", "> right"][x - 1],
                               ["< top", "== top", "between top and bottom", "== bottom", "> bottom"][y - 1], want), f.where, cfg=cfg)
    return n


def _raw_int(v):
    return v.v if isinstance(v, SymVal) else v


def _argtext(a):
    """canon() of an argument with a by-value copy construction removed."""
    a = strip(a)
    while a.get("kind") in ("CXXConstructExpr", "CXXTemporaryObjectExpr") and len(kids(a)) == 1:
        a = strip(kids(a)[0])
    return canon(a)


def _enum_val(db, enum_name, member):
    vals = db.enums[enum_name]
    return vals.index(member) if not isinstance(vals, dict) else vals[member]


def lines_dispatch(db, chk, cfg, rule="T.lines-dispatch"):
    """RectClipLines64::ExecuteInternal at a boundary crossing: a new piece starts exactly when the polyline enters the rectangle
    (the vertex before was not inside); entering adds the crossing as the first vertex of a new piece, leaving adds the crossing to
    the current piece, passing right through adds the first crossing as a new piece and the second crossing after it."""
    from ..astq import if_parts
    from ..evalx import _Continue, _Break
    f = db.one("RectClipLines64::ExecuteInternal")
    # the main loop, the crossing computed in it, and the dispatch = everything in the loop body after the statement that holds that call
    mainloop = None
    for x in kids(f.body):
        if x.get("kind") == "WhileStmt" and any(y.get("kind") in ("CallExpr", "CXXMemberCallExpr") and db.callee(y)[0] == "GetNextLocation" for y in walk(kids(x)[-1])):
            mainloop = x
    if mainloop is None:
        raise AnalysisBroken("main loop of RectClipLines64::ExecuteInternal not found")
    body = [x for x in kids(kids(mainloop)[-1]) if isinstance(x, dict) and x.get("kind")]
    main = None
    main_idx = None
    for idx, st in enumerate(body):
        cs = [y for y in walk(st) if y.get("kind") == "CallExpr" and db.callee(y)[0] == "GetIntersection"]
        if cs:
            main, main_idx = cs[0], idx
            break
    if main is None:
        raise AnalysisBroken("the GetIntersection call of the main loop of RectClipLines64::ExecuteInternal was not found")
    site_stmts = body[main_idx + 1:]
    if not any(y.get("kind") == "CXXMemberCallExpr" and db.callee(y)[0] == "Add" for st in site_stmts for y in walk(st)):
        raise AnalysisBroken("crossing dispatch (the Add calls after the boundary crossing was computed) not found in RectClipLines64::ExecuteInternal")
    site = site_stmts[0]
    loc_enum = None
    for en, vals in db.enums.items():
        if set(("Left", "Top", "Right", "Bottom", "Inside")) <= set(vals):
            loc_enum = (en, vals)
    if loc_enum is None:
        raise AnalysisBroken("enum Location not found")
    margs = [_argtext(a) for a in db.call_args(main)]
    n = 0
    vals = list(loc_enum[1])
    for prev in vals:
        for loc in vals:
            if prev == "Inside" and loc == "Inside":
                continue              # no crossing between two inside vertices
            if prev == loc and loc != "Inside":
                pass                  # both outside on the same side can still cross (corner regions) - the dispatch must cope
            calls = []

            def hook(name, argv, nd):
                if name == "Add":
                    a = [_argtext(z) for z in db.call_args(nd)]
                    new = False
                    if len(a) >= 2 and a[1] != "<default>":
                        new = argv[1] if argv is not None and len(argv) > 1 else a[1] == "true"
                    calls.append(("Add", a[0], bool(new)))
                    return None
                if name == "GetIntersection":
                    a = [_argtext(z) for z in db.call_args(nd)]
                    calls.append(("GetIntersection", a[1], a[2], a[4]))
                    return True
                return NotImplemented
            env = {"prev": _enum_val(db, loc_enum[0], prev), "loc": _enum_val(db, loc_enum[0], loc), "crossing_loc": 0,
                   "ip": "ip", "ip2": "ip2", "prev_pt": "prev_pt"}
            it = Interp(db, env, [], call_hook=hook)
            try:
                for st in site_stmts:
                    it.exec(st)
            except (_Continue, _Break):
                pass
            except Unsupported as e:
                raise AnalysisBroken("cannot interpret the crossing dispatch of RectClipLines64::ExecuteInternal: %s" % e)
            adds = [c for c in calls if c[0] == "Add"]
            gis = [c for c in calls if c[0] == "GetIntersection"]
            ip = margs[4]
            if loc == "Inside":
                want = [("Add", ip, True)]
                ok = adds == want and not gis
            elif prev != "Inside":
                ok = len(gis) == 1 and len(adds) == 2 and adds[0] == ("Add", gis[0][3], True) and adds[1] == ("Add", ip, False) and \
                    gis[0][1] == margs[2] and gis[0][2] == margs[1] and gis[0][3] != ip
                want = [("GetIntersection from the other end", margs[2], margs[1]), ("Add", "<first crossing>", True), ("Add", ip, False)]
            else:
                want = [("Add", ip, False)]
                ok = adds == want and not gis
            n += 1
            chk.instance(rule, {"prev": prev, "loc": loc, "calls": [list(c) for c in calls], "cfg": cfg}, ok=ok)
            if not ok:
                chk.violation(rule, f.qual, "%s->%s" % (prev, loc), "at a boundary crossing with the previous vertex %s and the current vertex %s the code does %s; "
                              "a piece must start exactly where the polyline enters the rectangle: expected %s" % (prev, loc, calls, want), where(site), cfg=cfg)
    return n


def lines_shortcuts(db, chk, cfg, rule="T.rect"):
    """How RectClipLines64::Execute uses the bounding-box predicates and in which order it emits the pieces."""
    from ..astq import if_parts
    f = db.one("RectClipLines64::Execute")
    loops = [x for x in kids(f.body) if x.get("kind") == "CXXForRangeStmt"]
    if len(loops) != 1:
        raise AnalysisBroken("path loop of RectClipLines64::Execute not found")
    lp = loops[0]
    lv = [d for d in walk(kids(lp)[-2]) if d.get("kind") == "VarDecl"][0].get("name")
    body = kids(lp)[-1]
    problems = []
    pre = [s for s in kids(f.body) if s is not lp]
    if not any(s.get("kind") == "IfStmt" and "IsEmpty()" in canon(if_parts(s)[0]) and "return" in canon(if_parts(s)[1]) for s in pre):
        problems.append("no `if (rect_.IsEmpty()) return result;` before the path loop")
    outside = None
    bounds_var = None
    seen_exec = False
    inner = None
    for s in kids(body):
        cs = canon(s)
        if s.get("kind") == "DeclStmt" and "GetBounds(%s)" % lv in cs:
            bounds_var = [d for d in kids(s) if d.get("kind") == "VarDecl"][0].get("name")
        if s.get("kind") == "IfStmt" and not seen_exec:
            cond, then, els = if_parts(s)
            cc = canon(cond)
            if "Intersects(" in cc:
                outside = (cc, canon(then))
        if any(x.get("kind") == "CXXMemberCallExpr" and db.callee(x)[0] == "ExecuteInternal" for x in walk(s)):
            seen_exec = True
            if "ExecuteInternal(%s)" % lv not in cs:
                problems.append("ExecuteInternal is not called with the current path")
        if s.get("kind") in ("CXXForRangeStmt", "ForStmt") and seen_exec:
            inner = s
    if bounds_var is None:
        problems.append("the bounds tested are not GetBounds(<the current path>)")
    if outside is None:
        problems.append("no `if (!rect_.Intersects(bounds)) continue;` before ExecuteInternal")
    else:
        if not outside[0].startswith("(!") or (bounds_var and "Intersects(%s)" % bounds_var not in outside[0]) or "continue" not in outside[1] or "emplace_back" in outside[1]:
            problems.append("the 'entirely outside' shortcut is not `if (!rect_.Intersects(<bounds of the path>)) continue;`: %s %s" % outside)
    if inner is None:
        problems.append("no loop over results_ after ExecuteInternal")
    else:
        ci = canon(inner)
        over_results = any(y.get("kind") == "MemberExpr" and y.get("name") == "results_" for y in walk(inner))
        if not over_results or "GetPath(" not in ci or not ("result.emplace_back" in ci or "result.push_back" in ci):
            problems.append("the pieces of a path are not appended to the result in the order of results_")
        if inner.get("kind") == "ForStmt":
            ik = kids(inner)
            hdr_init, hdr_cond, hdr_inc = canon(ik[0]) if ik[0] else "", canon(ik[2]) if ik[2] else "", canon(ik[3]) if ik[3] else ""
            forward = ("= 0" in hdr_init or "begin()" in hdr_init) and ("<" in hdr_cond or "!=" in hdr_cond) and ">" not in hdr_cond and \
                ("++" in hdr_inc or "+= 1" in hdr_inc) and "--" not in hdr_inc
            if not forward:
                problems.append("the loop over results_ does not run forward from the first piece (order of pieces): for (%s; %s; %s)" % (hdr_init, hdr_cond, hdr_inc))
    chk.instance(rule, {"function": f.qual, "shortcuts": "empty rect -> nothing; bounds disjoint -> skip; pieces appended path by path in results_ order", "cfg": cfg},
                 ok=not problems)
    if problems:
        chk.violation(rule, f.qual, "lines-shortcuts", "; ".join(problems), f.where, cfg=cfg)
    return 1


# ---------------------------------------------------------------------------
# RectClip / RectClipLines: the main scan starts at the first segment (C08, C09)
# ---------------------------------------------------------------------------

def scan_start_rule(db, chk, cfg, qual, expected, rule="SCAN.start"):
    """ExecuteInternal first looks for a vertex that is not on the rectangle's boundary (a pre-scan that may advance the cursor) and
    then walks the path segment by segment in its main loop.  Whatever the pre-scan did, the main loop must start at the first
    segment: the cursor has the constant value `expected` at the loop's first test on every path that reaches it (constant
    propagation of the cursor over the structured CFG).  Otherwise the leading segments are never clipped."""
    from ..flow import Walker, Client
    f = db.one(qual)
    main = None
    for x in kids(f.body):
        if x.get("kind") == "WhileStmt" and any(y.get("kind") in ("CallExpr", "CXXMemberCallExpr") and db.callee(y)[0] == "GetNextLocation" for y in walk(kids(x)[-1])):
            main = x
    if main is None:
        raise AnalysisBroken("%s: main loop (the top-level while that calls GetNextLocation) not found" % qual)
    cond = kids(main)[-2]
    cur = None
    for y in walk(cond):
        if y.get("kind") == "DeclRefExpr" and y.get("referencedDecl", {}).get("kind") == "VarDecl":
            cur = y["referencedDecl"]["name"]
            break
    if cur is None:
        raise AnalysisBroken("%s: cursor of the main loop not recognised" % qual)
    cond_ids = {id(y) for y in walk(cond)}
    seen = []

    class C(Client):
        def join(self, a, b):
            return a if a == b else "TOP"

        def _apply(self, node, st):
            for y in walk(node):
                k = y.get("kind")
                if k == "VarDecl" and y.get("name") == cur:
                    init = [c for c in kids(y) if isinstance(c, dict) and c.get("kind")]
                    v = strip(init[-1]) if init else None
                    st = ("const", int(v.get("value"))) if v is not None and v.get("kind") == "IntegerLiteral" else "TOP"
                elif k == "BinaryOperator" and y.get("opcode") == "=" and canon(kids(y)[0]) == cur:
                    v = strip(kids(y)[1])
                    st = ("const", int(v.get("value"))) if v.get("kind") == "IntegerLiteral" else "TOP"
                elif k in ("UnaryOperator", "CompoundAssignOperator") and y.get("opcode") in ("++", "--", "+=", "-=", "*=", "/=") \
                        and canon(kids(y)[0]) == cur:
                    st = "TOP"
                elif k in ("CallExpr", "CXXMemberCallExpr"):
                    # passed by non-const reference (GetNextLocation(path, loc, i, highI) advances the cursor)
                    g = db.callee_func(y)
                    for p, a in zip(g.params if g else [], db.call_args(y)):
                        if canon(a) == cur and "&" in qt(p) and "const" not in qt(p):
                            st = "TOP"
            return st

        def stmt(self, node, st):
            return self._apply(node, st)

        def cond_atom(self, expr, st):
            if id(expr) in cond_ids or any(id(y) in cond_ids for y in walk(expr)):
                if not seen:
                    seen.append(st)
            s = self._apply(expr, st)
            return s, s

    Walker(C()).function(f.body, "UNDEF")
    if not seen:
        raise AnalysisBroken("%s: the main loop's condition was never reached by the dataflow" % qual)
    got = seen[0]
    ok = got == ("const", expected)
    chk.instance(rule, {"function": f.qual, "cursor": cur, "value_at_first_test_of_the_main_loop": got if got in ("TOP", "UNDEF") else got[1],
                        "expected": expected, "cfg": cfg}, ok=ok)
    if not ok:
        chk.violation(rule, f.qual, cur, "the main loop of %s does not certainly start at the first segment: its cursor `%s` is %s at the loop's first "
                      "test (must be the constant %d on every path): a pre-scan that advanced it is not undone, so leading segments are skipped"
                      % (f.qual, cur, "not a known constant" if got == "TOP" else ("unset" if got == "UNDEF" else "the constant %d" % got[1]), expected),
                      where(main), cfg=cfg)
    return 1


# ---------------------------------------------------------------------------
# DoSplitOp: the intersection vertex is inserted only where it is a new vertex (C03)
# ---------------------------------------------------------------------------

def split_insert_rule(db, chk, cfg, rule="SPLIT.no-duplicate"):
    """When DoSplitOp removes a micro self-intersection it re-joins prevOp and nextNextOp, inserting the (rounded) intersection
    point between them - but only if it differs from both: a copy of prevOp->pt or nextNextOp->pt next to the original would be a
    repeated vertex in the solution (the path builders only drop repeats inside their walk, not last against first)."""
    from ..astq import if_parts
    f = db.one("ClipperBase::DoSplitOp")
    sites = []
    for x in walk(f.body):
        if x.get("kind") == "IfStmt":
            cond, then, els = if_parts(x)
            if els is None:
                continue
            new_then = [y for y in walk(then) if y.get("kind") == "CXXNewExpr" and "OutPt" in qt(y)]
            new_else = [y for y in walk(els) if y.get("kind") == "CXXNewExpr" and "OutPt" in qt(y)]
            ct = canon(cond)
            if (bool(new_then) != bool(new_else)) and "ip" in ct and "prevOp" in canon(x) and "nextNextOp" in canon(x) and "OutRec" not in ct:
                sites.append((x, cond, bool(new_then)))
    if len(sites) != 1:
        raise AnalysisBroken("DoSplitOp: the branch that either links prevOp to nextNextOp directly or inserts the intersection point between them "
                             "was not found uniquely (%d)" % len(sites))
    node, cond, insert_when_true = sites[0]
    n = 0
    for eq_prev in (False, True):
        for eq_nn in (False, True):
            def hook(name, argv, nd, eq_prev=eq_prev, eq_nn=eq_nn):
                if name in ("operator==", "operator!="):
                    a = sorted(canon(z) for z in db.call_args(nd))
                    if a == sorted(["ip", "prevOp->pt"]):
                        r = eq_prev
                    elif a == sorted(["ip", "nextNextOp->pt"]):
                        r = eq_nn
                    else:
                        return NotImplemented
                    return r if name == "operator==" else (not r)
                return NotImplemented
            it = Interp(db, {}, [], call_hook=hook)
            try:
                c = bool(_eval_with_opaque(it, cond))
            except Unsupported as e:
                raise AnalysisBroken("cannot interpret DoSplitOp's insertion guard: %s" % e)
            inserted = c if insert_when_true else (not c)
            want = (not eq_prev) and (not eq_nn)
            n += 1
            chk.instance(rule, {"ip_equals_prevOp": eq_prev, "ip_equals_nextNextOp": eq_nn, "new_vertex_inserted": inserted, "cfg": cfg}, ok=(inserted == want))
            if inserted != want:
                chk.violation(rule, f.qual, "prev=%s/nn=%s" % (eq_prev, eq_nn), "DoSplitOp %s the intersection point when ip %s prevOp->pt and ip %s nextNextOp->pt; "
                              "it must be inserted exactly when it differs from both neighbours (otherwise the solution gets a repeated vertex, or loses "
                              "the crossing point)" % ("inserts" if inserted else "does not insert", "==" if eq_prev else "!=", "==" if eq_nn else "!="),
                              where(node), cfg=cfg)
    return n


# ---------------------------------------------------------------------------
# Point equality means "same position" (C13: duplicate / closing vertices; C03)
# ---------------------------------------------------------------------------

def point_equality_table(db, chk, cfg, rule="T.point-equality"):
    """The engine uses `==` / `!=` on points to mean "same (x, y)": AddPaths_ drops repeated and closing vertices with it, AddOutPt,
    CleanCollinear and the path builders suppress repeated output vertices with it.  operator== of Point<int64_t> and Point<double>
    is interpreted on all equal/different combinations of x, y (and z in USINGZ builds): true iff x and y agree - z must not matter -
    and operator!= is its negation."""
    n = 0
    found = 0
    for f in db.funcs:
        if f.name not in ("operator==", "operator!=") or f.body is None or f.is_pattern or len(f.params) != 2:
            continue
        if "Point<" not in qt(f.params[0]) and "Point<" not in dqt(f.params[0]):
            continue
        found += 1
        a, b = f.params[0]["name"], f.params[1]["name"]
        for dx in (0, 1):
            for dy in (0, 1):
                for dz in (0, 1):
                    env = {a + ".x": 5, a + ".y": 7, a + ".z": 9, b + ".x": 5 + dx, b + ".y": 7 + dy, b + ".z": 9 + dz}
                    try:
                        got = bool(Interp(db, env).run_function(f))
                    except Unsupported as e:
                        raise AnalysisBroken("cannot interpret %s: %s" % (f.qual, e))
                    want = (dx == 0 and dy == 0)
                    if f.name == "operator!=":
                        want = not want
                    n += 1
                    chk.instance(rule, {"function": f.qual, "sig": f.sig[:50], "x_differs": bool(dx), "y_differs": bool(dy), "z_differs": bool(dz), "result": got,
                                        "cfg": cfg} if n % 4 == 1 else None, ok=(got == want))
                    if got != want:
                        chk.violation(rule, f.qual, "%s|dx%d dy%d dz%d" % (f.sig[:30], dx, dy, dz),
                                      "%s returns %s for points whose x %s, y %s and z %s: point equality must mean 'same x and y' (a vertex repeated with "
                                      "another z is still a repeated vertex)" % (f.name, got, "differ" if dx else "agree", "differ" if dy else "agree",
                                                                                 "differ" if dz else "agree"), f.where, cfg=cfg)
    if found < 4:
        raise AnalysisBroken("operator== / operator!= of Point<int64_t> and Point<double> not all found (%d)" % found)
    return n


# ---------------------------------------------------------------------------
# PointInPolygon: the predecessor of the first vertex is the container's last vertex (C18)
# ---------------------------------------------------------------------------

def _unparen(t):
    """Remove balanced outer parentheses of a canonical expression text."""
    while t.startswith("(") and t.endswith(")"):
        depth = 0
        ok = True
        for i, ch in enumerate(t):
            if ch == "(":
                depth += 1
            elif ch == ")":
                depth -= 1
                if depth == 0 and i != len(t) - 1:
                    ok = False
                    break
        if not ok:
            break
        t = t[1:-1]
    return t


def pip_wrap_rule(db, chk, cfg, rule="WRAP.container-end"):
    """PointInPolygon walks the polygon cyclically from an arbitrary start vertex and moves its local end marker while it does so.
    When the cursor stands on the first element the predecessor is the *container's* last element: every `prev = E - 1` must take E
    from polygon.cend() / end() - directly, or through a local all of whose reaching definitions are that call (reaching-definitions
    dataflow over the structured CFG).  A moved end marker there makes the edge that closes the polygon start at the wrong vertex."""
    from ..flow import Walker, Client
    n = 0
    for f in db.find("PointInPolygon"):
        if len(f.params) != 2:
            continue
        poly = f.params[1]["name"]
        ends = ("%s.cend()" % poly, "%s.end()" % poly)
        sites = []

        class C(Client):
            def join(self, a, b):
                keys = set(a) | set(b)
                return {k: frozenset(a.get(k, frozenset({"?"}))) | frozenset(b.get(k, frozenset({"?"}))) for k in keys}

            def equal(self, a, b):
                return a == b

            def _apply(self, node, st):
                for y in walk(node):
                    k = y.get("kind")
                    if k == "VarDecl" and y.get("name"):
                        init = [c for c in kids(y) if isinstance(c, dict) and c.get("kind")]
                        st = dict(st)
                        st[y["name"]] = frozenset({_unparen(canon(init[-1])) if init else "?"})
                    elif k in ("BinaryOperator", "CXXOperatorCallExpr"):
                        l = r = None
                        if k == "BinaryOperator" and y.get("opcode") == "=":
                            l, r = kids(y)
                        elif k == "CXXOperatorCallExpr" and len(kids(y)) == 3 and strip(kids(y)[0]).get("referencedDecl", {}).get("name") == "operator=":
                            l, r = kids(y)[1], kids(y)[2]
                        if l is None or strip(l).get("kind") != "DeclRefExpr":
                            continue
                        name = canon(l)
                        rs = strip(r)
                        # any `E - 1` inside the right-hand side (directly or in the arms of a conditional expression)
                        for z in walk(r):
                            minus = None
                            if z.get("kind") == "CXXOperatorCallExpr" and strip(kids(z)[0]).get("referencedDecl", {}).get("name") == "operator-" and len(kids(z)) == 3:
                                minus = (kids(z)[1], kids(z)[2])
                            elif z.get("kind") == "BinaryOperator" and z.get("opcode") == "-":
                                minus = tuple(kids(z))
                            if minus and canon(minus[1]) == "1":
                                e = _unparen(canon(minus[0]))
                                if e in ends:
                                    sites.append((y, e, frozenset({e})))
                                elif e in st:
                                    sites.append((y, e, st[e]))
                                elif "end" in e.split("->")[-1]:
                                    sites.append((y, e, frozenset({"?"})))
                        st = dict(st)
                        st[name] = frozenset({_unparen(canon(r))})
                return st

            def stmt(self, node, st):
                return self._apply(node, st)

            def cond_atom(self, expr, st):
                s = self._apply(expr, st)
                return s, s
        Walker(C()).function(f.body, {})
        # keep the sites whose base is an end marker (a local defined from polygon.cend() somewhere, or the call itself)
        wraps = [(y, e, defs) for y, e, defs in sites if e in ends or any(d in ends for d in defs) or "end" in e]
        if not wraps:
            raise AnalysisBroken("%s: no wrap-around predecessor (`prev = <end> - 1`) found" % f.qual)
        seen = set()
        for y, e, defs in wraps:
            key = (where(y), e)
            if key in seen:
                continue
            seen.add(key)
            ok = all(d in ends for d in defs)
            n += 1
            chk.instance(rule, {"function": f.qual, "sig": f.sig[:60], "statement": canon(y)[:60], "reaching_definitions": sorted(defs), "cfg": cfg}, ok=ok)
            if not ok:
                chk.violation(rule, f.qual, "%s|%s" % (f.sig[:40], e), "`%s`: `%s` can hold %s here, not only the container's end: when the cursor stands on the first "
                              "vertex its predecessor must be the polygon's last vertex (the local end marker is moved to the start vertex during the "
                              "walk)" % (canon(y)[:70], e, sorted(d for d in defs if d not in ends)), where(y), cfg=cfg)
    if n == 0:
        raise AnalysisBroken("PointInPolygon not found")
    return n


# ---------------------------------------------------------------------------
# AddNewIntersectNode: a corrected intersection point stays on an edge (C01)
# ---------------------------------------------------------------------------

def ip_on_edge_rule(db, chk, cfg, rule="IP.on-edge"):
    """AddNewIntersectNode corrects an intersection point that rounding placed outside its scanbeam.  When it clamps the point's y to
    the scanbeam (the branch for two steep edges) it recomputes x on one of the two edges *at that y*: the corrected point must lie
    on an edge.  The correction block is interpreted for a point above and a point below the scanbeam and both steepness orders: ip.y
    becomes top_y resp. bot_y_, and ip.x == TopX(e1 or e2, the new ip.y)."""
    f = db.one("ClipperBase::AddNewIntersectNode")
    site = None
    for s in kids(f.body):
        if s.get("kind") == "IfStmt":
            c = canon(if_parts(s)[0])
            if "ip.y" in c and "top_y" in c and "bot_y_" in c:
                site = s
    if site is None:
        raise AnalysisBroken("AddNewIntersectNode: the out-of-scanbeam correction `if (ip.y > bot_y_ || ip.y < top_y)` not found")
    TOP, BOT = 10, 20
    n = 0
    for y0, want_y in ((TOP - 3, TOP), (BOT + 3, BOT)):
        for d1, d2 in ((0.5, 2.0), (2.0, 0.5)):
            box = [None]

            def hook(name, argv, nd):
                if name in ("fabs", "abs"):
                    a = db.call_args(nd)[0]
                    t = canon(a)
                    return d1 if "e1" in t else (d2 if "e2" in t else NotImplemented)
                if name == "TopX":
                    a = db.call_args(nd)
                    try:
                        yv = box[0].ev(a[1])
                    except Unsupported:
                        yv = canon(a[1])
                    try:
                        ev = box[0].ev(a[0])
                    except Unsupported:
                        ev = canon(a[0])
                    return ("TopX", str(ev), yv)
                return NotImplemented
            # (curr_x of an edge in the active list is its x at the top of the scanbeam: AdjustCurrXAndCopyToSEL(top_y))
            it = Interp(db, {"ip.y": y0, "ip.x": 0, "top_y": TOP, "bot_y_": BOT, "e1.dx": d1, "e2.dx": d2,
                             "e1.curr_x": ("TopX", "e1", TOP), "e2.curr_x": ("TopX", "e2", TOP)}, call_hook=hook)
            box[0] = it
            try:
                it.exec(site)
            except Unsupported as e:
                raise AnalysisBroken("cannot interpret the correction block of AddNewIntersectNode: %s" % e)
            gy, gx = it.env.get("ip.y"), it.env.get("ip.x")
            ok = gy == want_y and isinstance(gx, tuple) and gx[0] == "TopX" and gx[2] == gy
            n += 1
            chk.instance(rule, {"ip.y_before": "above the scanbeam" if y0 < TOP else "below the scanbeam", "|dx1|,|dx2|": (d1, d2), "ip.y_after": gy,
                                "ip.x_after": str(gx), "cfg": cfg}, ok=ok)
            if not ok:
                chk.violation(rule, f.qual, "y%s/dx%s" % ("<top" if y0 < TOP else ">bot", (d1, d2)),
                              "an intersection computed %s the scanbeam [top_y=%d, bot_y_=%d] is corrected to y=%s, x=%s: y must become %d and x must be "
                              "TopX(<one of the two edges>, that same y) - otherwise the vertex is moved off both edges" %
                              ("above" if y0 < TOP else "below", TOP, BOT, gy, gx, want_y), where(site), cfg=cfg)
    return n




# ---------------------------------------------------------------------------
# RectClip: arithmetic on the four sides of the rectangle (C08)
# ---------------------------------------------------------------------------

def side_algebra_tables(db, chk, cfg, rule="T.side-algebra"):
    """The clipper walks around the rectangle through its sides Left(0) -> Top(1) -> Right(2) -> Bottom(3) -> Left (clockwise).  The
    helpers that do this arithmetic are total functions on a four-element domain and are decided exhaustively:
    GetAdjacentLocation(l, cw) == l+1 (cw) / l-1 (ccw) mod 4;  HeadingClockwise(p, c) <=> c == p+1 mod 4;  AreOpposites(p, c) <=>
    c == p+2 mod 4;  one step of StartLocsAreClockwise adds +1 for a clockwise step, -1 for a counter-clockwise one, 0 otherwise, and
    the verdict is `sum > 0`."""
    loc_enum = None
    for en, vals in db.enums.items():
        if set(("Left", "Top", "Right", "Bottom", "Inside")) <= set(vals):
            loc_enum = list(vals)
    if loc_enum is None or loc_enum[:4] != ["Left", "Top", "Right", "Bottom"]:
        raise AnalysisBroken("enum Location {Left, Top, Right, Bottom, Inside} not found in that order")
    n = 0

    def report(f, key, msg, ok, cell):
        chk.instance(rule, dict(cell, function=f.qual, cfg=cfg), ok=ok)
        if not ok:
            chk.violation(rule, f.qual, key, msg, f.where, cfg=cfg)

    f = db.one("GetAdjacentLocation")
    a, b = [p["name"] for p in f.params]
    for l in range(4):
        for cw in (False, True):
            try:
                got = Interp(db, {a: l, b: cw}).run_function(f)
            except Unsupported as e:
                raise AnalysisBroken("cannot interpret GetAdjacentLocation: %s" % e)
            want = (l + (1 if cw else 3)) % 4
            n += 1
            report(f, "%d/%s" % (l, cw), "GetAdjacentLocation(%s, clockwise=%s) returns %s, the %s neighbour is %s" %
                   (loc_enum[l], cw, loc_enum[got] if isinstance(got, int) and 0 <= got < 5 else got, "clockwise" if cw else "counter-clockwise", loc_enum[want]),
                   got == want, {"loc": loc_enum[l], "clockwise": cw, "result": got})
    for q, pred, what in (("HeadingClockwise", lambda p, c: c == (p + 1) % 4, "the clockwise neighbour of"),
                          ("AreOpposites", lambda p, c: c == (p + 2) % 4, "opposite to")):
        f = db.one(q)
        a, b = [p["name"] for p in f.params]
        for p0 in range(4):
            for c0 in range(4):
                try:
                    got = bool(Interp(db, {a: p0, b: c0}).run_function(f))
                except Unsupported as e:
                    raise AnalysisBroken("cannot interpret %s: %s" % (q, e))
                n += 1
                report(f, "%d/%d" % (p0, c0), "%s(%s, %s) returns %s but %s is %s%s %s" % (q, loc_enum[p0], loc_enum[c0], got, loc_enum[c0],
                       "" if pred(p0, c0) else "not ", what, loc_enum[p0]), got == pred(p0, c0), {"prev": loc_enum[p0], "curr": loc_enum[c0], "result": got})
    # StartLocsAreClockwise: one step of the accumulation, and the verdict
    f = db.one("StartLocsAreClockwise")
    vec = f.params[0]["name"]
    loops = [x for x in kids(f.body) if x.get("kind") in ("ForStmt", "CXXForRangeStmt", "WhileStmt")]
    if len(loops) != 1:
        raise AnalysisBroken("StartLocsAreClockwise: accumulation loop not found")
    body = kids(loops[0])[-1]
    acc = None
    for s0 in kids(f.body):
        if s0.get("kind") == "ReturnStmt":
            for y in walk(s0):
                if y.get("kind") == "DeclRefExpr" and y.get("referencedDecl", {}).get("kind") == "VarDecl":
                    acc = y["referencedDecl"]["name"]
    if acc is None:
        raise AnalysisBroken("StartLocsAreClockwise: accumulator not recognised")
    for p0 in range(4):
        for c0 in range(4):
            def hook(name, argv, nd, p0=p0, c0=c0):
                if name == "operator[]" and canon(db.call_args(nd)[0]) == vec:
                    idx = canon(db.call_args(nd)[1])
                    return p0 if "- 1" in idx else c0
                return NotImplemented
            it = Interp(db, {acc: 0, "i": 1}, call_hook=hook)
            try:
                it.exec(body)
            except Unsupported as e:
                raise AnalysisBroken("cannot interpret the loop body of StartLocsAreClockwise: %s" % e)
            got = it.env.get(acc)
            d = (c0 - p0) % 4
            want = 1 if d == 1 else (-1 if d == 3 else 0)
            n += 1
            report(f, "step %d->%d" % (p0, c0), "a step from %s to %s changes the clockwise count by %s; the definition gives %+d (clockwise is "
                   "Left->Top->Right->Bottom->Left)" % (loc_enum[p0], loc_enum[c0], got, want), got == want, {"step": [loc_enum[p0], loc_enum[c0]], "count_change": got})
    rets = [s0 for s0 in kids(f.body) if s0.get("kind") == "ReturnStmt"]
    for v in (-2, -1, 0, 1, 2):
        try:
            got = bool(Interp(db, {acc: v}).ev(kids(rets[-1])[0]))
        except Unsupported as e:
            raise AnalysisBroken("cannot interpret the verdict of StartLocsAreClockwise: %s" % e)
        n += 1
        report(f, "verdict %d" % v, "StartLocsAreClockwise answers %s for a net count of %d" % (got, v), got == (v > 0), {"net_count": v, "clockwise": got})
    return n


# ---------------------------------------------------------------------------
# GetBounds: every vertex is considered for the minimum and for the maximum (C11 range check, C08/C09 shortcuts, C20)
# ---------------------------------------------------------------------------

def bounds_update_table(db, chk, cfg, rule="BOUNDS.minmax"):
    """Every GetBounds overload accumulates min and max of x and of y over all vertices, starting from the sentinels (min = largest,
    max = lowest value).  The per-vertex update (the innermost loop body) is interpreted on the four situations a coordinate can be
    in - below the current minimum, between, above the current maximum, and *both at once* in the sentinel state - and must leave
    min' = min(min, v) and max' = max(max, v).  The bounds feed the range check of ScalePaths (C11) and the bounding-box shortcuts of
    RectClip / RectClipLines."""
    n = 0
    nfun = 0
    SENT_MIN, SENT_MAX = 10 ** 30, -10 ** 30
    for f in db.find("GetBounds"):
        if f.body is None or len(f.params) != 1:
            continue
        loops = [x for x in walk(f.body) if x.get("kind") in ("CXXForRangeStmt", "ForStmt")]
        if not loops:
            continue
        inner = loops[-1]
        body = kids(inner)[-1]
        lv = None
        sep = "."
        if inner.get("kind") == "CXXForRangeStmt":
            ds = [d for d in walk(kids(inner)[-2]) if d.get("kind") == "VarDecl"]
            lv = ds[0].get("name") if ds else None
        elif kids(inner) and isinstance(kids(inner)[0], dict) and kids(inner)[0].get("kind") == "DeclStmt":
            # an iterator loop: the element is reached through the iterator declared in the for-init
            ds = [d for d in kids(kids(inner)[0]) if d.get("kind") == "VarDecl"]
            lv = ds[0].get("name") if ds else None
            sep = "->"
        if lv is None:
            raise AnalysisBroken("GetBounds %s: loop variable not recognised" % f.sig[:60])
        # the four accumulators, by the comparisons the update makes:  v.c < A  -> A is the minimum of c;  v.c > A  -> the maximum
        amin = {"x": [], "y": []}
        amax = {"x": [], "y": []}
        # the element may also be reached through an alias declared in the body (`const Point<T>& p = *it;`)
        alias_decl = None
        for s0 in (kids(body) if body.get("kind") == "CompoundStmt" else []):
            if isinstance(s0, dict) and s0.get("kind") == "DeclStmt" and len(kids(s0)) == 1 and "&" in (qt(kids(s0)[0]) or "") and "Point<" in (dqt(kids(s0)[0]) or ""):
                init = [c0 for c0 in kids(kids(s0)[0]) if isinstance(c0, dict) and c0.get("kind")]
                if init and re.sub(r"[()*]", "", canon(init[-1])) == lv:
                    alias_decl = s0
                    lv, sep = kids(s0)[0].get("name"), "."
        for y in walk(body):
            if y.get("kind") == "BinaryOperator" and y.get("opcode") in ("<", ">", "<=", ">="):
                a0, a1 = canon(kids(y)[0]), canon(kids(y)[1])
                op = y.get("opcode")[0]
                for c in "xy":
                    vc = "%s%s%s" % (lv, sep, c)
                    if a0 == vc and strip(kids(y)[1]).get("kind") == "DeclRefExpr":
                        (amin if op == "<" else amax)[c].append(a1)
                    elif a1 == vc and strip(kids(y)[0]).get("kind") == "DeclRefExpr":
                        (amin if op == ">" else amax)[c].append(a0)
        if alias_decl is not None:
            body = {"kind": "CompoundStmt", "inner": [s0 for s0 in kids(body) if s0 is not alias_decl]}
        for c in "xy":
            amin[c] = sorted(set(amin[c]))
            amax[c] = sorted(set(amax[c]))
        if not all(len(amin[c]) == 1 and len(amax[c]) == 1 for c in "xy"):
            raise AnalysisBroken("GetBounds %s: the four min / max accumulators were not recognised (%s, %s)" % (f.sig[:60], amin, amax))
        nfun += 1
        # the sentinels: a minimum starts at the largest value of its type, a maximum at the *lowest* (for a floating type
        # numeric_limits::min() is the smallest positive value, not the lowest)
        decls = {d.get("name"): d for d in walk(f.body) if d.get("kind") == "VarDecl"}
        for c in "xy":
            for acc, role in ((amin[c][0], "min"), (amax[c][0], "max")):
                d = decls.get(acc)
                init = [c0 for c0 in kids(d) if isinstance(c0, dict) and c0.get("kind")] if d else []
                if not init:
                    continue
                t0 = canon(init[-1]).replace(" ", "")
                floating = any(w in (dqt(d) or "") for w in ("double", "float"))
                neg = t0.startswith("-") or t0.startswith("(-")
                if "lowest" in t0:
                    cls = "HIGH" if neg else "LOW"
                elif re.search(r"\bmax\b|_MAX\b", t0):
                    cls = "LOW" if neg else "HIGH"
                elif re.search(r"\bmin\b|_MIN\b", t0):
                    cls = ("TINY" if floating else "LOW") if not neg else ("TINY" if floating else "HIGH")
                else:
                    continue
                n += 1
                ok = cls == ("HIGH" if role == "min" else "LOW")
                chk.instance(rule, {"function": f.qual, "sig": f.sig[:60], "accumulator": acc, "starts_at": t0[:40], "cfg": cfg} if not ok else None, ok=ok)
                if not ok:
                    chk.violation(rule, f.qual.split("<")[0], "%s|%s|sentinel" % (f.sig[:40], acc),
                                  "%s: the %simum accumulator `%s` (%s) starts at `%s`%s: a path lying entirely on the other side of that value never moves it"
                                  % (f.sig[:70], role, acc, dqt(d), t0[:40], ", which for a floating type is the smallest *positive* value, not the lowest" if cls == "TINY" else ""),
                                  where(d), cfg=cfg)
        for c in "xy":
            for lo, hi, v, what in ((10, 20, 5, "below the current minimum"), (10, 20, 15, "between"), (10, 20, 25, "above the current maximum"),
                                    (SENT_MIN, SENT_MAX, 7, "first vertex (sentinel state)")):
                env = {amin["x"][0]: 10, amax["x"][0]: 20, amin["y"][0]: 10, amax["y"][0]: 20, lv + ".x": 15, lv + ".y": 15, lv + "->x": 15, lv + "->y": 15}
                env[amin[c][0]], env[amax[c][0]] = lo, hi
                env[lv + "." + c] = v
                env[lv + "->" + c] = v
                it = Interp(db, env)
                try:
                    it.exec(body)
                except Unsupported as e:
                    raise AnalysisBroken("cannot interpret the vertex update of GetBounds %s: %s" % (f.sig[:60], e))
                gmin, gmax = it.env[amin[c][0]], it.env[amax[c][0]]
                ok = gmin == min(lo, v) and gmax == max(hi, v)
                n += 1
                chk.instance(rule, {"function": f.qual, "sig": f.sig[:60], "coordinate": c, "vertex": what, "min_after": gmin if abs(gmin) < 10 ** 29 else "sentinel",
                                    "max_after": gmax if abs(gmax) < 10 ** 29 else "sentinel", "cfg": cfg} if n % 3 == 1 else None, ok=ok)
                if not ok:
                    chk.violation(rule, f.qual.split("<")[0], "%s|%s|%s" % (f.sig[:40], c, what.split(" ")[0]),
                                  "%s: a vertex whose %s is %s leaves %s=%s, %s=%s; both the minimum and the maximum must take every vertex into account "
                                  "(min' = min(min, v), max' = max(max, v))" % (f.sig[:70], c, what, amin[c][0], gmin if abs(gmin) < 10 ** 29 else "<sentinel>",
                                                                              amax[c][0], gmax if abs(gmax) < 10 ** 29 else "<sentinel>"), where(inner), cfg=cfg)
    if nfun < 4:
        raise AnalysisBroken("BOUNDS.minmax: only %d GetBounds overloads with a vertex loop found" % nfun)
    return n


# ---------------------------------------------------------------------------
# AXIS.mirror: twin computations for x and y use mirrored inputs (C18, C13 transposition)
# ---------------------------------------------------------------------------

def _axis_swapname(n):
    t = n.replace("x", "\\0").replace("y", "x").replace("\\0", "y")
    return t


def axis_mirror_rule(db, chk, cfg, rule="AXIS.mirror"):
    """Where a function declares twin locals for the two axes (names that differ only by x <-> y: bb0minx / bb0miny, originx / originy,
    hitx / hity ...), the coordinates and twin locals their initialisers read must be mirror images of each other (multisets of `.x` /
    `.y` member accesses and of axis-named locals).  A twin that reads the other axis breaks the symmetry of the code under
    transposition of the input - the classic copy-and-edit slip.  Operand order, min/max spelling and signs do not matter."""
    import re as _r
    n = 0
    for f in db.funcs:
        if f.body is None or f.is_pattern or "Clipper2Lib" not in (f.file or ""):
            continue
        decls = {}
        for d in walk(f.body):
            if d.get("kind") == "VarDecl" and d.get("name"):
                init = [c for c in kids(d) if isinstance(c, dict) and c.get("kind")]
                if init:
                    decls.setdefault(d["name"], (d, init[-1]))

        def axes(e):
            out = []
            for y in walk(e):
                k = y.get("kind")
                if k == "MemberExpr" and y.get("name") in ("x", "y"):
                    out.append(y.get("name"))
                elif k == "DeclRefExpr":
                    nm = y.get("referencedDecl", {}).get("name") or ""
                    if nm in decls and _axis_swapname(nm) in decls and _axis_swapname(nm) != nm:
                        out.append("v:" + nm)
            return sorted(out)

        def mirror(a):
            return sorted(("y" if t == "x" else "x") if t in ("x", "y") else "v:" + _axis_swapname(t[2:]) for t in a)
        for nm, (d, init) in sorted(decls.items()):
            sn = _axis_swapname(nm)
            if sn == nm or sn not in decls or nm > sn or "x" not in nm:
                continue
            ax, ay = axes(init), axes(decls[sn][1])
            if not ax and not ay:
                continue
            n += 1
            ok = mirror(ax) == ay
            chk.instance(rule, {"function": f.qual, "twins": [nm, sn], "reads": [ax, ay], "cfg": cfg}, ok=ok)
            if not ok:
                chk.violation(rule, f.qual.split("<")[0], "%s/%s" % (nm, sn), "the twin locals `%s` and `%s` do not read mirrored inputs: `%s` reads %s, `%s` reads %s "
                              "(expected %s) - one of the two was probably copied from the other and not fully edited" %
                              (nm, sn, nm, ax, sn, ay, mirror(ax)), where(decls[sn][0]), cfg=cfg)
    return n


# ---------------------------------------------------------------------------
# Path1InsidePath2: the vertex vote that decides nesting (C04)
# ---------------------------------------------------------------------------

def inside_vote_table(db, chk, cfg, rule="T.inside-vote"):
    """Ownership in a PolyTree is decided by Path1InsidePath2: the vertices of path1 vote (outside +1, inside -1, on the boundary 0); a
    lead of two is decisive (inside iff the count is negative) and only an equivocal count falls back on the bounding-box midpoint
    - which is unreliable for non-convex rings, so a clear vote must not be sent there.  Decided: one step of the vote for the three
    PointInPolygon answers, and the verdict for every count in -3..3."""
    from ..evalx import _Return, _Break, _Continue
    f = db.one("Path1InsidePath2")
    loops = [x for x in kids(f.body) if x.get("kind") in ("DoStmt", "WhileStmt", "ForStmt")]
    if len(loops) != 1:
        raise AnalysisBroken("Path1InsidePath2: vote loop not found")
    lp = loops[0]
    body = kids(lp)[0] if lp.get("kind") == "DoStmt" else kids(lp)[-1]
    pip = db.enum("PointInPolygonResult")
    cnt = None
    for y in walk(body):
        if y.get("kind") == "UnaryOperator" and y.get("opcode") in ("++", "--") or (y.get("kind") == "CompoundAssignOperator"):
            cnt = canon(kids(y)[0])
            break
    if cnt is None:
        raise AnalysisBroken("Path1InsidePath2: vote counter not recognised")
    n = 0
    for name, want in (("IsOutside", 1), ("IsInside", -1), ("IsOn", 0)):
        def hook(nm, argv, nd, name=name):
            if nm in ("PointInOpPolygon", "PointInPolygon"):
                return pip.index(name)
            return NotImplemented
        it = Interp(db, {cnt: 0, "op": Ref("OP"), "OP.next": Ref("OP2"), "OP.pt": 0, "op->next": Ref("OP2"), "op->pt": 0, "op2": Ref("P2")}, call_hook=hook)
        try:
            it.exec(body)
        except Unsupported as e:
            raise AnalysisBroken("cannot interpret the vote step of Path1InsidePath2: %s" % e)
        got = it.env.get(cnt)
        n += 1
        chk.instance(rule, {"vertex_is": name, "count_change": got, "cfg": cfg}, ok=(got == want))
        if got != want:
            chk.violation(rule, f.qual, "step|" + name, "a vertex that PointInPolygon reports as %s changes the outside count by %s (must be %+d)" % (name, got, want),
                          where(lp), cfg=cfg)
    # the verdict: statements after the loop
    after = kids(f.body)[kids(f.body).index(lp) + 1:]
    for v in (-3, -2, -1, 0, 1, 2, 3):
        fell = {"fallback": False}

        def hook2(nm, argv, nd):
            if nm in ("GetBounds", "GetCleanPath", "MidPoint", "PointInPolygon", "PointInOpPolygon"):
                fell["fallback"] = True
                return 0
            return NotImplemented
        it = Interp(db, {cnt: v}, call_hook=hook2)
        verdict = None
        try:
            for s0 in after:
                it.exec(s0)
                if fell["fallback"]:
                    break
        except _Return as r:
            verdict = r.v
        except Unsupported:
            if not fell["fallback"]:
                raise AnalysisBroken("cannot interpret the verdict of Path1InsidePath2 for a count of %d" % v)
        if fell["fallback"]:
            verdict = "fallback"
        want = True if v <= -2 else (False if v >= 2 else "fallback")
        if verdict not in ("fallback",):
            verdict = bool(verdict)
        n += 1
        chk.instance(rule, {"outside_count": v, "verdict": verdict, "cfg": cfg}, ok=(verdict == want))
        if verdict != want:
            chk.violation(rule, f.qual, "verdict|%d" % v, "with an outside count of %d Path1InsidePath2 %s; a lead of two votes is decisive (inside iff the count is negative) "
                          "and only -1..1 may fall back on the bounding-box midpoint test (unreliable for non-convex rings)" %
                          (v, "uses the midpoint fallback" if verdict == "fallback" else "answers %s" % verdict), where(after[0]) if after else f.where, cfg=cfg)
    return n


# ---------------------------------------------------------------------------
# FLOAT.double-only: no single-precision arithmetic (C01, C13, C18)
# ---------------------------------------------------------------------------

def no_single_precision(db, chk, cfg, rule="FLOAT.double-only"):
    """Coordinates go up to 2^62; every floating-point intermediate of the library is a double (53-bit mantissa, and the integer paths
    are guarded separately).  A `float` anywhere - a variable, a cast, or a call of a single-precision math function (nearbyintf,
    roundf, sqrtf, ...) - silently drops 29 bits."""
    n = 0
    bad = []
    for f in db.funcs:
        if f.body is None or f.is_pattern or "Clipper2Lib" not in (f.file or ""):
            continue
        n += 1
        for y in walk(f.body):
            t = qt(y) if isinstance(y.get("type"), dict) else ""
            if t in ("float", "const float") or t.startswith("float ") or t.endswith(" float"):
                bad.append((f, y))
                break
            if y.get("kind") == "CallExpr":
                nm = db.callee(y)[0] or ""
                if nm in ("nearbyintf", "roundf", "sqrtf", "sinf", "cosf", "fabsf", "floorf", "ceilf", "lroundf", "llroundf", "rintf", "lrintf", "atan2f", "hypotf", "powf"):
                    bad.append((f, y))
                    break
    chk.instance(rule, {"functions_scanned": n, "cfg": cfg}, ok=not bad)
    for f, y in bad[:3]:
        chk.violation(rule, f.qual, canon(y)[:50], "single-precision floating point in %s: `%s` has type float / is a float math function; coordinates beyond 2^24 lose "
                      "their low bits" % (f.qual, canon(y)[:70]), where(y), cfg=cfg)
    if n < 200:
        raise AnalysisBroken("FLOAT.double-only: only %d library functions scanned" % n)
    return n


# ---------------------------------------------------------------------------
# RectClip64::GetNextLocation: where the path goes after leaving a side region (C08)
# ---------------------------------------------------------------------------

def next_location_table(db, chk, cfg, rule="T.next-location"):
    """From the region outside side S the path's next vertex that is no longer beyond S is classified: beyond the *opposite* side first
    (then IsClockwise must decide the way round with a cross product), else beyond one of the two adjacent sides, else inside.  The
    if-chain of each of the four cases is interpreted on every position of the vertex against the rectangle (x and y in five positions:
    below, on the low edge, between, on the high edge, above - boundaries count as beyond, as in the code); a vertex in a corner zone
    that is filed under an adjacent side instead of the opposite one makes the clipper add the wrong corners."""
    from ..astq import if_parts
    f = db.one("RectClip64::GetNextLocation")
    sw = [x for x in walk(f.body) if x.get("kind") == "SwitchStmt"]
    if len(sw) != 1:
        raise AnalysisBroken("GetNextLocation: switch on the current location not found")
    loc_enum = None
    for en, vals in db.enums.items():
        if set(("Left", "Top", "Right", "Bottom", "Inside")) <= set(vals):
            loc_enum = list(vals)
    if loc_enum is None:
        raise AnalysisBroken("enum Location not found")
    cases = {}
    for c in walk(kids(sw[0])[-1]):
        if c.get("kind") == "CaseStmt":
            lab = canon(kids(c)[0])
            for nm in loc_enum:
                if lab.endswith(nm):
                    cases[nm] = c
    pname = f.params[0]["name"]
    L, T, R, B = 10, 10, 20, 20
    POS = (5, 10, 15, 20, 25)
    OPP = {"Left": "Right", "Right": "Left", "Top": "Bottom", "Bottom": "Top"}

    def beyond(side, x, y):
        return {"Left": x <= L, "Right": x >= R, "Top": y <= T, "Bottom": y >= B}[side]
    n = 0
    for side in ("Left", "Top", "Right", "Bottom"):
        c = cases.get(side)
        if c is None:
            raise AnalysisBroken("GetNextLocation: case Location::%s not found" % side)
        # the classification chain: the if statement of this case (it follows the scan loop)
        chain = None
        nodes = [c] + [y for y in walk(sw[0]) if y.get("kind") == "IfStmt"]
        stmts = []
        cur = c
        # statements of a case: its own sub-statement plus the following siblings up to the next case / break
        body = kids(kids(sw[0])[-1])
        idx = [i for i, y in enumerate(body) if y is c][0]
        seq = [kids(c)[-1]] + list(body[idx + 1:])
        for y in seq:
            if y.get("kind") in ("CaseStmt", "DefaultStmt"):
                break
            if y.get("kind") == "IfStmt":
                chain = y
                break
        if chain is None:
            raise AnalysisBroken("GetNextLocation: classification chain of case %s not found" % side)
        for x in POS:
            for y0 in POS:
                if beyond(side, x, y0):
                    continue            # still in the region of this side: consumed by the scan loop
                key = "%s[i]" % pname
                env = {key + ".x": x, key + ".y": y0, "rect_.left": L, "rect_.top": T, "rect_.right": R, "rect_.bottom": B, "i": 1, "highI": 5,
                       "loc": loc_enum.index(side)}
                it = Interp(db, env)
                try:
                    it.exec(chain)
                except Unsupported as e:
                    raise AnalysisBroken("cannot interpret case %s of GetNextLocation: %s" % (side, e))
                except Exception as e:
                    if e.__class__.__name__ in ("_Break", "_Continue"):
                        pass
                    else:
                        raise
                got = loc_enum[it.env["loc"]] if isinstance(it.env.get("loc"), int) and 0 <= it.env["loc"] < len(loc_enum) else it.env.get("loc")
                if beyond(OPP[side], x, y0):
                    want = OPP[side]
                else:
                    adj = [s0 for s0 in ("Left", "Top", "Right", "Bottom") if s0 not in (side, OPP[side]) and beyond(s0, x, y0)]
                    want = adj[0] if adj else "Inside"
                n += 1
                chk.instance(rule, {"from": side, "x": x, "y": y0, "classified": got, "cfg": cfg} if n % 3 == 1 else None, ok=(got == want))
                if got != want:
                    chk.violation(rule, f.qual, "%s|%d,%d" % (side, x, y0), "coming from the %s region, a vertex at (%d,%d) against the rectangle [%d..%d]x[%d..%d] is filed under %s; "
                                  "it lies beyond the %s side and must be filed under %s (the opposite side takes precedence: the way round the rectangle is then "
                                  "decided by a cross product, not assumed)" % (side, x, y0, L, R, T, B, got, want, want), where(chain), cfg=cfg)
    return n


# ---------------------------------------------------------------------------
# T.detach: an edge leaving its output record clears the record's pointer to *itself* (C05)
# ---------------------------------------------------------------------------

def detach_table(db, chk, cfg, rule="T.detach"):
    """Where an (open) edge E stops contributing, its output record forgets it: `if (IsFront(E)) E.outrec->front_edge = nullptr; else
    E.outrec->back_edge = nullptr; E.outrec = nullptr;`.  IsFront(E) means `E.outrec->front_edge == &E`, so the field cleared when
    IsFront(E) holds must be front_edge and the other one otherwise - clearing the other field leaves the record pointing at an edge
    that no longer belongs to it, and the surviving edge of the piece appends at the wrong end.  Every such branch in the sweep (the
    selector is interpreted for both answers of IsFront; all sites must agree)."""
    n = 0
    for f in db.funcs:
        if f.is_pattern or f.body is None or f.cls not in ("ClipperBase",):
            continue
        for x in walk(f.body):
            if x.get("kind") != "IfStmt":
                continue
            cond, then, els = if_parts(x)
            if els is None:
                continue

            def nulled(br):
                ss = [s for s in (kids(br) if br.get("kind") == "CompoundStmt" else [br]) if isinstance(s, dict) and s.get("kind")]
                if len(ss) != 1:
                    return None
                s0 = strip(ss[0])
                if s0.get("kind") == "BinaryOperator" and s0.get("opcode") == "=" and canon(kids(s0)[1]) in ("nullptr", "0", "NULL"):
                    l = strip(kids(s0)[0])
                    if l.get("kind") == "MemberExpr" and l.get("name") in ("front_edge", "back_edge"):
                        return l.get("name"), canon(kids(l)[0]) if kids(l) else ""
                return None
            a, b = nulled(then), nulled(els)
            if a is None or b is None or {a[0], b[0]} != {"front_edge", "back_edge"} or a[1] != b[1]:
                continue
            for val in (True, False):
                def hook(name, argv, nd, val=val):
                    if name == "IsFront":
                        return val
                    return NotImplemented
                # `&e == e.outrec->front_edge` written out counts as IsFront too
                env = {}
                try:
                    t = Interp(db, env, call_hook=hook).ev(cond)
                    t = bool(t)
                except Unsupported:
                    c0 = canon(cond)
                    if "front_edge" in c0 and "==" in c0:
                        t = val
                    elif "front_edge" in c0 and "!=" in c0:
                        t = not val
                    else:
                        raise AnalysisBroken("T.detach: cannot interpret the selector `%s` in %s" % (canon(cond)[:60], f.qual))
                got = (a if t else b)[0]
                want = "front_edge" if val else "back_edge"
                n += 1
                ok = got == want
                chk.instance(rule, {"function": f.qual, "at": where(x), "IsFront": val, "clears": got, "cfg": cfg}, ok=ok)
                if not ok:
                    chk.violation(rule, f.qual, "%s|IsFront=%s" % (x.get("line"), val),
                                  "when IsFront(edge) is %s the branch at %s clears `%s->%s`: the record then keeps pointing at the detached edge through %s and "
                                  "forgets the edge that still belongs to it" % (val, where(x), a[1], got, want), where(x), cfg=cfg)
    if n < 6:
        raise AnalysisBroken("T.detach: only %d detach branches found (expected the three sites in IntersectEdges, DoHorizontal, DoMaxima)" % n)
    return n


# ---------------------------------------------------------------------------
# T.touching: GetSegmentIntersection when an end point lies on the other segment's line (C08, C09)
# ---------------------------------------------------------------------------

def touching_between_table(db, chk, cfg, rule="T.touching"):
    """GetSegmentIntersection(p1, p2, p3, p4, ip) with one end point W of a segment exactly on the line of the other segment (a, b), W's
    partner off that line: the segments touch iff W lies strictly between a and b (W at a or b is the shared-vertex case, answered
    before).  The function is interpreted on every ordering of W against a and b, for W = p1, p2, p3, p4, for a horizontal and for a
    vertical other segment in both directions (the rectangle's sides are handed over in both directions: top and right ascending,
    bottom and left descending): the answer must be `true` exactly on the two 'between' orderings."""
    import itertools
    f = db.one("GetSegmentIntersection")
    if len(f.params) != 5:
        raise AnalysisBroken("GetSegmentIntersection no longer takes (p1, p2, p3, p4, ip)")
    P = [p.get("name") for p in f.params]
    n = 0
    bad = []
    for wi in range(4):
        own = (0, 1) if wi < 2 else (2, 3)
        other = (2, 3) if wi < 2 else (0, 1)
        partner = own[0] if own[1] == wi else own[1]
        for horizontal in (True, False):
            # the three values all different (6 orderings), and W on an end point of the other segment (the shared-vertex case:
            # a path vertex exactly on a rectangle corner, reached from off the side's line - the segments meet there)
            for perm in list(itertools.permutations((10, 20, 30))) + [(10, 10, 30), (30, 10, 30), (10, 30, 10), (30, 30, 10)]:
                wv, av, bv = perm
                pts = {}
                if horizontal:
                    pts[wi] = (wv, 50)
                    pts[other[0]] = (av, 50)
                    pts[other[1]] = (bv, 50)
                    pts[partner] = (wv + 1, 90)          # off the line, so the two segments are not collinear
                else:
                    pts[wi] = (50, wv)
                    pts[other[0]] = (50, av)
                    pts[other[1]] = (50, bv)
                    pts[partner] = (90, wv + 1)
                env = {}
                for i in range(4):
                    env[P[i] + ".x"], env[P[i] + ".y"] = pts[i]
                def hook(name, argv, nd):
                    if name == "operator=" and nd.get("kind") == "CXXOperatorCallExpr":
                        return None                       # `ip = pK`: which point is stored is POLY.intersect's business
                    if name == "GetSegmentIntersectPt":
                        return True
                    return NotImplemented
                it = Interp(db, env, [], call_hook=hook)
                try:
                    got = it.run_function(f)
                except Unsupported as e:
                    raise AnalysisBroken("cannot interpret GetSegmentIntersection: %s" % e)
                want = min(av, bv) < wv < max(av, bv) or wv in (av, bv)
                n += 1
                ok = bool(got) == want
                chk.instance(rule, {"W": P[wi], "other_segment": "%s-%s %s" % (P[other[0]], P[other[1]], "horizontal" if horizontal else "vertical"),
                                    "order": "W=%d a=%d b=%d" % perm, "answer": bool(got), "cfg": cfg} if (not ok or n % 12 == 1) else None, ok=ok)
                if not ok:
                    bad.append((P[wi], P[other[0]], P[other[1]], horizontal, perm, bool(got), want))
    for b in bad[:1]:
        chk.violation(rule, f.qual, "%s|%s|%s" % (b[0], "h" if b[3] else "v", "asc" if b[4][1] < b[4][2] else "desc"),
                      "GetSegmentIntersection with %s on the line of the %s segment %s-%s (%s=%d, %s=%d, %s=%d along it; %s's partner off the line) answers %s; the "
                      "segments %s there (%d of %d cells wrong)" % (b[0], "horizontal" if b[3] else "vertical", b[1], b[2], b[0], b[4][0], b[1], b[4][1], b[2], b[4][2], b[0],
                                                                    b[5], ("share that end point" if b[4][0] in b[4][1:] else "touch") if b[6] else "do not touch", len(bad), n), f.where, cfg=cfg)
    return n


# ---------------------------------------------------------------------------
# T.nearest-crossing: GetIntersection answers with the rectangle side the segment meets first (C08, C09)
# ---------------------------------------------------------------------------

def nearest_crossing_table(db, chk, cfg, rule="T.nearest-crossing"):
    """GetIntersection(rectPath, p, p2, loc, ip): p lies in the side region `loc` (Left: p.x < left, whatever its y, ...).  Which sides the
    segment p -> p2 crosses is answered by a hook on GetSegmentIntersection (the side is recognised by the two corners handed over);
    the cells are the geometrically possible (entry side, exit side) pairs for p above / level with / below the rectangle (resp. left /
    level / right for Top and Bottom): from a corner region the segment can enter through either of the two sides that meet there,
    from the level part only through the side of its own region.  The function must report the *entry* side (the crossing closest to
    p) in `loc`, and false with `loc` unchanged when nothing is crossed."""
    f = db.one("GetIntersection")
    if len(f.params) != 5:
        raise AnalysisBroken("GetIntersection no longer takes (rectPath, p, p2, loc, ip)")
    rp, pn, p2n, locn, ipn = [p.get("name") for p in f.params]
    loc_enum = None
    for en, vals in db.enums.items():
        if set(("Left", "Top", "Right", "Bottom", "Inside")) <= set(vals):
            loc_enum = list(vals)
    if loc_enum is None:
        raise AnalysisBroken("enum Location not found")
    L, T, R, B = 10, 10, 20, 20
    corners = {0: (L, T), 1: (R, T), 2: (R, B), 3: (L, B)}
    side_of = {frozenset((0, 3)): "Left", frozenset((0, 1)): "Top", frozenset((1, 2)): "Right", frozenset((2, 3)): "Bottom"}
    opposite = {"Left": "Right", "Right": "Left", "Top": "Bottom", "Bottom": "Top"}
    # (region, sub-region) -> p and the possible entry sides
    def cells():
        for loc in ("Left", "Top", "Right", "Bottom"):
            for sub in (-1, 0, 1):
                if loc in ("Left", "Right"):
                    px = L - 5 if loc == "Left" else R + 5
                    py = (T - 5, 15, B + 5)[sub + 1]
                    corner_side = ("Top", None, "Bottom")[sub + 1]
                else:
                    py = T - 5 if loc == "Top" else B + 5
                    px = (L - 5, 15, R + 5)[sub + 1]
                    corner_side = ("Left", None, "Right")[sub + 1]
                entries = [loc] + ([corner_side] if corner_side else [])
                for entry in entries:
                    # the exit cannot be the entry, nor the other side meeting at p's corner (the segment moves away from it)
                    exits = [None] + [s0 for s0 in ("Left", "Top", "Right", "Bottom") if s0 != entry and s0 not in entries]
                    for ex in exits:
                        yield loc, (px, py), entry, ex
                yield loc, (px, py), None, None
    n = 0
    bad = []
    for loc, (px, py), entry, ex in cells():
        crossed = {s0 for s0 in (entry, ex) if s0}
        env = {locn: loc_enum.index(loc), pn + ".x": px, pn + ".y": py, p2n + ".x": 0, p2n + ".y": 0}
        for i0, (cx, cy) in corners.items():
            env["%s[%d].x" % (rp, i0)] = cx
            env["%s[%d].y" % (rp, i0)] = cy

        def hook(name, argv, nd, crossed=crossed):
            if name == "GetSegmentIntersection":
                a = [canon(z) for z in db.call_args(nd)]
                idx = []
                for t0 in a[2:4]:
                    m0 = re.match(r"^%s\[(\d)\]$" % re.escape(rp), t0.replace("(", "").replace(")", ""))
                    if not m0:
                        raise AnalysisBroken("T.nearest-crossing: GetSegmentIntersection is handed `%s`, not a corner of %s" % (t0, rp))
                    idx.append(int(m0.group(1)))
                sd = side_of.get(frozenset(idx))
                if sd is None:
                    raise AnalysisBroken("T.nearest-crossing: corners %s are not a side of the rectangle" % idx)
                return sd in crossed
            return NotImplemented
        it = Interp(db, env, [], call_hook=hook)
        try:
            got = it.run_function(f)
        except Unsupported as e:
            raise AnalysisBroken("cannot interpret GetIntersection: %s" % e)
        gl = it.env.get(locn)
        gl = loc_enum[_raw_int(gl)] if gl is not None and 0 <= _raw_int(gl) < len(loc_enum) else gl
        want_ret = entry is not None
        want_loc = entry if entry else loc
        n += 1
        ok = bool(got) == want_ret and gl == want_loc
        chk.instance(rule, {"p_in": loc, "p": (px, py), "enters_through": entry, "leaves_through": ex, "answer": [bool(got), gl], "cfg": cfg} if (not ok or n % 10 == 1) else None, ok=ok)
        if not ok:
            bad.append((loc, (px, py), entry, ex, bool(got), gl))
    for b0 in bad[:1]:
        chk.violation(rule, f.qual, "%s|%s|%s|%s" % (b0[0], b0[1], b0[2], b0[3]),
                      "GetIntersection with p=%s in the %s region, the segment entering through %s%s: it answers (%s, loc=%s); the crossing closest to p is on the %s side "
                      "(%d of %d cells wrong)" % (b0[1], b0[0], b0[2] or "no side", (" and leaving through " + b0[3]) if b0[3] else "", b0[4], b0[5], b0[2] or "-", len(bad), n),
                      f.where, cfg=cfg)
    return n


# ---------------------------------------------------------------------------
# PIP.on-edge: a point on an edge is reported as such wherever a cross product decides a toggle (C04, C18)
# ---------------------------------------------------------------------------

def _pip_guard_excludes_on_edge(site, par):
    """Path conditions (if / else-if ancestors up to the enclosing loop) of a cross-product site, restricted to those that compare
    x coordinates only.  Returns None when every ordering with the point's x inside the closed x-range of the edge reaches the site,
    else (text of the conditions, description of an excluded ordering).  Conditions that mention anything but comparisons between
    x coordinates are not judged here."""
    conds = []
    node = site
    while True:
        p = par.get(id(node))
        if p is None or p.get("kind") in ("WhileStmt", "ForStmt", "DoStmt", "CXXForRangeStmt", "FunctionDecl", "CXXMethodDecl"):
            break
        if p.get("kind") == "IfStmt":
            cond, then, els = if_parts(p)
            if node is then or node is els:
                conds.append((cond, node is then))
        node = p

    def is_x(e):
        e = strip(e)
        return e.get("kind") == "MemberExpr" and e.get("name") == "x"

    leaves = []

    def tree(e):
        e = strip(e)
        k = e.get("kind")
        if k == "BinaryOperator" and e.get("opcode") in ("&&", "||"):
            l, r = tree(kids(e)[0]), tree(kids(e)[1])
            return None if l is None or r is None else (e["opcode"], l, r)
        if k == "UnaryOperator" and e.get("opcode") == "!":
            l = tree(kids(e)[0])
            return None if l is None else ("!", l)
        if k == "BinaryOperator" and e.get("opcode") in ("<", ">", "<=", ">=", "==", "!="):
            l, r = kids(e)[0], kids(e)[1]
            if is_x(l) and is_x(r):
                for t in (canon(strip(l)), canon(strip(r))):
                    if t not in leaves:
                        leaves.append(t)
                return (e["opcode"], canon(strip(l)), canon(strip(r)))
            l2, r2 = tree(l), tree(r)          # (a < b) != (c < d)
            if e.get("opcode") in ("==", "!=") and l2 is not None and r2 is not None:
                return ("b" + e["opcode"], l2, r2)
        return None

    def has_x(e):
        return any(y.get("kind") == "MemberExpr" and y.get("name") == "x" for y in walk(e))

    trees = []
    for cond, pol in conds:
        if not has_x(cond):
            continue
        t = tree(cond)
        if t is None:
            return None                      # mixed condition: not judged
        trees.append((t, pol, canon(cond)))
    if not trees or len(leaves) != 3:
        return None
    # the point's x is the leaf present in every comparison
    def cmp_leaves(t, acc):
        if t[0] in ("&&", "||", "b==", "b!="):
            cmp_leaves(t[1], acc), cmp_leaves(t[2], acc)
        elif t[0] == "!":
            cmp_leaves(t[1], acc)
        else:
            acc.append({t[1], t[2]})
        return acc
    allc = []
    for t, _, _ in trees:
        cmp_leaves(t, allc)
    pts = [l for l in leaves if all(l in c0 for c0 in allc)]
    if len(pts) != 1:
        return None
    P = pts[0]
    E1, E2 = [l for l in leaves if l != P]
    import operator as _op
    OPS = {"<": _op.lt, ">": _op.gt, "<=": _op.le, ">=": _op.ge, "==": _op.eq, "!=": _op.ne}

    def ev(t, env):
        if t[0] == "&&":
            return ev(t[1], env) and ev(t[2], env)
        if t[0] == "||":
            return ev(t[1], env) or ev(t[2], env)
        if t[0] == "!":
            return not ev(t[1], env)
        if t[0] == "b==":
            return ev(t[1], env) == ev(t[2], env)
        if t[0] == "b!=":
            return ev(t[1], env) != ev(t[2], env)
        return OPS[t[0]](env[t[1]], env[t[2]])
    for pv in range(3):
        for a in range(3):
            for b in range(3):
                if not (min(a, b) <= pv <= max(a, b)):
                    continue
                env = {P: pv, E1: a, E2: b}
                if not all(ev(t, env) == pol for t, pol, _ in trees):
                    rel = lambda u, v: "<" if u < v else (">" if u > v else "==")
                    return ("; ".join(("" if pol else "not ") + txt for _, pol, txt in trees)[:160],
                            "%s %s %s and %s %s %s" % (P, rel(pv, a), E1, P, rel(pv, b), E2))
    return None


def pip_on_edge_sites(db, chk, cfg, rule="PIP.on-edge"):
    """In the point-in-polygon routines (every function returning PointInPolygonResult) the side of the point relative to an edge is
    taken from CrossProductSign.  Each such call: its value is kept in a local, and the local is tested for zero with the IsOn result
    returned, in the same block, before (or instead of) its sign deciding a toggle.  A call whose sign is used directly loses the
    on-edge answer for that edge - the point then votes inside or outside according to the edge's direction."""
    n = 0
    for f in db.funcs:
        if f.is_pattern or f.body is None or "PointInPolygonResult" not in f.sig.split("(")[0]:
            continue
        par = {}
        for x in walk(f.body):
            for c in kids(x):
                if isinstance(c, dict):
                    par[id(c)] = x
        for c in walk(f.body):
            if c.get("kind") != "CallExpr" or db.callee(c)[0] not in ("CrossProductSign", "CrossProduct"):
                continue
            n += 1
            # climb to the declaration holding the value
            p = par.get(id(c))
            while p is not None and p.get("kind") in ("ImplicitCastExpr", "ParenExpr", "ExprWithCleanups", "MaterializeTemporaryExpr"):
                p = par.get(id(p))
            ok = False
            why = "its sign is used directly"
            if p is not None and p.get("kind") == "VarDecl":
                vid = p.get("id")
                # the enclosing compound statement
                blk = par.get(id(p))
                while blk is not None and blk.get("kind") != "CompoundStmt":
                    blk = par.get(id(blk))
                why = "the local `%s` is never tested for zero with IsOn returned" % p.get("name")
                for s0 in (kids(blk) if blk else []):
                    if not isinstance(s0, dict) or s0.get("kind") != "IfStmt":
                        continue
                    cond, then, els = if_parts(s0)
                    c0 = strip(cond)
                    zero = False
                    if c0.get("kind") == "BinaryOperator" and c0.get("opcode") == "==":
                        l, r = strip(kids(c0)[0]), strip(kids(c0)[1])
                        for a, b in ((l, r), (r, l)):
                            if a.get("kind") == "DeclRefExpr" and a.get("referencedDecl", {}).get("id") == vid and canon(b) in ("0", "0.0"):
                                zero = True
                    elif c0.get("kind") == "UnaryOperator" and c0.get("opcode") == "!":
                        a = strip(kids(c0)[0])
                        zero = a.get("kind") == "DeclRefExpr" and a.get("referencedDecl", {}).get("id") == vid
                    if zero and any(y.get("kind") == "ReturnStmt" and kids(y) and canon(kids(y)[0]).endswith("IsOn") for y in walk(then)):
                        ok = True
            # the shortcuts in front of the cross product ("the edge lies wholly to one side of the point") must let every point through
            # whose x lies within the x-range of the edge, its ends included: the conditions on the way from the enclosing loop to this
            # call are evaluated for every weak ordering of the three x values
            if ok:
                guard_bad = _pip_guard_excludes_on_edge(c, par)
                if guard_bad:
                    ok = False
                    why = ("the conditions in front of it (%s) send a point with %s past it" % (guard_bad[0], guard_bad[1]))
            chk.instance(rule, {"function": f.qual, "sig": f.sig[:50], "call": where(c), "cfg": cfg}, ok=ok)
            if not ok:
                chk.violation(rule, f.qual, "%s|%s" % (f.sig[:30], c.get("line")), "%s: the cross product at %s decides on which side of an edge the point lies, but %s: a point exactly "
                              "on that edge is classified inside or outside (by the edge's direction) instead of IsOn" % (f.qual, where(c), why), where(c), cfg=cfg)
    if n < 4:
        raise AnalysisBroken("PIP.on-edge: only %d cross-product sites in point-in-polygon routines (configuration %s)" % (n, cfg))
    return n


# ---------------------------------------------------------------------------
# START.location: where RectClip64's scan believes the path to be before its first segment (C08)
# ---------------------------------------------------------------------------

def start_location_rule(db, chk, cfg, rule="START.location", qual="RectClip64::ExecuteInternal", anchor="last"):
    """RectClip64::ExecuteInternal walks a closed path segment by segment, the first segment being the closing one (last vertex ->
    first vertex), and only records a crossing when the location changes.  So the location it starts with must be the truth about
    the last vertex: its region when it lies off the rectangle's boundary; when it lies *on* the boundary, `Inside` exactly when
    the nearest earlier vertex off the boundary is inside (the path arrives at the boundary from the interior and its leaving the
    rectangle is still to come), else the side it lies on.  The function's prologue - everything before the main loop - is
    interpreted for every status (5 regions off the boundary, 4 sides on it) of the last three vertices of a path; GetLocation is
    answered from the scenario, its definition being checked by T.location."""
    f = db.one(qual)
    main = None
    pre = []
    for x in kids(f.body):
        if x.get("kind") == "WhileStmt" and any(y.get("kind") in ("CallExpr", "CXXMemberCallExpr") and db.callee(y)[0] == "GetNextLocation" for y in walk(kids(x)[-1])):
            main = x
            break
        pre.append(x)
    if main is None:
        raise AnalysisBroken("%s: main loop of %s not found" % (rule, qual))
    gnl = [y for y in walk(kids(main)[-1]) if y.get("kind") in ("CallExpr", "CXXMemberCallExpr") and db.callee(y)[0] == "GetNextLocation"][0]
    locvar = canon(db.call_args(gnl)[1])
    pathvar = f.params[0]["name"]
    it0 = Interp(db, {}, [])
    enum = {}
    for y in walk(f.body):
        if y.get("kind") == "DeclRefExpr" and y.get("referencedDecl", {}).get("kind") == "EnumConstantDecl":
            enum[y["referencedDecl"]["name"]] = it0.ev(y)
    if not all(k in enum for k in ("Inside",)):
        raise AnalysisBroken("%s: Location::Inside not used in RectClip64::ExecuteInternal" % rule)
    g = db.one("GetLocation")
    for y in walk(g.body):
        if y.get("kind") == "DeclRefExpr" and y.get("referencedDecl", {}).get("kind") == "EnumConstantDecl":
            enum[y["referencedDecl"]["name"]] = it0.ev(y)
    sides = [enum[k] for k in ("Left", "Top", "Right", "Bottom") if k in enum]
    if len(sides) != 4:
        raise AnalysisBroken("%s: the four side locations were not found in GetLocation" % rule)
    inside = enum["Inside"]
    name_of = {v: k for k, v in enum.items()}
    statuses = [(True, l) for l in sides + [inside]] + [(False, l) for l in sides]
    N = 3
    n = bad = 0
    first_bad = None
    for s2 in statuses:
        for s1 in statuses:
            for s0 in statuses:
                scen = {2: s2, 1: s1, 0: s0}
                it = Interp(db, {pathvar: [0, 1, 2]}, [])          # the path as a sequence of vertex indices (the copy loop runs over it)

                def hook(name, argv, nd, it=it, scen=scen):
                    if name == "GetLocation":
                        args = db.call_args(nd)
                        pe = strip(args[1])
                        idx = None
                        for y in walk(pe):
                            if y.get("kind") in ("CXXOperatorCallExpr", "ArraySubscriptExpr"):
                                idx = it.ev(kids(y)[-1])
                                break
                        if idx is None or int(idx) not in scen:
                            raise Unsupported("GetLocation on something else than a vertex of the path")
                        off, l = scen[int(idx)]
                        it.env[canon(args[2])] = l
                        return off
                    if name == "size" and nd.get("kind") == "CXXMemberCallExpr" and canon(db.member_base(nd)) == pathvar:
                        return N
                    if name == "empty" and nd.get("kind") == "CXXMemberCallExpr" and canon(db.member_base(nd)) == pathvar:
                        return False
                    if name == "IsEmpty":
                        return False
                    if name in ("Add", "clear") or name.startswith("ctor:"):
                        return None
                    if name == "operator=" and nd.get("kind") == "CXXOperatorCallExpr" and "deque" in (qt(kids(nd)[1]) or ""):
                        return None                    # op_container_ = std::deque<OutPt2>()
                    return NotImplemented
                it.call_hook = hook
                it.concrete_loops = True
                returned = False
                try:
                    for s in pre:
                        it.exec(s)
                except _Return:
                    returned = True
                except Unsupported as e:
                    # the only part that may be out of reach is the copy loop of the all-on-boundary case
                    if all(not st[0] for st in scen.values()):
                        returned = True
                    else:
                        raise AnalysisBroken("%s: cannot interpret the prologue of %s: %s" % (rule, qual, e))
                n += 1
                off, l = s2 if anchor == "last" else s0
                if off:
                    want = l
                else:
                    earlier = [st for st in ((s1, s0) if anchor == "last" else (s1, s2)) if st[0]]
                    want = None if not earlier else (inside if earlier[0][1] == inside else l)
                got = None if returned else it.env.get(locvar)
                if got != want:
                    bad += 1
                    if first_bad is None:
                        first_bad = (scen, got, want)
    chk.instance(rule, {"function": f.qual, "scenarios": n, "wrong": bad, "cfg": cfg}, ok=not bad)
    if bad:
        scen, got, want = first_bad
        d = lambda st: ("off the boundary in %s" if st[0] else "on the boundary (%s)") % name_of.get(st[1], st[1])
        order = (2, 1, 0) if anchor == "last" else (0, 1, 2)
        chk.violation(rule, f.qual, "prologue", "%s starts its scan with the wrong location in %d of %d scenarios, e.g. %s vertex %s, the "
                      "next one looked at %s, the one after that %s: `%s` is %s, the path is %s - the crossing of the first segment is then not recorded (or a spurious one is, "
                      "or a path that leaves the rectangle is copied whole)"
                      % (qual, bad, n, anchor, d(scen[order[0]]), d(scen[order[1]]), d(scen[order[2]]), locvar, name_of.get(got, "returned early" if got is None else got),
                         name_of.get(want, "wholly on / inside the boundary (early return)" if want is None else want)), f.where, cfg=cfg)
    return n


# ---------------------------------------------------------------------------
# CORNER.chain: the corners RectClip64 adds when it closes a path form one walk (C08)
# ---------------------------------------------------------------------------

def corner_chain_rule(db, chk, cfg, rule="CORNER.chain"):
    """When the scan of RectClip64::ExecuteInternal ends outside the rectangle, the result is closed by walking from the side region
    the path ended in, through the side regions it visited before its first crossing (start_locs_), to the region of the first
    crossing, adding a rectangle corner for every change of region.  The closing block is executed for every end region, first-crossing
    region and every start_locs_ sequence of length 0..3 (1360 cases; AddCorner recorded, range-for run concretely) and the corner
    steps must be those of that one walk: each step starts in the region the walk has reached, the last one heads for first_cross_."""
    f = db.one("RectClip64::ExecuteInternal")
    par = {}
    for x in walk(f.body):
        for c in kids(x):
            if isinstance(c, dict):
                par[id(c)] = x
    main = None
    for x in kids(f.body):
        if x.get("kind") == "WhileStmt" and any(y.get("kind") in ("CallExpr", "CXXMemberCallExpr") and db.callee(y)[0] == "GetNextLocation" for y in walk(kids(x)[-1])):
            main = x
    if main is None:
        raise AnalysisBroken("%s: main loop of RectClip64::ExecuteInternal not found" % rule)
    gnl = [y for y in walk(kids(main)[-1]) if y.get("kind") in ("CallExpr", "CXXMemberCallExpr") and db.callee(y)[0] == "GetNextLocation"][0]
    locvar = canon(db.call_args(gnl)[1])
    post = kids(f.body)[kids(f.body).index(main) + 1:]
    rf = [y for s in post for y in walk(s) if y.get("kind") == "CXXForRangeStmt" and any(z.get("kind") == "CXXMemberCallExpr" and db.callee(z)[0] == "AddCorner" for z in walk(y))]
    block = None
    if len(rf) == 1:
        node = rf[0]
        while node is not None:
            node = par.get(id(node))
            if node is not None and node.get("kind") == "CompoundStmt":
                outside = [z for z in walk(node) if z.get("kind") == "CXXMemberCallExpr" and db.callee(z)[0] == "AddCorner" and not any(z is w for w in walk(rf[0]))]
                if outside:
                    block = node
                    break
    if block is None:
        # an index loop instead of the range-for: take the last top-level statement's innermost block holding two AddCorner calls
        cands = [y for s in post for y in walk(s) if y.get("kind") == "CompoundStmt" and
                 sum(1 for z in walk(y) if z.get("kind") == "CXXMemberCallExpr" and db.callee(z)[0] == "AddCorner") >= 2]
        if not cands:
            raise AnalysisBroken("%s: the closing block of RectClip64::ExecuteInternal (two AddCorner sites) not found" % rule)
        block = cands[-1]
    rng_name = "start_locs_"
    import itertools
    sides = [0, 1, 2, 3]
    n = bad = 0
    first = None
    for loc0 in sides:
        for fc in sides:
            for L in range(0, 4):
                for seq in itertools.product(sides, repeat=L):
                    rec = []
                    it = Interp(db, {locvar: loc0, "first_cross_": fc, rng_name: list(seq)}, [])
                    it.concrete_loops = True

                    def hook(name, argv, nd, it=it, rec=rec, seq=seq):
                        if name in ("size", "empty") and nd.get("kind") == "CXXMemberCallExpr" and canon(db.member_base(nd)).replace("this->", "") == rng_name:
                            return len(seq) if name == "size" else (len(seq) == 0)
                        if name == "operator[]" and argv and isinstance(argv[0], list):
                            return argv[0][int(argv[1])]
                        if name == "AddCorner":
                            args = db.call_args(nd)
                            a0 = canon(args[0])
                            frm = it.ev(args[0])
                            g = db.callee_func(nd)
                            by_flag = g is not None and "bool" in qt(g.params[1])
                            v1 = it.ev(args[1])
                            if by_flag:
                                rec.append((frm, bool(v1)))
                                it.env[a0] = (frm + (1 if v1 else 3)) % 4
                            else:
                                rec.append((frm, (frm + 1) % 4 == v1))
                            return None
                        if name == "HeadingClockwise" and argv is not None and len(argv) == 2:
                            return (argv[0] + 1) % 4 == argv[1]
                        return NotImplemented
                    it.call_hook = hook
                    try:
                        it.exec(block)
                    except _Return:
                        pass
                    except Unsupported as e:
                        raise AnalysisBroken("%s: cannot interpret the closing block of RectClip64::ExecuteInternal: %s" % (rule, e))
                    want = []
                    cur = loc0
                    for l2 in seq:
                        if l2 == cur:
                            continue
                        want.append((cur, (cur + 1) % 4 == l2))
                        cur = l2
                    if cur != fc:
                        want.append((cur, (cur + 1) % 4 == fc))
                    n += 1
                    if rec != want:
                        bad += 1
                        if first is None:
                            first = (loc0, fc, seq, list(rec), want)
    chk.instance(rule, {"function": f.qual, "cases": n, "wrong": bad, "cfg": cfg}, ok=not bad)
    if bad:
        nm = ["Left", "Top", "Right", "Bottom"]
        loc0, fc, seq, rec, want = first
        fmt = lambda lst: "[" + ", ".join("%s %s" % (nm[a], "clockwise" if c else "anticlockwise") for a, c in lst) + "]"
        chk.violation(rule, f.qual, "closing", "the corners added when RectClip64::ExecuteInternal closes a path are not one walk in %d of %d cases, e.g. path ends in %s, "
                      "start regions %s, first crossing in %s: corner steps %s, the walk is %s - a wrong corner (or none) is appended and the winding inside the rectangle changes"
                      % (bad, n, nm[loc0], [nm[s] for s in seq], nm[fc], fmt(rec), fmt(want)), where(block), cfg=cfg)
    return n


# ---------------------------------------------------------------------------
# CROSSING.latched: "not crossed yet" survives a segment that does not cross (C08)
# ---------------------------------------------------------------------------

def crossing_latched_rule(db, chk, cfg, rule="CROSSING.latched"):
    """RectClip64::ExecuteInternal keeps in one variable where the path last crossed the rectangle, `Inside` meaning "not yet".  Before
    every GetIntersection call the variable is loaded with the current region (GetIntersection overwrites it with the side crossed);
    when the call reports no crossing and the previous value was `Inside`, the branch must put `Inside` back - otherwise the next
    region change before the first crossing is emitted as corners instead of being recorded in start_locs_.  The no-crossing branch is
    executed for every ordered pair of distinct side regions and both senses of rotation with the previous value `Inside`."""
    from ..evalx import _Continue
    f = db.one("RectClip64::ExecuteInternal")
    main = None
    for x in kids(f.body):
        if x.get("kind") == "WhileStmt" and any(y.get("kind") in ("CallExpr", "CXXMemberCallExpr") and db.callee(y)[0] == "GetNextLocation" for y in walk(kids(x)[-1])):
            main = x
    if main is None:
        raise AnalysisBroken("%s: main loop of RectClip64::ExecuteInternal not found" % rule)
    site = None
    for x in walk(kids(main)[-1]):
        if x.get("kind") == "IfStmt":
            cond, then, els = if_parts(x)
            c0 = strip(cond)
            if c0.get("kind") == "UnaryOperator" and c0.get("opcode") == "!" and any(y.get("kind") in ("CallExpr", "CXXMemberCallExpr") and db.callee(y)[0] == "GetIntersection" for y in walk(c0)):
                site = (x, then, [y for y in walk(c0) if y.get("kind") in ("CallExpr", "CXXMemberCallExpr") and db.callee(y)[0] == "GetIntersection"][0])
                break
    if site is None:
        raise AnalysisBroken("%s: `if (!GetIntersection(..))` not found in the main loop of RectClip64::ExecuteInternal" % rule)
    node, then, call = site
    cvar = canon(db.call_args(call)[3])
    pvar = None
    for y in walk(kids(main)[-1]):
        if y.get("kind") == "VarDecl":
            init = [c for c in kids(y) if isinstance(c, dict) and c.get("kind")]
            if init and canon(init[-1]) == cvar:
                pvar = y.get("name")
    if pvar is None:
        raise AnalysisBroken("%s: the copy of `%s` taken at the top of the loop was not found" % (rule, cvar))
    gnl = [y for y in walk(kids(main)[-1]) if y.get("kind") in ("CallExpr", "CXXMemberCallExpr") and db.callee(y)[0] == "GetNextLocation"][0]
    locvar = canon(db.call_args(gnl)[1])
    prevvar = None
    for y in kids(kids(main)[-1]):
        if y.get("kind") == "BinaryOperator" and y.get("opcode") == "=" and canon(kids(y)[1]) == locvar and prevvar is None and canon(kids(y)[0]) != cvar:
            prevvar = canon(kids(y)[0])
    if prevvar is None:
        raise AnalysisBroken("%s: `prev = %s` at the top of the loop not found" % (rule, locvar))
    INSIDE = 4
    n = bad = 0
    first = None
    for p0 in range(4):
        for l0 in range(4):
            if p0 == l0:
                continue
            for cw in (True, False):
                it = Interp(db, {cvar: l0, pvar: INSIDE, prevvar: p0, locvar: l0, "i": 1}, [])
                it.concrete_loops = True

                def hook(name, argv, nd, it=it, cw=cw):
                    if name in ("IsClockwise",):
                        return cw
                    if name == "GetAdjacentLocation" and argv is not None:
                        return (argv[0] + (1 if argv[1] else 3)) % 4
                    if name == "AddCorner":
                        a0 = canon(db.call_args(nd)[0])
                        v = it.ev(db.call_args(nd)[0])
                        flag = it.ev(db.call_args(nd)[1])
                        it.env[a0] = (v + (1 if flag else 3)) % 4
                        return None
                    if name in ("emplace_back", "push_back"):
                        return None
                    return NotImplemented
                it.call_hook = hook
                try:
                    it.exec(then)
                except (_Continue, _Return):
                    pass
                except Unsupported as e:
                    raise AnalysisBroken("%s: cannot interpret the no-crossing branch: %s" % (rule, e))
                n += 1
                if it.env.get(cvar) != INSIDE:
                    bad += 1
                    if first is None:
                        first = (p0, l0, cw, it.env.get(cvar))
    chk.instance(rule, {"function": f.qual, "cases": n, "wrong": bad, "cfg": cfg}, ok=not bad)
    if bad:
        nm = ["Left", "Top", "Right", "Bottom", "Inside"]
        p0, l0, cw, got = first
        chk.violation(rule, f.qual, "no-crossing", "a segment from the %s to the %s region that does not cross the rectangle, before the first crossing: `%s` is left at %s "
                      "instead of Inside ('not crossed yet') in %d of %d cases - the next change of region is then emitted as corners instead of being recorded in "
                      "start_locs_, and the closing walk adds wrong corners" % (nm[p0], nm[l0], cvar, nm[got] if isinstance(got, int) and 0 <= got < 5 else got, bad, n),
                      where(node), cfg=cfg)
    return n
