"""E3 - finite decision tables by abstract interpretation.

Each table: enumerate every cell of a finite partition of the inputs of one
pure decision function, evaluate the function's AST on the cell with the
interpreter of evalx.py (which logs every comparison so that uniformity of the
partition can be verified), and compare with an oracle written here from the
property's wording.  Only *reachable* cells are compared.
"""
import itertools

from ..astq import walk, kids, strip, canon, qt, dqt, where
from ..evalx import Interp, SymVal, Unsupported
from ..extract import AnalysisBroken

FILL = ["EvenOdd", "NonZero", "Positive", "Negative"]
CLIP = ["NoClip", "Intersection", "Union", "Difference", "Xor"]
PTYPE = ["Subject", "Clip"]


def enum_index(db, enum, name):
    vals = db.enum(enum)
    if name not in vals:
        raise AnalysisBroken("enumerator %s::%s vanished" % (enum, name))
    return vals.index(name)


def check_uniform(log, bounds):
    """Every logged comparison must be (symbol-form  op  constant) with the
    constant strictly inside the contiguous representative range (L, R) of the
    symbol, so that the singleton cells L+1..R-1 and the two rays (-inf,L], [R,inf)
    are uniform for it.  bounds: sym -> (L, R)."""
    for op, a, b, line in log:
        sides = [a, b]
        syms = [s for s in sides if s[0] != "const"]
        consts = [s for s in sides if s[0] == "const"]
        if len(syms) == 2:
            ga, gb = syms[0][2], syms[1][2]
            if ga is not None and ga == gb and ga.startswith("order"):
                continue  # ordering cells: any comparison among the group is uniform
            if ga == "tri" and gb == "tri":
                continue  # both range over the complete finite set {-1,0,1}
            raise AnalysisBroken("comparison between two symbolic inputs %s and %s (line %s) is outside the partition"
                                 % (syms[0][0], syms[1][0], line))
        if not syms:
            continue
        sym, form, group = syms[0]
        c = consts[0][1]
        if group == "tri" or (group or "").startswith("finite"):
            continue  # complete finite enumeration
        if (group or "").startswith("order"):
            raise AnalysisBroken("ordering symbol %s compared with constant %r (line %s)" % (sym, c, line))
        if sym not in bounds:
            raise AnalysisBroken("no partition declared for symbol %s" % sym)
        L, R = bounds[sym]
        cs = [c] if form == "id" else ([-c] if form == "neg" else [c, -c])
        for cc in cs:
            if not (L < cc < R):
                raise AnalysisBroken("comparison of %s with constant %r (line %s) is not uniform on the ray cells "
                                     "of the partition [%d..%d]" % (sym, c, line, L, R))


def sgn(x):
    return (x > 0) - (x < 0)


def filled(rule, w):
    if rule == "EvenOdd":
        return w % 2 != 0
    if rule == "NonZero":
        return w != 0
    if rule == "Positive":
        return w > 0
    if rule == "Negative":
        return w < 0
    raise ValueError(rule)


def setop(ct, s, c):
    if ct == "Intersection":
        return s and c
    if ct == "Union":
        return s or c
    if ct == "Difference":
        return s and not c
    if ct == "Xor":
        return s != c
    if ct == "NoClip":
        return False
    raise ValueError(ct)


def oracle_closed(fill, ct, ptype, wc, wc2):
    """Does a closed-path edge with these counts lie on the boundary of the
    solution region?  From the definition: wc is the winding number (own path
    type) of the side of the edge farther from zero, the other side is one
    closer to zero; wc2 is the winding number of the other path type in the
    region containing the edge."""
    own_a = filled(fill, wc)
    own_b = filled(fill, wc - sgn(wc))
    m = filled(fill, wc2)
    if ptype == "Subject":
        ra, rb = setop(ct, own_a, m), setop(ct, own_b, m)
    else:
        ra, rb = setop(ct, m, own_a), setop(ct, m, own_b)
    return ra != rb


def reachable_closed(fill, wc, wc2):
    if fill == "EvenOdd":
        return wc in (1, -1) and wc2 in (0, 1)
    return wc != 0


REPS = [-3, -2, -1, 0, 1, 2, 3]
BOUNDS = (-3, 3)   # -3 and 3 stand for the rays (-inf,-3] and [3,inf); -2..2 are singleton cells


def table_closed(db, chk, cfg, rule="T.closed"):
    f = db.one("ClipperBase::IsContributingClosed")
    ncell = 0
    bad = []
    for fill in FILL:
        for ct in CLIP:
            for pt in PTYPE:
                for wc in REPS:
                    for wc2 in REPS:
                        log = []
                        env = {
                            "fillrule_": enum_index(db, "FillRule", fill),
                            "cliptype_": enum_index(db, "ClipType", ct),
                            "e.wind_cnt": SymVal(wc, "wind_cnt", log),
                            "e.wind_cnt2": SymVal(wc2, "wind_cnt2", log),
                            "e.local_min->polytype": enum_index(db, "PathType", pt),
                        }
                        it = Interp(db, env, log)
                        got = it.run_function(f)
                        check_uniform(log, {"wind_cnt": BOUNDS, "wind_cnt2": BOUNDS})
                        if not isinstance(got, bool):
                            raise AnalysisBroken("IsContributingClosed returned non-bool %r" % (got,))
                        if not reachable_closed(fill, wc, wc2):
                            continue
                        ncell += 1
                        want = oracle_closed(fill, ct, pt, wc, wc2)
                        cell = {"fill": fill, "clip": ct, "ptype": pt, "wind_cnt": wc, "wind_cnt2": wc2, "code": got, "oracle": want}
                        chk.instance(rule, cell if ncell % 97 == 1 else None, ok=(got == want))
                        if got != want:
                            bad.append(cell)
    for cell in bad[:1]:
        chk.violation(rule, f.qual, "%s/%s/%s/wc=%d/wc2=%d" % (cell["clip"], cell["fill"], cell["ptype"], cell["wind_cnt"], cell["wind_cnt2"]),
                      "closed-path contribution table deviates from the set-algebra definition on %d reachable cell(s); first: %s"
                      % (len(bad), cell), f.where, detail=bad[:20], cfg=cfg)
    return ncell
