"""E1 - global state and shared-data immutability (C14, part of C12).

R1  no writable static-storage state  (AST + IR)
R2  shared Vertex data is never written outside the path-loading functions, and
    those are not reachable from the execution phase  (IR, call graph)
R3  only thread-safe externals are reachable from library code  (IR, call graph)
"""
import re

from ..astq import walk, kids, strip, qt, dqt, where, short_file
from ..extract import AnalysisBroken

# ---- frozen tables ---------------------------------------------------------

# mutable static-storage variables that are allowed to exist, with the only
# functions that may write them
GLOBAL_ALLOW = {
    "dllCallback64": ({"SetZCallback64"},
                      "C-ABI registration slot of clipper.export.h (USINGZ only); C14's scope is the C++ objects; "
                      "written only by SetZCallback64"),
    "dllCallbackD": ({"SetZCallbackD"},
                     "C-ABI registration slot of clipper.export.h (USINGZ only); written only by SetZCallbackD"),
}

VERTEX_STRUCT = '%"struct.Clipper2Lib::Vertex"'
# functions that may write Vertex objects (path loading only)
VERTEX_WRITERS = {
    "Clipper2Lib::AddPaths_": "builds the vertex rings when paths are added",
    "Clipper2Lib::AddLocMin": "sets the LocalMin flag while paths are added",
    "Clipper2Lib::ClipperBase::AddLocMin": "sets the LocalMin flag while paths are added",
    "Clipper2Lib::ReuseableDataContainer64::AddLocMin": "sets the LocalMin flag while paths are added",
    "Clipper2Lib::Vertex::Vertex": "constructor (new Vertex[n] in AddPaths_)",
}
# the execution and output phase: nothing reachable from here may write a Vertex
EXEC_ENTRIES = [
    "Clipper2Lib::ClipperBase::ExecuteInternal",
    "Clipper2Lib::Clipper64::BuildPaths64",
    "Clipper2Lib::Clipper64::BuildTree64",
    "Clipper2Lib::ClipperD::BuildPathsD",
    "Clipper2Lib::ClipperD::BuildTreeD",
    "Clipper2Lib::ClipperBase::CleanUp",
]

EXTERN_ALLOW_EXACT = {
    # allocation
    "operator new(unsigned long)", "operator new[](unsigned long)", "operator delete(void*)",
    "operator delete[](void*)", "operator delete(void*, unsigned long)", "operator delete[](void*, unsigned long)",
    "operator new(unsigned long, std::nothrow_t const&)",  # libstdc++ temporary buffer of stable_sort
    # C library, thread-safe and stateless
    "abs", "labs", "llabs", "strlen", "memcpy", "memmove", "memset", "memcmp", "memchr",
    # libm (no errno-dependent behaviour is relied upon)
    "acos", "asin", "atan", "atan2", "sin", "cos", "tan", "sqrt", "ilogb", "log10", "log", "log2", "exp", "pow",
    "ceil", "floor", "fabs", "nearbyint", "round", "lround", "llround", "trunc", "hypot", "fmin", "fmax", "fmod",
    "ldexp", "frexp", "scalbn", "copysign",
    # C++ runtime
    "std::terminate()", "__gxx_personality_v0", "__dynamic_cast",
    "abort",   # -fno-exceptions: libstdc++'s __throw_* helpers end in abort(); thread-safe, no shared state
}
EXTERN_ALLOW_PREFIX = (
    "llvm.", "__cxa_", "_Unwind_", "std::__throw_", "std::exception::", "std::bad_",
    "std::allocator<char>::", "std::__cxx11::basic_string<char", "std::basic_ostream<", "std::ostream::",
    "std::basic_ostream<char", "std::operator<<", "std::endl", "std::ios_base::", "std::basic_ios<",
    "std::_Rb_tree_", "std::__detail::_List_node_base", "std::_Hash_bytes", "std::type_info::",
    "std::uncaught_exception", "std::logic_error::", "std::runtime_error::", "std::length_error::",
    "std::out_of_range::", "std::ctype<", "std::locale::",  # (stream formatting of caller-supplied streams)
    "vtable for ", "typeinfo for ",
)
# never acceptable even if somebody extends the prefixes above
EXTERN_DENY = {"rand", "srand", "random", "strtok", "setlocale", "localtime", "gmtime", "asctime", "ctime", "time",
               "clock", "getenv", "tmpnam", "strerror", "rand_r", "drand48", "lrand48", "std::random_device::"}


# ---- R1: AST side -------------------------------------------------------------

def _is_top_const(node):
    """Top-level const qualification of a variable's declared type."""
    t = dqt(node).strip()
    if not t:
        return False
    # pointer / reference: const must follow the last * to qualify the object itself
    depth = 0
    last_star = -1
    for i, ch in enumerate(t):
        if ch in "<(":
            depth += 1
        elif ch in ">)":
            depth -= 1
        elif ch in "*&" and depth == 0:
            last_star = i
    if last_star >= 0:
        tail = t[last_star + 1:]
        return bool(re.search(r'\bconst\b', tail))
    return bool(re.match(r'^const\b', t)) or bool(re.search(r'\bconst$', t))


def static_storage_vars(db):
    """(VarDecl node, qualified name, enclosing function or None) for every
    variable with static or thread storage duration in the analysed namespace."""
    out = []
    for n, qual, cls in db.globals:
        out.append((n, qual, None))
    for f in db.funcs:
        if f.is_inst:
            continue  # the pattern carries the same declarations
        for x in walk(f.body):
            if x.get("kind") == "VarDecl" and (x.get("storageClass") == "static" or x.get("tls")):
                out.append((x, f.qual + "::" + x.get("name", "?"), f))
    return out


def _parents(root):
    par = {}
    stack = [root]
    while stack:
        n = stack.pop()
        for c in kids(n):
            if isinstance(c, dict):
                par[id(c)] = n
                stack.append(c)
    return par


def _is_pure_read(ref, par):
    """True if the DeclRefExpr `ref` is used only as an rvalue / const object."""
    n = ref
    p = par.get(id(n))
    while p is not None and p.get("kind") in ("ParenExpr",):
        n, p = p, par.get(id(p))
    if p is None:
        return True
    k = p.get("kind")
    if k == "ImplicitCastExpr":
        ck = p.get("castKind")
        if ck in ("LValueToRValue", "ArrayToPointerDecay", "FunctionToPointerDecay"):
            # ArrayToPointerDecay of a non-const array could be written through; keep strict
            return ck != "ArrayToPointerDecay" or "const" in qt(p)
        if ck in ("NoOp", "DerivedToBase", "UncheckedDerivedToBase"):
            # qualification conversion: fine if the result type is const-qualified
            t = qt(p)
            if re.match(r'^const\b', t) or re.search(r'\bconst\b\s*$', t):
                return True
            return False
        return False
    if k == "MemberExpr":
        # access to a member of the global object: judge by the use of the member expression
        return _is_pure_read(p, par)
    if k in ("CXXMemberCallExpr",):
        return False
    if k == "CXXOperatorCallExpr":
        return False
    if k in ("DeclStmt", "CompoundStmt", "IfStmt"):
        return True  # discarded-value expression
    return False


def rule_r1_ast(db, chk, cfg):
    vars_ = static_storage_vars(db)
    mutable = []
    for n, qual, fn in vars_:
        name = n.get("name", "?")
        const = _is_top_const(n) or n.get("constexpr")
        local = fn is not None
        sample = {"var": qual, "type": qt(n), "const": bool(const), "where": where(n), "cfg": cfg}
        if local and not const:
            chk.instance("R1.static-storage", sample, ok=False)
            chk.violation("R1.local-static", fn.qual, name,
                          "function-local static/thread_local variable '%s' of non-const type %s: mutable state "
                          "shared by all callers on all threads" % (name, qt(n)), where(n), cfg=cfg)
            continue
        chk.instance("R1.static-storage", sample)
        if not const:
            mutable.append((n, qual))
    # write sites of mutable globals
    ids = {n["id"]: (n, qual) for n, qual in mutable}
    writes = {}  # var name -> [(func qual, where)]
    if ids:
        for f in db.funcs:
            par = None
            for x in walk(f.body):
                if x.get("kind") == "DeclRefExpr" and x.get("referencedDecl", {}).get("id") in ids:
                    if par is None:
                        par = _parents(f.body)
                    if not _is_pure_read(x, par):
                        vn, vq = ids[x["referencedDecl"]["id"]]
                        writes.setdefault(vn.get("name"), []).append((f, where(x)))
    for n, qual in mutable:
        name = n.get("name")
        ws = writes.get(name, [])
        allow = GLOBAL_ALLOW.get(name)
        if allow:
            chk.allow("R1", name, allow[1])
        elif not ws:
            chk.allow("R1", name, "declared type %s is not const-qualified, but the variable has zero write sites "
                                  "(AST: every use is an rvalue read or a const binding; IR: no store)" % qt(n))
        for f, w in ws:
            if allow and f.name in allow[0]:
                continue
            chk.violation("R1.global-write", f.qual, name,
                          "writable static-storage variable '%s' (%s) is written, or escapes through a non-const "
                          "binding, here" % (name, qt(n)), w, cfg=cfg)
    return len(vars_)


# ---- R1: IR side ----------------------------------------------------------------

_INIT_FN = re.compile(r'^(__cxx_global_var_init|_GLOBAL__sub_I_|__cxx_global_array_dtor)')


def _lib_function(f):
    d = f.demangled
    return d.startswith("Clipper2Lib::") or (not d.startswith("std::") and not d.startswith("__gnu_cxx::")
                                             and not d.startswith("void std::") and "Clipper2Lib::" in d.split("(")[0])


def rule_r1_ir(mod, chk, cfg):
    gl = {}
    for name, (text, dem) in mod.globals.items():
        if name.startswith(".str") or name.startswith("llvm."):
            continue
        if " alias " in " " + text:
            continue
        if re.match(r'^(_ZTV|_ZTS|_ZTI|_ZTT)', name):
            continue
        is_const = bool(re.search(r'\bconstant\b', text.split("{")[0].split("[")[0].split("%")[0]))
        gl[name] = (dem, is_const, text)
    n = 0
    guard_users = []
    for f in mod.funcs.values():
        in_init = bool(_INIT_FN.match(f.name))
        for i in f.insts():
            if i.op in ("call", "invoke") and i.callee in ("__cxa_guard_acquire",):
                if "Clipper2Lib" in f.demangled:
                    guard_users.append(f)
            if "@" not in i.text:
                continue
            if i.op == "store":
                parts = i.text.split(",", 1)
                ptr_part = parts[1] if len(parts) > 1 else ""
                for g in re.findall(r'@("[^"]+"|[\w.$]+)', ptr_part):
                    g = g.strip('"')
                    if g in gl:
                        n += 1
                        dem, is_const, _ = gl[g]
                        if in_init:
                            continue
                        short = dem.split("::")[-1]
                        allow = GLOBAL_ALLOW.get(short)
                        if allow and any(a in f.demangled for a in allow[0]):
                            continue
                        chk.violation("R1.ir-store", f.short, short,
                                      "IR store to static-storage object %s outside its initialiser" % dem,
                                      "line %s" % i.line, cfg=cfg)
            elif i.op in ("call", "invoke") and i.callee and i.callee.startswith("llvm.mem") and i.args:
                dest = i.args[0][1]
                for g in re.findall(r'@("[^"]+"|[\w.$]+)', dest):
                    g = g.strip('"')
                    if g in gl and not in_init:
                        dem = gl[g][0]
                        chk.violation("R1.ir-store", f.short, dem.split("::")[-1],
                                      "IR %s into static-storage object %s" % (i.callee, dem), "line %s" % i.line, cfg=cfg)
    for name, (dem, is_const, text) in gl.items():
        if name.startswith("_ZZ") or name.startswith("_ZGV"):
            if "Clipper2Lib" in dem and not is_const:
                chk.violation("R1.local-static", dem, dem.split("::")[-1],
                              "function-local static object %s in the emitted code" % dem, "IR global @" + name, cfg=cfg)
    for f in guard_users:
        chk.violation("R1.local-static", f.short, "__cxa_guard_acquire",
                      "function-local static with dynamic initialisation (guard variable) in library code",
                      "IR function " + f.name, cfg=cfg)
    chk.instance("R1.ir-globals", {"globals": len(gl), "stores_to_globals_seen": n, "cfg": cfg}, n=max(len(gl), 1))
    return len(gl)


# ---- R2: shared vertices ---------------------------------------------------------

def _resolve_alias(mod, name):
    g = mod.globals.get(name)
    if g and " alias " in " " + g[0]:
        m = re.findall(r'@("[^"]+"|[\w.$]+)', g[0])
        if m:
            return m[-1].strip('"')
    return name


def _vertex_derived_writes(f, written_params):
    """Instructions of f that may write memory reached through a pointer into a
    Vertex object.  written_params: callee name -> set of param indices the callee may write through."""
    derived = set()
    changed = True
    insts = list(f.insts())
    while changed:
        changed = False
        for i in insts:
            if i.dst is None or i.dst in derived:
                continue
            if i.op == "getelementptr":
                if i.struct == VERTEX_STRUCT and (i.idx and len(i.idx) >= 2):
                    derived.add(i.dst)
                    changed = True
                elif i.src in derived:
                    derived.add(i.dst)
                    changed = True
            elif i.op == "bitcast" and i.src in derived:
                derived.add(i.dst)
                changed = True
            elif i.op == "phi" and i.incoming and any(a in derived for a, _ in i.incoming):
                derived.add(i.dst)
                changed = True
            elif i.op == "select" and any(r in derived for r in re.findall(r'%[\w.$]+', i.text.split("=", 1)[1])):
                derived.add(i.dst)
                changed = True
    # a bitcast of a Vertex* itself (whole-object copy) also counts
    for i in insts:
        if i.op == "bitcast" and i.dst and re.search(re.escape(VERTEX_STRUCT) + r'\* %', i.text.split(" to ")[0]):
            derived.add(i.dst)
    out = []
    for i in insts:
        if i.op == "store" and i.ptr in derived:
            out.append(i)
        elif i.op in ("call", "invoke") and i.args:
            for k, (v, _) in enumerate(i.args):
                if v in derived:
                    if i.callee is None:
                        out.append(i)
                    elif k in written_params.get(i.callee, ()):
                        out.append(i)
    return out


def written_param_summary(mod):
    """callee -> set of parameter indices through which memory may be written (transitive)."""
    summ = {}
    for n in mod.decls:
        if n.startswith("llvm.memcpy") or n.startswith("llvm.memmove") or n.startswith("llvm.memset"):
            summ[n] = {0}
        elif n.startswith("llvm.") or n in EXTERN_ALLOW_EXACT or mod.decls[n][1] in EXTERN_ALLOW_EXACT:
            summ[n] = set()
        else:
            summ[n] = set()  # remaining externals are checked by R3; none takes library pointers
    for n in mod.funcs:
        summ[n] = set()
    changed = True
    rounds = 0
    while changed and rounds < 50:
        changed = False
        rounds += 1
        for n, f in mod.funcs.items():
            pregs = {r: k for k, (r, _) in enumerate(f.params)}
            # derived-from-param map
            der = dict(pregs)
            insts = list(f.insts())
            ch2 = True
            while ch2:
                ch2 = False
                for i in insts:
                    if i.dst is None or i.dst in der:
                        continue
                    srcs = []
                    if i.op in ("getelementptr", "bitcast"):
                        srcs = [i.src]
                    elif i.op == "phi" and i.incoming:
                        srcs = [a for a, _ in i.incoming]
                    for s in srcs:
                        if s in der:
                            der[i.dst] = der[s]
                            ch2 = True
                            break
            w = summ[n]
            for i in insts:
                if i.op == "store" and i.ptr in der and der[i.ptr] not in w:
                    w.add(der[i.ptr])
                    changed = True
                elif i.op in ("call", "invoke") and i.args:
                    cal = _resolve_alias(mod, i.callee) if i.callee else None
                    for k, (v, _) in enumerate(i.args):
                        if v in der and der[v] not in w:
                            if cal is None or k in summ.get(cal, {k}):
                                w.add(der[v])
                                changed = True
    return summ


def rule_r2(mod, chk, cfg, strict=True):
    summ = written_param_summary(mod)
    writers = {}
    for n, f in mod.funcs.items():
        ws = _vertex_derived_writes(f, summ)
        if ws:
            writers[n] = (f, ws)
    # callgraph reachability from the execution phase
    cg = {}
    for n, f in mod.funcs.items():
        cg[n] = set(_resolve_alias(mod, c.callee) for c in f.calls() if c.callee)
    entries = []
    for e in EXEC_ENTRIES:
        fs = mod.find(e, required=strict)
        entries += [x.name for x in fs]
    reach = {}
    stack = [(e, (e,)) for e in entries]
    while stack:
        n, path = stack.pop()
        if n in reach:
            continue
        reach[n] = path
        for c in cg.get(n, ()):
            if c not in reach and c in mod.funcs:
                stack.append((c, path + (c,)))
    nsites = 0
    for n, (f, ws) in writers.items():
        nsites += len(ws)
        short = f.short
        base = short.split("<")[0]
        allowed = short in VERTEX_WRITERS or base in VERTEX_WRITERS
        sample = {"function": short, "stores": len(ws), "lines": sorted({w.line for w in ws if w.line})[:6], "cfg": cfg}
        chk.instance("R2.vertex-writers", sample, ok=allowed)
        if not allowed:
            chk.violation("R2.vertex-write", short, "Vertex",
                          "writes a Vertex object (lines %s); vertices may be shared between clippers through "
                          "ReuseableDataContainer64 and must be read-only outside path loading"
                          % sorted({w.line for w in ws if w.line})[:6], "IR function " + f.name, cfg=cfg)
        elif allowed:
            chk.allow("R2", short, VERTEX_WRITERS.get(short) or VERTEX_WRITERS.get(base))
        if n in reach and allowed:
            chain = " -> ".join(mod.funcs[x].short for x in reach[n])
            chk.violation("R2.writer-reachable", short, "exec-phase",
                          "Vertex-writing function is reachable from the execution phase: " + chain,
                          "IR function " + f.name, cfg=cfg)
    # AddReuseableData must copy the LocalMinima, not share them
    ards = mod.find("Clipper2Lib::ClipperBase::AddReuseableData", required=strict)
    for f in ards:
        makes = [c for c in f.calls() if c.callee and "make_unique" in (mod.funcs.get(c.callee).demangled if c.callee in mod.funcs else "")
                 and "LocalMinima" in mod.funcs[c.callee].demangled]
        chk.instance("R2.reuse-copies-minima", {"function": f.short, "make_unique<LocalMinima> calls": len(makes), "cfg": cfg},
                     ok=bool(makes))
        if not makes:
            chk.violation("R2.shared-minima", f.short, "LocalMinima",
                          "AddReuseableData no longer creates its own LocalMinima objects (no make_unique<LocalMinima>)",
                          "IR function " + f.name, cfg=cfg)
    chk.extra.setdefault("exec_phase_reachable_functions", {})[cfg] = len(reach)
    return nsites


# ---- R3: externals -----------------------------------------------------------------

def _extern_ok(dem):
    base = dem.split("(")[0].strip()
    for d in EXTERN_DENY:
        if base == d or base.startswith(d):
            return False
    if dem in EXTERN_ALLOW_EXACT or base in EXTERN_ALLOW_EXACT:
        return True
    for p in EXTERN_ALLOW_PREFIX:
        if dem.startswith(p) or base.startswith(p):
            return True
    return False


def rule_r3(mod, chk, cfg):
    cg = {}
    for n, f in mod.funcs.items():
        cg[n] = set(_resolve_alias(mod, c.callee) for c in f.calls() if c.callee)
        # functions whose address is taken inside f (callbacks, vtables aside)
        for i in f.insts():
            if i.op in ("store", "call", "invoke", "bitcast") and "@" in i.text:
                for g in re.findall(r'@("[^"]+"|[\w.$]+)', i.text):
                    g = g.strip('"')
                    if g in mod.funcs or g in mod.decls:
                        cg[n].add(g)
    roots = [n for n, f in mod.funcs.items() if _lib_function(f) or "Clipper2Lib" in f.demangled.split("(")[0]]
    # exported C functions
    for n, f in mod.funcs.items():
        if not n.startswith("_Z") and not n.startswith("__cxx") and not n.startswith("_GLOBAL"):
            roots.append(n)
    reach = {}
    stack = [(r, (r,)) for r in roots]
    while stack:
        n, path = stack.pop()
        if n in reach:
            continue
        reach[n] = path
        for c in cg.get(n, ()):
            if c not in reach:
                stack.append((c, path + (c,)))
    ext = [n for n in reach if n in mod.decls]
    for n in sorted(ext):
        dem = mod.decls[n][1]
        ok = _extern_ok(dem)
        chk.instance("R3.externals", {"extern": dem, "cfg": cfg} if len(chk.rules.get("R3.externals", {}).get("samples", [])) < 6 else None, ok=ok)
        if not ok:
            path = reach[n]
            chain = " -> ".join((mod.funcs[x].short if x in mod.funcs else mod.decls[x][1]) for x in path[-5:])
            chk.violation("R3.extern", (mod.funcs[path[-2]].short if len(path) > 1 and path[-2] in mod.funcs else "?"),
                          dem.split("(")[0],
                          "external function %s is not in the frozen list of thread-safe externals; call chain: %s"
                          % (dem, chain), "IR", cfg=cfg)
    chk.extra.setdefault("externals_reachable", {})[cfg] = sorted(mod.decls[n][1].split("(")[0] for n in ext)
    return len(ext)


# ---- determinism add-on (shared with C12) -----------------------------------------

def rule_pointer_order(db, chk, cfg):
    """No relational comparison of pointers, no unordered containers (address- or hash-order dependence)."""
    n = 0
    for f in db.funcs:
        if f.is_pattern and any(g.qual == f.qual and g.is_inst for g in db.funcs):
            continue
        for x in walk(f.body):
            if x.get("kind") == "BinaryOperator" and x.get("opcode") in ("<", ">", "<=", ">="):
                n += 1
                a, b = kids(x)[0], kids(x)[1]
                ta, tb = dqt(a), dqt(b)
                if ta.rstrip().endswith("*") and tb.rstrip().endswith("*"):
                    chk.violation("DET.pointer-order", f.qual, "%s:%s" % (short_file(x.get("file")), x.get("line")),
                                  "relational comparison of pointers (%s %s %s): result depends on allocation addresses"
                                  % (ta, x.get("opcode"), tb), where(x), cfg=cfg)
            elif x.get("kind") == "VarDecl" or x.get("kind") == "FieldDecl":
                if "unordered_" in dqt(x):
                    chk.violation("DET.unordered", f.qual, x.get("name", "?"),
                                  "unordered container %s: iteration order is unspecified" % dqt(x), where(x), cfg=cfg)
    for r in db.records.values():
        for fd in r.fields:
            if "unordered_" in dqt(fd):
                chk.violation("DET.unordered", r.qual, fd.get("name", "?"),
                              "unordered container member %s" % dqt(fd), where(fd), cfg=cfg)
    chk.instance("DET.relational-comparisons", {"count": n, "cfg": cfg}, n=max(n, 1))
    return n


# ---- R2b: the shared container itself is read-only for its users ---------------------

CONTAINER_STRUCT = '%"class.Clipper2Lib::ReuseableDataContainer64"'


def rule_r2b(db, mod, chk, cfg, rule="R2b.container-read-only"):
    """A ReuseableDataContainer64 may be shared by clippers running on different threads, so only its own methods may
    write it: (a) it has no `mutable` member (a const reference must really be read-only); (b) in the IR no function
    outside the class stores through a pointer derived from a member of the container."""
    rec = db.record("ReuseableDataContainer64")
    n = 0
    for fd in rec.fields:
        n += 1
        ok = not fd.get("mutable")
        chk.instance(rule, {"member": fd.get("name"), "mutable": bool(fd.get("mutable")), "cfg": cfg}, ok=ok)
        if not ok:
            chk.violation(rule, "ReuseableDataContainer64", fd.get("name"),
                          "member '%s' of the shareable container is declared mutable: code holding a const reference (every clipper that "
                          "uses the container) can write it, which is a data race between threads sharing the container" % fd.get("name"),
                          where(fd), cfg=cfg)
    summ = written_param_summary(mod)
    for name, f in mod.funcs.items():
        d = f.demangled
        if d.startswith("Clipper2Lib::ReuseableDataContainer64::"):
            continue
        derived = set()
        insts = list(f.insts())
        changed = True
        while changed:
            changed = False
            for i in insts:
                if i.dst is None or i.dst in derived:
                    continue
                if i.op == "getelementptr" and (i.struct == CONTAINER_STRUCT and i.idx and len(i.idx) >= 2 or i.src in derived):
                    derived.add(i.dst)
                    changed = True
                elif i.op == "bitcast" and i.src in derived:
                    derived.add(i.dst)
                    changed = True
        if not derived:
            continue
        writes = []
        for i in insts:
            if i.op == "store" and i.ptr in derived:
                writes.append(i)
            elif i.op in ("call", "invoke") and i.args:
                for k, (v, _) in enumerate(i.args):
                    if v in derived and (i.callee is None or k in summ.get(_resolve_alias(mod, i.callee), ())):
                        # const member functions of std containers take `this` but never write through it
                        cal = _resolve_alias(mod, i.callee) if i.callee else None
                        dem = mod.funcs[cal].demangled if cal in mod.funcs else ""
                        if dem.rstrip().endswith("const"):
                            continue
                        writes.append(i)
        n += 1
        ok = not writes
        chk.instance(rule, {"function": f.short, "touches_container_members": True, "writes": len(writes), "cfg": cfg}, ok=ok)
        if writes:
            chk.violation(rule, f.short, "container",
                          "writes a member of a ReuseableDataContainer64 from outside the class (lines %s); clippers on different threads may "
                          "share one container, which must stay read-only for them" % sorted({w.line for w in writes if w.line})[:5],
                          "IR function " + f.name, cfg=cfg)
    return n
