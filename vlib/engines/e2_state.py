"""E2 - member-state hygiene (C12, C07, parts of C04).

For a stateful class K the engine abstracts every statement of K's methods to
effects on K's fields (use / def / partial def / container made clean / made
dirty / call of another method of the same object) and runs two forward
must-analyses over the structured CFG:

  defined  - fields certainly written since the start of the analysed scope
  clean    - container fields certainly empty

Summaries of callees are computed on demand (fix-point for recursion) and
*configuration splitting* analyses a scope once per truth value of option
fields that the scope cannot modify (deltaCallback64_, ...).

Rules built on top:
  DBU    def-before-use of scratch fields in every public operation
  CLEAN  scratch containers: clean at entry => clean at every normal exit, for every public method
  CLEAR  Clear() resets everything the Add* family may touch
  LOOP   no state is carried from one iteration of a per-path / per-group loop to the next
"""
import re

from ..astq import walk, kids, strip, qt, dqt, where, canon, if_parts  # noqa
from ..flow import Walker, Client
from ..extract import AnalysisBroken

CLEAN_METHODS = {"clear"}
DIRTY_METHODS = {"push_back", "emplace_back", "push", "emplace", "insert", "emplace_front", "push_front", "assign",
                 "swap", "append", "merge", "splice"}
USE_METHODS = {"size", "empty", "begin", "end", "cbegin", "cend", "rbegin", "rend", "crbegin", "crend", "operator[]", "at",
               "front", "back", "top", "data", "capacity", "reserve", "pop", "pop_back", "pop_front", "erase", "get",
               "has_value", "value", "operator bool", "operator()", "operator*", "operator->", "max_size", "shrink_to_fit",
               "count", "find", "length", "c_str", "target"}
CAST_T = ("ImplicitCastExpr", "ParenExpr", "MaterializeTemporaryExpr", "ExprWithCleanups", "CXXBindTemporaryExpr", "ConstantExpr")


def _unwrap(n):
    while isinstance(n, dict) and n.get("kind") in CAST_T and kids(n):
        n = kids(n)[0]
    return n


def _is_empty_temp(n):
    n = _unwrap(n)
    k = n.get("kind")
    if k in ("CXXTemporaryObjectExpr", "CXXConstructExpr") and not [c for c in kids(n) if c.get("kind") != "CXXDefaultArgExpr"]:
        return True
    if k == "CXXFunctionalCastExpr" and kids(n):
        return _is_empty_temp(kids(n)[0])
    if k == "InitListExpr" and not kids(n):
        return True
    return False


class Summary:
    __slots__ = ("ubd", "must_def", "may_def", "must_clean", "may_dirty", "obs")

    def __init__(self):
        self.ubd = {}          # key -> first node that reads it before a definition
        self.must_def = frozenset()
        self.may_def = set()
        self.must_clean = frozenset()
        self.may_dirty = set()

    def sig(self):
        return (frozenset(self.ubd), self.must_def, frozenset(self.may_def), self.must_clean, frozenset(self.may_dirty))


class E2:
    def __init__(self, db, chk, cfg, classes):
        """classes: list of record quals whose fields are tracked (a class and its bases)."""
        self.db, self.chk, self.cfg = db, chk, cfg
        self.classes = classes
        self.fields = {}
        for c in classes:
            r = db.record(c)
            for fd in r.fields:
                self.fields[fd.get("name")] = fd
        self.field_ids = {fd["id"]: name for name, fd in self.fields.items()}
        self._summ = {}
        self._in_progress = {}
        self.unknown_methods = set()

    # ------------------------------------------------------------------
    # which tracked variable does an expression denote?
    # ------------------------------------------------------------------
    def tracked(self, e, alias):
        """(key, partial) if e denotes a tracked variable (or part of one), else None."""
        e = _unwrap(e)
        k = e.get("kind")
        if k == "MemberExpr":
            ks = kids(e)
            base = _unwrap(ks[0]) if ks else None
            if base is not None and base.get("kind") == "CXXThisExpr":
                name = e.get("name")
                if e.get("referencedMemberDecl") in self.field_ids:
                    return (self.field_ids[e["referencedMemberDecl"]], False)
                return None
            if base is not None and not e.get("isArrow"):
                t = self.tracked(base, alias)
                if t is not None and "<bound member function type>" not in qt(e):
                    return (t[0], True)
            return None   # p->m designates the pointee, which is not the tracked variable
        if k == "DeclRefExpr":
            did = e.get("referencedDecl", {}).get("id")
            if did in alias:
                return (alias[did], False)
            return None
        if k == "ArraySubscriptExpr":
            t = self.tracked(kids(e)[0], alias)
            if t is not None:
                return (t[0], True)
            return None
        if k == "CXXOperatorCallExpr":
            ks = kids(e)
            op = strip(ks[0]).get("referencedDecl", {}).get("name", "")
            if op == "operator[]" and len(ks) >= 2:
                t = self.tracked(ks[1], alias)
                if t is not None:
                    return (t[0], True)
            return None   # *it / it-> designate the pointee
        if k == "UnaryOperator" and e.get("opcode") == "*":
            inner = _unwrap(kids(e)[0])
            if inner.get("kind") == "CXXThisExpr":
                return None
            return None
        return None

    # ------------------------------------------------------------------
    # effects of an expression / declaration, in evaluation order (approx.)
    # ------------------------------------------------------------------
    def effects(self, n, alias, out=None):
        if out is None:
            out = []
        if not isinstance(n, dict) or not n:
            return out
        n0 = _unwrap(n)
        k = n0.get("kind")
        ks = kids(n0)
        E = lambda x: self.effects(x, alias, out)
        t = self.tracked(n0, alias)
        if t is not None and k in ("MemberExpr", "DeclRefExpr", "ArraySubscriptExpr"):
            # evaluate index expressions too
            if k == "ArraySubscriptExpr":
                E(ks[1])
            out.append(("use", t[0], n0))
            return out
        if k == "BinaryOperator" and n0.get("opcode") == "=":
            E(ks[1])
            self._lhs(ks[0], alias, out, clean=None, node=n0)
            return out
        if k == "CompoundAssignOperator":
            E(ks[1])
            tl = self.tracked(ks[0], alias)
            if tl:
                out.append(("use", tl[0], n0))
                out.append(("pdef" if tl[1] else "def", tl[0], n0, None))
            else:
                E(ks[0])
            return out
        if k == "UnaryOperator" and n0.get("opcode") in ("++", "--"):
            tl = self.tracked(ks[0], alias)
            if tl:
                out.append(("use", tl[0], n0))
                out.append(("pdef" if tl[1] else "def", tl[0], n0, None))
            else:
                E(ks[0])
            return out
        if k == "UnaryOperator" and n0.get("opcode") == "&":
            tl = self.tracked(ks[0], alias)
            if tl:
                out.append(("use", tl[0], n0))
                out.append(("escape", tl[0], n0))
                return out
            E(ks[0])
            return out
        if k == "CXXOperatorCallExpr":
            op = strip(ks[0]).get("referencedDecl", {}).get("name", "")
            args = ks[1:]
            if op == "operator=" and len(args) == 2:
                E(args[1])
                self._lhs(args[0], alias, out, clean=True if _is_empty_temp(args[1]) else None, node=n0)
                return out
            if op in ("operator+=", "operator-=", "operator*=", "operator/=", "operator|=", "operator&=", "operator<<="):
                E(args[1])
                tl = self.tracked(args[0], alias)
                if tl:
                    out.append(("use", tl[0], n0))
                    out.append(("pdef" if tl[1] else "def", tl[0], n0, None))
                else:
                    E(args[0])
                return out
            if op in ("operator++", "operator--"):
                tl = self.tracked(args[0], alias)
                if tl:
                    out.append(("use", tl[0], n0))
                    out.append(("pdef" if tl[1] else "def", tl[0], n0, None))
                else:
                    E(args[0])
                return out
            # operator(), operator[], comparison, <<, ... : all operands are read
            f = self.db.callee_func(n0)
            self._call_args(n0, f, args, alias, out, obj=None)
            return out
        if k == "CXXMemberCallExpr":
            callee = _unwrap(ks[0])
            mname = callee.get("name", "")
            base = kids(callee)[0] if kids(callee) else None
            args = ks[1:]
            tb = self.tracked(base, alias) if base is not None else None
            f = self.db.callee_func(n0)
            if tb is not None:
                key, partial = tb
                # index expressions of the base
                b0 = _unwrap(base)
                if b0.get("kind") == "ArraySubscriptExpr":
                    E(kids(b0)[1])
                for a in args:
                    E(a)
                if f is not None and f.body is not None and not self._is_std(f):
                    # method of a library class on a tracked member object (e.g. rect_.IsEmpty()): const => use
                    const = "const" in (f.sig.split(")")[-1])
                    out.append(("use", key, n0))
                    if not const:
                        out.append(("pdef", key, n0, None))
                        out.append(("dirty", key, n0))
                    return out
                if mname in CLEAN_METHODS and not partial:
                    out.append(("def", key, n0, True))
                elif mname == "resize" and args and canon(args[0]) == "0" and not partial:
                    out.append(("def", key, n0, True))
                elif mname in DIRTY_METHODS or mname == "resize":
                    out.append(("dirty", key, n0))
                    out.append(("pdef", key, n0, None))
                elif mname in USE_METHODS:
                    out.append(("use", key, n0))
                    if mname in ("pop", "pop_back", "pop_front", "erase"):
                        out.append(("pdef", key, n0, None))
                elif mname in CLEAN_METHODS and partial:
                    out.append(("pdef", key, n0, None))
                else:
                    self.unknown_methods.add(mname)
                    out.append(("use", key, n0))
                    out.append(("pdef", key, n0, None))
                    out.append(("dirty", key, n0))
                return out
            b0 = _unwrap(base) if base is not None else None
            is_this = b0 is not None and b0.get("kind") == "CXXThisExpr"
            if not is_this and base is not None:
                E(base)
            self._call_args(n0, f, args, alias, out, obj="this" if is_this else None)
            return out
        if k == "CallExpr":
            f = self.db.callee_func(n0)
            c0 = _unwrap(ks[0])
            if c0.get("kind") not in ("DeclRefExpr",):
                E(ks[0])
            self._call_args(n0, f, ks[1:], alias, out, obj=None)
            return out
        if k in ("CXXConstructExpr", "CXXTemporaryObjectExpr"):
            for a in ks:
                E(a)
            return out
        if k == "LambdaExpr":
            # the body may run zero or more times later in the full expression: treat as inline effects
            for c in ks:
                if c.get("kind") == "CompoundStmt":
                    sub = []
                    for s in walk(c):
                        pass
                    out.append(("lambda", c, n0))
            return out
        if k == "DeclStmt":
            for d in ks:
                if d.get("kind") == "VarDecl":
                    for c in kids(d):
                        if c.get("kind"):
                            E(c)
            return out
        if k == "VarDecl":
            for c in ks:
                if c.get("kind"):
                    E(c)
            return out
        if k == "CXXCtorInitializer":
            for c in ks:
                E(c)
            any_id = n0.get("anyInit", {}).get("id")
            if any_id in self.field_ids:
                out.append(("def", self.field_ids[any_id], n0, None))
            return out
        if k == "CXXNewExpr" or k == "CXXDeleteExpr":
            for c in ks:
                E(c)
            return out
        if k in ("CompoundStmt", "IfStmt", "ForStmt", "WhileStmt", "DoStmt", "SwitchStmt", "CXXForRangeStmt", "ReturnStmt"):
            raise AnalysisBroken("statement %s reached the expression effect extractor (line %s)" % (k, n0.get("line")))
        for c in ks:
            E(c)
        return out

    def _lhs(self, lhs, alias, out, clean, node):
        tl = self.tracked(lhs, alias)
        if tl:
            l0 = _unwrap(lhs)
            if l0.get("kind") == "ArraySubscriptExpr":
                self.effects(kids(l0)[1], alias, out)
            if tl[1]:
                out.append(("pdef", tl[0], node, None))
                out.append(("dirty", tl[0], node))
            else:
                out.append(("def", tl[0], node, clean))
        else:
            self.effects(lhs, alias, out)

    def _is_std(self, f):
        return bool(f.file) and "/clipper2/" not in f.file and "/Clipper2Lib/" not in f.file

    def _call_args(self, call, f, args, alias, out, obj):
        """Arguments first, then the call itself (summary of the callee if it can see tracked state)."""
        sub_alias = {}
        params = f.params if f is not None else []
        name = self.db.callee(call)[0]
        for i, a in enumerate(args):
            ta = self.tracked(a, alias)
            p = params[i] if i < len(params) else None
            if ta is None:
                self.effects(a, alias, out)
                continue
            key, partial = ta
            a0 = _unwrap(a)
            if a0.get("kind") == "ArraySubscriptExpr":
                self.effects(kids(a0)[1], alias, out)
            pt = qt(p) if p is not None else None
            if pt is None:
                # unknown callee signature: judge by the argument's own type at the call
                at = qt(a)
                out.append(("use", key, a0))
                if "const" not in at and a.get("valueCategory") == "lvalue" and f is None and not self._known_pure(name):
                    out.append(("pdef", key, a0, None))
                    out.append(("dirty", key, a0))
                continue
            by_ref = "&" in pt or pt.rstrip().endswith("*")
            const_ref = by_ref and re.match(r'^const\b', pt.strip()) is not None
            if not by_ref or const_ref:
                out.append(("use", key, a0))
            elif f is not None and f.body is not None and not self._is_std(f) and not partial:
                sub_alias[p["id"]] = key
            else:
                out.append(("use", key, a0))
                out.append(("pdef", key, a0, None))
                out.append(("dirty", key, a0))
        if f is not None and f.body is not None and not self._is_std(f) and (obj == "this" or sub_alias):
            # pass on aliases of by-reference tracked variables; keep 'this' fields visible only for methods on this
            out.append(("call", f, sub_alias, obj == "this", call))
        return out

    @staticmethod
    def _known_pure(name):
        return name in ("min", "max", "abs", "fabs", "sqrt", "sin", "cos", "acos", "atan2", "ceil", "floor", "round", "pow",
                        "move", "forward", "get", "distance", "advance", "next", "prev", "begin", "end", "size", "swap")

    # ------------------------------------------------------------------
    # summaries
    # ------------------------------------------------------------------
    def summary(self, f, world, alias, this_visible):
        wkey = tuple(sorted(world.items()))
        key = (f.id, wkey, tuple(sorted(alias.items())), this_visible)
        if key in self._summ:
            return self._summ[key]
        if key in self._in_progress:
            return self._in_progress[key]
        prov = Summary()
        prov.must_def = frozenset(self.fields) if this_visible else frozenset()
        prov.must_clean = frozenset()
        self._in_progress[key] = prov
        for _ in range(6):
            s = self._analyse(f, world, alias, this_visible, entry=(frozenset(), frozenset()))
            if s.sig() == prov.sig():
                break
            prov.ubd, prov.must_def, prov.may_def = s.ubd, s.must_def, s.may_def
            prov.must_clean, prov.may_dirty = s.must_clean, s.may_dirty
        del self._in_progress[key]
        self._summ[key] = s
        return s

    def _analyse(self, f, world, alias, this_visible, entry, body=None, region=False):
        cl = _StateClient(self, f, world, alias, this_visible)
        w = _StateWalker(cl)
        st = entry
        if body is None:
            for init in f.inits:
                st = cl.stmt(init, st)
            body = f.body
        if region:
            from ..flow import _Ctx
            ctx = _Ctx()
            w.loops.append(ctx)
            out = w.run(body, st)
            w.loops.pop()
            backs = [s for s in [out] + ctx.continues if s is not None]
            cl.exits += backs
            cl.region_breaks = [s for s in ctx.breaks if s is not None]
        else:
            w.function(body, st)
        s = Summary()
        s.ubd = cl.ubd
        s.may_def = cl.may_def
        s.may_dirty = cl.may_dirty
        if cl.exits:
            d = None
            c = None
            for (dd, cc) in cl.exits:
                d = dd if d is None else (d & dd)
                c = cc if c is None else (c & cc)
            s.must_def, s.must_clean = d, c
        else:
            s.must_def = frozenset(self.fields)
            s.must_clean = frozenset(self.fields)
        s.obs = cl.obs
        return s


class _StateClient(Client):
    def __init__(self, eng, func, world, alias, this_visible):
        self.eng, self.func, self.world, self.alias, self.this_visible = eng, func, world, alias, this_visible
        self.ubd = {}
        self.obs = {}        # every observing read: key -> [nodes]
        self.may_def = set()
        self.may_dirty = set()
        self.exits = []
        self.region_breaks = []

    def join(self, a, b):
        return (a[0] & b[0], a[1] & b[1])

    def _vis(self, key):
        return self.this_visible or key in self.alias.values() or key.startswith("L:")

    def apply(self, eff, st):
        d, c = st
        kind = eff[0]
        if kind == "use":
            key = eff[1]
            self.obs.setdefault(key, []).append(eff[2])
            if key not in d and key not in self.ubd:
                self.ubd[key] = eff[2]
            return st
        if kind == "def":
            key, clean = eff[1], eff[3]
            self.may_def.add(key)
            d = d | {key}
            if clean:
                c = c | {key}
            else:
                if key in c:
                    c = c - {key}
                self.may_dirty.add(key)
            return (d, c)
        if kind == "pdef":
            self.may_def.add(eff[1])
            return st
        if kind == "dirty":
            key = eff[1]
            self.may_dirty.add(key)
            if key in c:
                c = c - {key}
            return (d, c)
        if kind == "escape":
            key = eff[1]
            self.may_def.add(key)
            self.may_dirty.add(key)
            return (d, c - {key})
        if kind == "lambda":
            body = eff[1]
            sub = self.eng._analyse(self.func, self.world, self.alias, self.this_visible, entry=st, body=body)
            for k2, n2 in sub.ubd.items():
                if k2 not in d and k2 not in self.ubd:
                    self.ubd[k2] = n2
            for k2, ns in getattr(sub, "obs", {}).items():
                self.obs.setdefault(k2, []).extend(ns)
            self.may_def |= sub.may_def
            self.may_dirty |= sub.may_dirty
            return (d, c - frozenset(sub.may_dirty))
        if kind == "call":
            f, sub_alias, this_vis, node = eff[1], eff[2], eff[3], eff[4]
            alias = dict(sub_alias)
            s = self.eng.summary(f, self.world, alias, this_vis and self.this_visible or (this_vis and True))
            for k2, n2 in s.ubd.items():
                if k2 not in d and k2 not in self.ubd:
                    self.ubd[k2] = (n2, node) if not isinstance(n2, tuple) else n2
            for k2, ns in getattr(s, "obs", {}).items():
                self.obs.setdefault(k2, []).append(node)
            self.may_def |= s.may_def
            self.may_dirty |= s.may_dirty
            return (d | s.must_def, (c - frozenset(s.may_dirty)) | s.must_clean)
        raise AnalysisBroken("unknown effect %r" % (kind,))

    def stmt(self, node, st):
        for eff in self.eng.effects(node, self.alias):
            st = self.apply(eff, st)
        return st

    def cond_atom(self, e, st):
        # configuration splitting on option fields fixed by the analysed world
        e0 = _unwrap(e)
        t = None
        if e0.get("kind") == "CXXMemberCallExpr":
            callee = _unwrap(kids(e0)[0])
            if callee.get("name") == "operator bool" and kids(callee):
                t = self.eng.tracked(kids(callee)[0], self.alias)
        else:
            t = self.eng.tracked(e0, self.alias)
        if t is not None and not t[1] and t[0] in self.world:
            st2 = self.stmt(e, st)
            return (st2, None) if self.world[t[0]] else (None, st2)
        s = self.stmt(e, st)
        return s, s

    def on_return(self, node, st):
        self.exits.append(st)

    def on_exit(self, st):
        self.exits.append(st)


class _StateWalker(Walker):
    def run(self, n, st):
        if st is None or not n:
            return st
        if n.get("kind") == "CXXForRangeStmt":
            # idiom: for (auto& x : FIELD) x.clear();   => FIELD is clean afterwards
            ks = kids(n)
            body = ks[-1]
            rng = None
            for s in ks[:-2]:
                if s and s.get("kind") == "DeclStmt":
                    for d in kids(s):
                        if d.get("kind") == "VarDecl" and d.get("name", "").startswith("__range"):
                            rng = [c for c in kids(d) if c.get("kind")]
            if rng:
                t = self.c.eng.tracked(rng[-1], self.c.alias)
                b = body
                while b.get("kind") == "CompoundStmt" and len(kids(b)) == 1:
                    b = kids(b)[0]
                b = _unwrap(b)
                if t is not None and not t[1] and b.get("kind") == "CXXMemberCallExpr":
                    callee = _unwrap(kids(b)[0])
                    if callee.get("name") == "clear" and _unwrap(kids(callee)[0]).get("kind") == "DeclRefExpr":
                        lv = kids(ks[-2])[0] if kids(ks[-2]) else {}
                        if _unwrap(kids(callee)[0]).get("referencedDecl", {}).get("id") == lv.get("id"):
                            return self.c.apply(("def", t[0], n, True), st)
        if n.get("kind") == "ForStmt":
            # idiom: for (i = 0; i < N; ++i) FIELD[i].clear();  with N the declared extent of the array member
            ks = kids(n)
            if len(ks) == 5 and ks[0] and ks[2] and ks[3]:
                body = ks[4]
                while body.get("kind") == "CompoundStmt" and len(kids(body)) == 1:
                    body = kids(body)[0]
                b = _unwrap(body)
                m = re.match(r'^(\w+)\[(\w+)\]\.clear\(\)$', canon(b))
                if m and b.get("kind") == "CXXMemberCallExpr":
                    fld, iv = m.group(1), m.group(2)
                    fd = self.c.eng.fields.get(fld)
                    ext = re.search(r'\[(\d+)\]\s*$', qt(fd)) if fd is not None else None
                    init_ok = re.match(r'^\w[\w ]* %s = 0$' % iv, canon(ks[0])) is not None
                    cond = re.match(r'^\(%s < (\d+)\)$' % iv, canon(ks[2]))
                    inc_ok = canon(ks[3]) in ("(++%s)" % iv, "(%s++)" % iv)
                    if ext and init_ok and cond and inc_ok and int(cond.group(1)) == int(ext.group(1)):
                        return self.c.apply(("def", fld, n, True), st)
        return Walker.run(self, n, st)


# ======================================================================
# rules
# ======================================================================

LOOP_KINDS = ("ForStmt", "WhileStmt", "DoStmt", "CXXForRangeStmt")


def _fmt_node(n):
    if isinstance(n, tuple):
        return "%s (inside the call at %s)" % (where(n[0]) if isinstance(n[0], dict) else "?", where(n[1]))
    return where(n) if isinstance(n, dict) else "?"


def check_classification(eng, table, chk, cls_name):
    """Every field of the tracked classes is classified.  The tables name the members that existed when the rules were written; a
    member that is *new* is classified by what the code does with it (and recorded in the evidence): written by some Execute
    (directly or through callees) -> scratch, and then it must be defined before use in every Execute like any other scratch
    member; never written by an Execute -> configuration (set by constructors / setters only)."""
    known = set()
    for k in ("dbu", "clean", "config", "allow"):
        known |= set(table.get(k, {}))
    missing = sorted(set(eng.fields) - known)
    gone = sorted(known - set(eng.fields) - set(table.get("optional", ())))
    if missing:
        execs = []
        for c in eng.classes:
            execs += eng.db.find(c + "::Execute", required=False)
        if not execs:
            raise AnalysisBroken("field(s) %s of %s are not classified and the class has no Execute to classify them by" % (missing, cls_name))
        written = set()
        for f in execs:
            written |= set(eng.summary(f, {}, {}, True).may_def)
        for m in missing:
            kind = "dbu" if m in written else "config"
            table.setdefault(kind, {})[m] = 1
            chk.notes.append("new member %s::%s classified as %s (%s by an Execute overload)" % (
                cls_name, m, "scratch, must be defined before use" if kind == "dbu" else "configuration", "written" if kind == "dbu" else "never written"))
    if len(gone) > max(2, len(known) // 3):
        raise AnalysisBroken("classified field(s) %s no longer exist in %s" % (gone, cls_name))
    for g in gone:
        chk.notes.append("classified member %s::%s no longer exists (renamed or removed); rules about it are vacuous" % (cls_name, g))
    for f, why in table.get("allow", {}).items():
        chk.allow("E2", "%s::%s" % (cls_name, f), why)


def rule_dbu(eng, chk, cfg, entries, table, worlds, rule="DBU"):
    """def-before-use of scratch fields in each entry function, per world."""
    n = 0
    for f in entries:
        for world in worlds:
            s = eng.summary(f, world, {}, True)
            for key in sorted(table["dbu"]):
                if key not in eng.fields:
                    continue
                n += 1
                bad = key in s.ubd
                chk.instance(rule, {"scope": f.qual, "sig": f.sig[:60], "field": key, "world": dict(world), "cfg": cfg}
                             if n % 7 == 1 else None, ok=not bad)
                if bad:
                    chk.violation(rule, f.qual, key,
                                  "scratch member '%s' may be read (%s) before anything in this operation has written it%s: "
                                  "its value is left over from an earlier call"
                                  % (key, _fmt_node(s.ubd[key]), (" [when %s]" % ", ".join("%s is %s" % (a, "set" if b else "unset") for a, b in world.items())) if world else ""),
                                  _fmt_node(s.ubd[key]), cfg=cfg)
            # anything read-before-def that is neither config nor clean-container nor allow-listed
            for key in sorted(s.ubd):
                if key in table["config"] or key in table["clean"] or key in table["allow"] or key in table["dbu"]:
                    continue
                raise AnalysisBroken("unclassified read-before-def of %s in %s" % (key, f.qual))
    return n


def rule_clean(eng, chk, cfg, methods, table, worlds, rule="CLEAN"):
    """clean at entry => clean at every normal exit, for every public method."""
    n = 0
    clean = frozenset(k for k in table["clean"] if k in eng.fields)
    for f in methods:
        for world in worlds:
            s = eng._analyse(f, world, {}, True, entry=(frozenset(), clean))
            for key in sorted(clean):
                n += 1
                ok = key in s.must_clean
                chk.instance(rule, {"method": f.qual, "sig": f.sig[:60], "container": key, "cfg": cfg} if n % 11 == 1 else None, ok=ok)
                if not ok:
                    chk.violation(rule, f.qual, key,
                                  "scratch container '%s' is not certainly empty at every normal exit of this public method "
                                  "(it is modified inside and no clear()/resize(0)/= T() dominates the exit): its contents survive "
                                  "into the next operation on the object" % key, f.where, cfg=cfg)
    return n


def rule_clear(eng, chk, cfg, clear_fn, add_fns, table, rule="CLEAR"):
    s = eng.summary(clear_fn, {}, {}, True)
    touched = set()
    for a in add_fns:
        touched |= eng.summary(a, {}, {}, True).may_def
    n = 0
    for key in sorted(touched):
        if key in table["dbu"] or key in table["allow"]:
            continue   # re-initialised by every operation / documented accumulator
        n += 1
        ok = key in s.must_def
        chk.instance(rule, {"field": key, "written_by_Add*": True, "reset_by": clear_fn.qual, "cfg": cfg}, ok=ok)
        if not ok:
            chk.violation(rule, clear_fn.qual, key,
                          "'%s' can be modified by the Add* family but %s does not reset it on every path: Clear() followed by "
                          "new paths does not behave like a fresh object" % (key, clear_fn.qual), clear_fn.where, cfg=cfg)
    return n


def find_loops(f, pred):
    return [x for x in walk(f.body) if x.get("kind") in LOOP_KINDS and pred(x)]


def loop_header_text(l):
    ks = kids(l)
    if l.get("kind") == "CXXForRangeStmt":
        for s in ks[:-2]:
            if s and s.get("kind") == "DeclStmt":
                for d in kids(s):
                    if d.get("kind") == "VarDecl" and d.get("name", "").startswith("__range"):
                        return canon(d)
        return ""
    return " ; ".join(canon(x) for x in ks[:-1] if x and x.get("kind"))


def rule_loop(eng, chk, cfg, f, loop, table, worlds, scope_name, rule="LOOP", extra_allow=None):
    """No state is carried from one iteration of `loop` (in function f) to the next."""
    body = kids(loop)[-1] if loop.get("kind") != "DoStmt" else kids(loop)[0]
    # outer locals: declared in f outside the loop body, referenced inside it
    inner_decls = {x["id"] for x in walk(body) if x.get("kind") in ("VarDecl", "ParmVarDecl") and "id" in x}
    if loop.get("kind") == "CXXForRangeStmt":
        for s in kids(loop)[:-1]:
            for x in walk(s):
                if x.get("kind") == "VarDecl" and "id" in x:
                    inner_decls.add(x["id"])
    outer = {}
    for x in walk(body):
        if x.get("kind") == "DeclRefExpr":
            rd = x.get("referencedDecl", {})
            if rd.get("kind") in ("VarDecl", "ParmVarDecl") and rd.get("id") not in inner_decls:
                decl = eng.db.by_id.get(rd["id"])
                if decl is None:
                    continue
                if decl.get("storageClass") == "static" or "const" in qt(decl).split("&")[0].split("*")[0] and "&" not in qt(decl):
                    continue
                outer[rd["id"]] = "L:" + rd.get("name", "?")
    # induction variables of the loop header are not state carried by the body
    clean = frozenset(k for k in table["clean"] if k in eng.fields)
    n = 0
    for world in worlds:
        s = eng._analyse(f, world, dict(outer), True, entry=(frozenset(), clean), body=body, region=True)
        keys = sorted(set(s.ubd) & (set(s.may_def) | set(s.may_dirty)))
        cand = sorted(set(eng.fields) | set(outer.values()))
        for key in cand:
            n += 1
            carried = key in keys
            why = ""
            if carried and key in clean and key in s.must_clean:
                carried = False      # container is emptied before every back edge
            allow = (extra_allow or {}).get(key)
            la = table.get("loop_allow", {})
            if not allow and key in la and la[key](world, scope_name):
                allow = table.get("allow", {}).get(key)
            if carried and allow:
                chk.allow(rule, "%s:%s" % (scope_name, key), allow)
                carried = False
            chk.instance(rule, {"loop": scope_name, "variable": key, "world": dict(world), "read_before_written_in_body": key in s.ubd,
                                "written_in_body": key in s.may_def or key in s.may_dirty, "cfg": cfg} if (key in keys or n % 9 == 1) else None,
                         ok=not carried)
            if carried:
                chk.violation(rule, f.qual, "%s@%s" % (key, scope_name),
                              "'%s' is written during one iteration of the %s and may be read (%s) in the next iteration before being "
                              "re-initialised%s: one element's result depends on the elements processed before it"
                              % (key.replace("L:", "local "), scope_name, _fmt_node(s.ubd[key]),
                                 (" [when %s]" % ", ".join("%s is %s" % (a, "set" if b else "unset") for a, b in world.items())) if world else ""),
                              _fmt_node(s.ubd[key]), cfg=cfg)
    return n


def rule_sorted_flag(eng, chk, cfg, methods, rule="SORTED.invalidate", lst="minima_list_", flag="minima_list_sorted_"):
    """The sweep pops local minima from a list it assumes sorted; `flag` caches "the list is sorted".  Typestate rule over the
    summaries: every public method that may modify the list must write the flag on every path, every write of `true` is
    preceded in its function by a sort of the list, and every other write stores `false`."""
    db = eng.db
    n = 0
    for f in methods:
        s = eng.summary(f, {}, {}, True)
        if lst not in s.may_def:
            continue
        ok = flag in s.must_def
        n += 1
        chk.instance(rule, {"method": f.qual, "sig": f.sig[:50], "may_modify": lst, "must_write": flag, "cfg": cfg}, ok=ok)
        if not ok:
            chk.violation(rule, f.qual, f.sig[:40], "%s can modify %s but does not write %s on every path: after an earlier Execute the flag still says "
                          "'sorted', the sweep then pops local minima out of order and skips paths" % (f.qual, lst, flag), f.where, cfg=cfg)
    # the values written
    for f in db.funcs:
        if f.body is None or f.is_pattern or f.cls not in eng.classes:
            continue
        stmts = list(walk(f.body))
        for i, x in enumerate(stmts):
            if x.get("kind") == "BinaryOperator" and x.get("opcode") == "=" and canon(kids(x)[0]) == flag:
                v = canon(kids(x)[1])
                n += 1
                if v == "true":
                    ok = any(y.get("kind") == "CallExpr" and db.callee(y)[0] in ("stable_sort", "sort") and lst in canon(y) for y in stmts[:i])
                    why = "stores true without a preceding sort of %s in %s" % (lst, f.qual)
                else:
                    ok = v == "false"
                    why = "stores %s" % v
                chk.instance(rule, {"function": f.qual, "write": canon(x), "cfg": cfg}, ok=ok)
                if not ok:
                    chk.violation(rule, f.qual, "write|" + canon(x)[:40], "`%s` %s: the flag may only become true right after the list was sorted" % (canon(x), why),
                                  where(x), cfg=cfg)
    return n


def rule_config_preserved(eng, chk, cfg, execs, table, allowed, rule="CONFIG.preserved", only=None):
    """An operation must leave the loaded input and the options as it found them (a second Execute on the same object is a
    legitimate use): no Execute overload may write a member classified as configuration, except the documented caches in
    `allowed` (name -> reason)."""
    n = 0
    for f in execs:
        s = eng.summary(f, {}, {}, True)
        for key in sorted(table["config"]):
            if key not in eng.fields or (only is not None and key not in only):
                continue
            n += 1
            bad = key in s.may_def and key not in allowed
            chk.instance(rule, {"method": f.qual, "sig": f.sig[:50], "member": key, "written": key in s.may_def, "cfg": cfg} if n % 5 == 1 else None, ok=not bad)
            if bad:
                chk.violation(rule, f.qual, "%s|%s" % (key, f.sig[:30]), "%s can write the configuration member '%s': the object no longer describes the same "
                              "input / options after the operation, so executing it again gives a different result" % (f.qual, key), f.where, cfg=cfg)
    return n
