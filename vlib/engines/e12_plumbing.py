"""E12 - small plumbing tables for polygon offsetting (C06) and Minkowski sums (C19).

These properties are geometric; what is decided here are the few clauses of them that are visible in the shape of the
code and are genuine necessary conditions: which fill rule / orientation flag the clean-up union is run with, when the
offset is skipped, how the group delta gets its sign; for Minkowski: the empty-input guard, the sum/difference sign,
the closed/open edge range, the orientation normalisation of every quad and the NonZero union.
"""
import re

from ..astq import walk, kids, strip, qt, dqt, where, canon, if_parts
from ..evalx import Interp, Unsupported, _Return
from ..extract import AnalysisBroken


def _u(n):
    from .e6_siblings import _u as u
    return u(n)


# ---------------------------------------------------------------------------
# C06
# ---------------------------------------------------------------------------

def offset_cleanup_table(db, chk, cfg, rule="OFFSET.cleanup"):
    """The clean-up union at the end of ClipperOffset::ExecuteInternal: executed with FillRule::Negative iff the paths are
    reversed (else Positive), into the tree iff a tree was requested, with ReverseSolution(reverse_solution_ != paths_reversed)
    and PreserveCollinear(preserve_collinear_)."""
    f = db.one("ClipperOffset::ExecuteInternal")
    stmts = kids(f.body)
    start = None
    for i, s in enumerate(stmts):
        if "paths_reversed = CheckReverseOrientation()" in canon(s):
            start = i
    if start is None:
        raise AnalysisBroken("`paths_reversed = CheckReverseOrientation()` not found in ClipperOffset::ExecuteInternal")
    n = 0
    # the clean-up is reached whenever there is something to clean up: every `return` that precedes it sits under conditions that only
    # ask whether there is any input (groups_) / any output so far (solution) / an error - never under a test of delta
    def parents(root):
        par = {}
        for x in walk(root):
            for c in kids(x):
                if isinstance(c, dict):
                    par[id(c)] = x
        return par
    par = parents(f.body)
    first_exec = None
    for x in walk(f.body):
        if x.get("kind") == "CXXMemberCallExpr" and db.callee(x)[0] == "Execute":
            first_exec = x
            break
    if first_exec is None:
        raise AnalysisBroken("ClipperOffset::ExecuteInternal no longer executes a clean-up union")
    for x in walk(f.body):
        if x is first_exec:
            break
        if x.get("kind") != "ReturnStmt":
            continue
        conds = []
        p = par.get(id(x))
        child = x
        while p is not None:
            if p.get("kind") == "IfStmt":
                conds.append(canon(if_parts(p)[0]))
            elif p.get("kind") in ("ForStmt", "WhileStmt", "DoStmt", "CXXForRangeStmt"):
                conds.append("<loop>")
            child, p = p, par.get(id(p))
        n += 1
        ok = bool(conds) and all(re.search(r'\b(groups_|solution|error_code_)\b', c0) and not re.search(r'\bdelta', c0) for c0 in conds)
        chk.instance(rule, {"obligation": "early return before the clean-up union only when there is no input / no output / an error", "guards": conds, "cfg": cfg}, ok=ok)
        if not ok:
            chk.violation(rule, f.qual, "early-return|%s" % (conds[0][:30] if conds else "unconditional"),
                          "ExecuteInternal returns at %s under %s, before the clean-up union: on that path the PolyTree64 output is never built and "
                          "ReverseSolution / the orientation fix is not applied" % (where(x), conds or "no condition"), where(x), cfg=cfg)
    fr = db.enum("FillRule")
    ctn = db.enum("ClipType")
    for rev_paths in (False, True):
        for rev_sol in (False, True):
            for tree in (False, True):
                for pres in (False, True):
                    calls = []

                    def hook(name, argv, node, calls=calls):
                        if name in ("CheckReverseOrientation",):
                            return rev_paths
                        if name in ("PreserveCollinear", "ReverseSolution", "AddSubject", "Execute", "SetZCallback", "bind"):
                            calls.append((name, argv, [canon(a) for a in db.call_args(node)]))
                            return True
                        if name and name.startswith("ctor:"):
                            return "obj"
                        return NotImplemented
                    env = {"reverse_solution_": rev_sol, "preserve_collinear_": pres, "solution_tree": ("TREE" if tree else None), "solution": "PATHS"}
                    it = Interp(db, env, call_hook=hook, effect_names=("PreserveCollinear", "ReverseSolution", "AddSubject", "Execute", "SetZCallback"))
                    try:
                        try:
                            for s in stmts[start:]:
                                if s.get("kind") == "DeclStmt" and any(d.get("name") in ("c", "fp") for d in kids(s)):
                                    continue
                                it.exec(s)
                        except _Return:
                            pass
                    except Unsupported as e:
                        raise AnalysisBroken("cannot interpret the clean-up part of ClipperOffset::ExecuteInternal: %s" % e)
                    eff = {}
                    for name, argv, line in it.effects:
                        eff.setdefault(name, []).append(argv)
                    n += 1
                    problems = []
                    ex = eff.get("Execute", [])
                    if len(ex) != 1:
                        problems.append("%d Execute calls" % len(ex))
                    else:
                        a = ex[0]
                        if a[0] != ctn.index("Union"):
                            problems.append("clip type is not Union")
                        want = fr.index("Negative") if rev_paths else fr.index("Positive")
                        if a[1] != want:
                            problems.append("fill rule %s, expected %s" % (fr[a[1]] if isinstance(a[1], int) and a[1] < len(fr) else a[1], fr[want]))
                        tgt = str(a[2])
                        if (tgt == "TREE") != tree or tgt not in ("TREE", "PATHS"):
                            problems.append("result goes to %s although solution_tree is %s" % (tgt, "set" if tree else "null"))
                    rs = eff.get("ReverseSolution", [])
                    if len(rs) != 1 or bool(rs[0][0]) != (rev_sol != rev_paths):
                        problems.append("ReverseSolution(%s), expected %s" % (rs[0][0] if rs else None, rev_sol != rev_paths))
                    pc = eff.get("PreserveCollinear", [])
                    if len(pc) != 1 or bool(pc[0][0]) != pres:
                        problems.append("PreserveCollinear(%s), expected %s" % (pc[0][0] if pc else None, pres))
                    cell = {"paths_reversed": rev_paths, "reverse_solution_": rev_sol, "tree": tree, "preserve_collinear_": pres,
                            "Execute": ex[0] if ex else None}
                    chk.instance(rule, cell if n % 5 == 1 else None, ok=not problems)
                    if problems:
                        chk.violation(rule, f.qual, "rev=%s/revsol=%s/tree=%s" % (rev_paths, rev_sol, tree),
                                      "the clean-up union after offsetting is wrong for %s: %s (orientation of the input and ReverseSolution must be "
                                      "preserved, in both output modes)" % (cell, "; ".join(problems)), f.where, cfg=cfg)
                        return n
    return n


def offset_sign_rules(db, chk, cfg, rule="OFFSET.sign"):
    n = 0
    # (a) insignificant delta: |delta| < 0.5 copies the input paths
    f = db.one("ClipperOffset::ExecuteInternal")
    site = None
    for s in kids(f.body):
        if s.get("kind") == "IfStmt":
            cond, then, els = if_parts(s)
            if "delta" in canon(cond) and "0.5" in canon(cond):
                site = (s, cond, then, els)
    if site is None:
        raise AnalysisBroken("`if (std::abs(delta) < 0.5)` not found in ClipperOffset::ExecuteInternal")
    s, cond, then, els = site
    p = f.params[0]["name"]
    for d in (-2.0, -0.5, -0.49, 0.0, 0.49, 0.5, 2.0):
        try:
            got = bool(Interp(db, {p: d}).ev(cond))
        except Unsupported as e:
            raise AnalysisBroken("cannot interpret the insignificant-delta test: %s" % e)
        want = abs(d) < 0.5
        n += 1
        chk.instance(rule, {"delta": d, "skipped": got} if d in (-0.5, 0.49) else None, ok=(got == want))
        if got != want:
            chk.violation(rule, f.qual, "delta=%s" % d, "offsetting is %s for delta=%s; |delta| < 0.5 must leave the paths unchanged and anything "
                          "larger must be offset" % ("skipped" if got else "performed", d), where(s), cfg=cfg)
    t = canon(then)
    ok = "copy(group.paths_in.begin(), group.paths_in.end(), back_inserter((*solution)))" in t and "DoGroupOffset" not in t and \
        els is not None and "DoGroupOffset" in canon(els)
    n += 1
    chk.instance(rule, {"obligation": "insignificant delta copies every group's input paths; otherwise every group is offset", "cfg": cfg}, ok=ok)
    if not ok:
        chk.violation(rule, f.qual, "copy", "the |delta| < 0.5 branch no longer copies the input paths of every group (or the other branch no longer "
                      "offsets them)", where(s), cfg=cfg)
    # (b) group delta sign: Polygon groups use -delta iff the group is reversed
    g = db.one("ClipperOffset::DoGroupOffset")
    lead = []
    first = None
    for st_ in kids(g.body):
        if st_.get("kind") == "IfStmt":
            first = st_
            break
        if st_.get("kind") != "DeclStmt":
            break
        lead.append(st_)
    if first is None or "group_delta_" not in canon(first):
        raise AnalysisBroken("DoGroupOffset no longer starts with the selection of group_delta_ by end type")
    polyT = db.enum("EndType").index("Polygon")
    for et in range(len(db.enum("EndType"))):
        for rev in (False, True):
            for low in (False, True):
                for d in (-7.0, 7.0):
                    def hook(name, argv, node, low=low):
                        if name == "has_value":
                            return low
                        return NotImplemented
                    env = {"group.end_type": et, "group.is_reversed": rev, "delta_": d, "group.lowest_path_idx": 1}
                    it = Interp(db, env, call_hook=hook)
                    try:
                        for st_ in lead:
                            it.exec(st_)
                        it.exec(first)
                    except Unsupported as e:
                        raise AnalysisBroken("cannot interpret the delta selection of DoGroupOffset: %s" % e)
                    got = it.env.get("group_delta_")
                    if et == polyT:
                        base = d if low else abs(d)
                        want = -base if rev else base
                    else:
                        want = abs(d)
                    n += 1
                    chk.instance(rule, None, ok=(got == want))
                    if got != want:
                        chk.violation(rule, g.qual, "et=%d/rev=%s/delta=%s" % (et, rev, d),
                                      "group_delta_ is %s for end type %s, is_reversed=%s, delta=%s; expected %s (Polygon: -delta iff the group is "
                                      "reversed; open paths: |delta|)" % (got, db.enum("EndType")[et], rev, d, want), where(first), cfg=cfg)
                        return n
    # (c) a Polygon group is 'reversed' iff its lowest path has negative area; other groups never
    ctor = [x for x in db.funcs if x.qual == "ClipperOffset::Group::Group" and len(x.params) == 3]
    if len(ctor) != 1:
        raise AnalysisBroken("Group constructor not found")
    t = canon(ctor[0].body)
    ok = re.search(r'\(is_reversed = \(lowest_path_idx\.has_value\(\) && \(Area\(paths_in\[lowest_path_idx\.value\(\)\]\) < 0\)\)\)', t) is not None \
        and "(is_reversed = false)" in t
    n += 1
    chk.instance(rule, {"obligation": "Group::is_reversed = lowest path has negative area (Polygon only)", "cfg": cfg}, ok=ok)
    if not ok:
        chk.violation(rule, ctor[0].qual, "is_reversed", "the orientation flag of a group is no longer `lowest path has negative area` for Polygon "
                      "groups and false otherwise", ctor[0].where, cfg=cfg)
    return n


# ---------------------------------------------------------------------------
# C19
# ---------------------------------------------------------------------------

def _mink_hook(db, sizes, dup=None):
    """call hook answering size()/empty() of the two operands (sizes: {'pattern': n, 'path': m}) and, per operand, whether its last
    vertex repeats its first (dup: {'path': bool, ...}; `X.back() == X.front()`)."""
    dup = dup or {}

    def hook(name, argv, nd):
        if name in ("operator==", "operator!=") and nd.get("kind") == "CXXOperatorCallExpr":
            texts = sorted(canon(strip(a)) for a in kids(nd)[1:])
            for base in sizes:
                if texts == sorted([base + ".back()", base + ".front()"]) or texts == sorted(["%s[(%s.size() - 1)]" % (base, base), "%s[0]" % base]):
                    v = bool(dup.get(base, False))
                    return v if name == "operator==" else (not v)
        if name in ("size", "empty") and nd.get("kind") == "CXXMemberCallExpr":
            base = canon(db.member_base(nd))
            if base in sizes:
                return sizes[base] if name == "size" else (sizes[base] == 0)
        if name in ("reserve", "resize", "emplace_back", "push_back"):
            return None
        return NotImplemented
    return hook


def _mink_prefix_env(db, f, stmts, sizes, extra, dup=None):
    """Interpret the declarations of the straight-line part of detail::Minkowski (everything outside its loops) for given operand
    sizes / flags.  Returns (env, returned_early, indexed_before_return)."""
    it = Interp(db, dict(extra), [], call_hook=_mink_hook(db, sizes, dup))
    returned = False
    indexed = False
    for s in stmts:
        k = s.get("kind")
        if k in ("ForStmt", "CXXForRangeStmt", "WhileStmt", "DoStmt"):
            # for-init declarations of the sweep loop belong to the prefix
            if k == "ForStmt" and kids(s) and isinstance(kids(s)[0], dict) and kids(s)[0].get("kind") == "DeclStmt":
                for d in kids(kids(s)[0]):
                    init = [c for c in kids(d) if isinstance(c, dict) and c.get("kind")]
                    if d.get("kind") == "VarDecl" and init:
                        try:
                            it.env[d["name"]] = it.ev(init[-1])
                        except Unsupported:
                            pass
            continue
        if k == "IfStmt":
            cond, then, els = if_parts(s)
            if any(y.get("kind") == "ReturnStmt" for y in walk(then)) and els is None:
                if any(y.get("kind") == "CallExpr" and db.callee(y)[0] == f.name for y in walk(then)):
                    continue             # a re-entry with other arguments (judged by MINK.roles); this activation's structure is what follows
                try:
                    if it._truth(it.ev(cond), s):
                        returned = True
                        break
                except Unsupported:
                    pass
            else:
                try:
                    it.exec(s)                  # e.g. `if (isClosed) delta = 0;`
                except (Unsupported, _Return):
                    pass
            continue
        if k == "DeclStmt":
            for d in kids(s):
                if d.get("kind") != "VarDecl":
                    continue
                init = [c for c in kids(d) if isinstance(c, dict) and c.get("kind")]
                if init:
                    if any(y.get("kind") in ("ArraySubscriptExpr",) or (y.get("kind") == "CXXOperatorCallExpr" and db.callee(y)[0] == "operator[]") for y in walk(init[-1])):
                        indexed = True
                    try:
                        it.env[d["name"]] = it.ev(init[-1])
                    except Unsupported:
                        pass
            continue
        if k == "ReturnStmt":
            break
        if k in ("BinaryOperator", "CompoundAssignOperator"):
            try:
                it.exec(s)
            except (Unsupported, _Return):
                pass
    return it.env, returned, indexed


def minkowski_rules(db, chk, cfg, rule="MINK"):
    f = db.one("detail::Minkowski")
    pat, path, isSum, isClosed = [p["name"] for p in f.params]
    n = 0
    stmts = kids(f.body)
    txt = canon(f.body)
    # (a) empty input -> empty result, before anything is indexed (the straight-line part is interpreted for all emptiness combinations)
    ok = True
    for a_ in (0, 1, 5):
        for b_ in (0, 1, 5):
            env, returned, indexed = _mink_prefix_env(db, f, stmts, {pat: a_, path: b_}, {isClosed: True, isSum: True})
            if returned != (a_ == 0 or b_ == 0) or (returned and indexed):
                ok = False
    n += 1
    chk.instance(rule + ".empty", {"obligation": "empty pattern or path returns an empty result before anything is indexed", "cfg": cfg}, ok=ok)
    if not ok:
        chk.violation(rule + ".empty", f.qual, "guard", "the empty-input guard of Minkowski (pattern or path empty -> empty result, before indexing) is missing or wrong",
                      f.where, cfg=cfg)
    # (b) sum adds, difference subtracts: in the branch taken for isSum (both values) the path point and the pattern point are combined by + / -
    ok = True
    sign_seen = {}
    for val in (True, False):
        ops = []

        def mentions_flag(e):
            return any(y.get("kind") == "DeclRefExpr" and y.get("referencedDecl", {}).get("name") == isSum for y in walk(e))

        def collect(node, selected=False):
            for c in kids(node):
                if not isinstance(c, dict):
                    continue
                if c.get("kind") in ("IfStmt", "ConditionalOperator") and mentions_flag(if_parts(c)[0] if c.get("kind") == "IfStmt" else kids(c)[0]):
                    if c.get("kind") == "IfStmt":
                        cond, then, els = if_parts(c)
                    else:
                        cond, then, els = kids(c)[0], kids(c)[1], kids(c)[2]
                    if any(y.get("kind") == "CallExpr" and db.callee(y)[0] == f.name for y in walk(then)):
                        continue         # a re-entry with other arguments (MINK.roles), not the sum/difference selection
                    try:
                        t = Interp(db, {isSum: val}).ev(cond)
                    except Unsupported:
                        ops.append("?")
                        continue
                    br = then if t else els
                    if br is not None:
                        collect({"inner": [br]}, True)
                    continue
                # only operators inside a branch selected by isSum combine path and pattern points
                if selected and c.get("kind") == "CXXOperatorCallExpr" and db.callee(c)[0] in ("operator+", "operator-") and "Point<" in dqt(c):
                    a0, a1 = db.call_args(c)[:2]
                    patterny = lambda e: pat in canon(e) or any(y.get("kind") == "DeclRefExpr" and y.get("referencedDecl", {}).get("kind") == "ParmVarDecl"
                                                               and y.get("referencedDecl", {}).get("name") not in (pat, path) for y in walk(e))
                    ops.append((db.callee(c)[0][-1], patterny(a0), patterny(a1)))
                collect(c, selected)
        collect(f.body)
        ops = sorted(set(ops), key=repr)         # a lambda's body occurs twice in clang's dump (closure type and expression)
        sign_seen[val] = ops
        want = "+" if val else "-"
        if len(ops) != 1 or ops[0] == "?" or ops[0][0] != want:
            ok = False
        elif want == "-" and not (ops[0][1] is False and ops[0][2] is True):
            ok = False          # difference: path point minus pattern point
        elif want == "+" and ops[0][1] == ops[0][2]:
            ok = False
    n += 1
    chk.instance(rule + ".sign", {"obligation": "isSum: path point + pattern point; otherwise path point - pattern point", "seen": {str(k): str(v) for k, v in sign_seen.items()}, "cfg": cfg}, ok=ok)
    if not ok:
        chk.violation(rule + ".sign", f.qual, "isSum", "MinkowskiSum must add and MinkowskiDiff subtract the pattern point from the path point; found %s" % sign_seen, f.where, cfg=cfg)
    # roles of the sweep loops: outer cursor I over the path, inner cursor J over the pattern, G = previous I, H = previous J
    outer = None
    for s0 in stmts:
        if s0.get("kind") == "ForStmt" and any(y.get("kind") == "ForStmt" for y in walk(kids(s0)[-1])):
            outer = s0
    roles = None
    if outer is not None:
        inner = [y for y in walk(kids(outer)[-1]) if y.get("kind") == "ForStmt"][0]

        def cursor(loop):
            c = kids(loop)[2]
            for y in walk(c):
                if y.get("kind") == "DeclRefExpr" and y.get("referencedDecl", {}).get("kind") == "VarDecl":
                    return y["referencedDecl"]["name"]
            return None

        def prev_of(body, cur):
            for y in kids(body) if body.get("kind") == "CompoundStmt" else [body]:
                if y.get("kind") == "BinaryOperator" and y.get("opcode") == "=" and canon(kids(y)[1]) == cur and strip(kids(y)[0]).get("kind") == "DeclRefExpr":
                    return canon(kids(y)[0])
            return None
        I, J = cursor(outer), cursor(inner)
        G, H = prev_of(kids(outer)[-1], I), prev_of(kids(inner)[-1], J)
        if I and J and G and H:
            roles = (I, J, G, H, outer, inner)
    # (b2) the "previous" cursors G and H are advanced at the end of every iteration: no `continue` (outside nested loops) may jump over
    # `G = I` / `H = J` - the next quad would span a chord from a stale vertex instead of the next edge
    if roles is not None:
        I, J, G, H, outer, inner = roles
        for loop, prevv, cur in ((outer, G, I), (inner, H, J)):
            conts = []

            def scan(node, depth=0):
                for c0 in kids(node):
                    if not isinstance(c0, dict):
                        continue
                    if c0.get("kind") in ("ForStmt", "WhileStmt", "DoStmt", "CXXForRangeStmt"):
                        continue
                    if c0.get("kind") == "LambdaExpr":
                        continue
                    if c0.get("kind") == "ContinueStmt":
                        conts.append(c0)
                    scan(c0, depth + 1)
            scan(kids(loop)[-1])
            n += 1
            ok = not conts
            chk.instance(rule + ".quad", {"obligation": "`%s = %s` at the end of the loop body is reached by every iteration (no continue before it)" % (prevv, cur), "cfg": cfg}, ok=ok)
            if not ok:
                chk.violation(rule + ".quad", f.qual, "continue|%s" % prevv, "a `continue` at %s skips `%s = %s` at the end of the loop body: the next quad is spanned from a stale "
                              "previous vertex (a chord) instead of the next edge" % (where(conts[0]), prevv, cur), where(conts[0]), cfg=cfg)
    # (c) closing edge of the path only when closed: I starts at 0 (closed) / 1 (open), G at last / first, the loop runs while I < pathLen
    ok = roles is not None
    why_ce = ""
    if ok:
        I, J, G, H, outer, inner = roles
        # every combination of: path closed or open, and (for each operand) its last vertex repeating its first.  A repeated closing
        # vertex only contributes zero-length edges to a *closed* outline (the pattern always is one), so there - and only there - the
        # range may stop one short.
        # ... for several operand sizes (a two-point pattern is a legitimate pen: a segment), so that no size is special-cased
        for closed, dpat, dpath, P, Q in [(c_, a_, b_, p_, q_) for c_ in (False, True) for a_ in (False, True) for b_ in (False, True)
                                          for (p_, q_) in ((5, 7), (2, 7), (3, 2), (2, 3), (4, 4))]:
                    dup = {pat: dpat, path: dpath}
                    env, returned, _ = _mink_prefix_env(db, f, stmts, {pat: P, path: Q}, {isClosed: closed, isSum: True}, dup)
                    if returned:
                        ok = False
                        continue

                    def bound(loop, cur):
                        for b in range(1, 12):
                            e2 = dict(env)
                            e2[cur] = b
                            if not bool(Interp(db, e2, [], call_hook=_mink_hook(db, {pat: P, path: Q}, dup)).ev(kids(loop)[2])):
                                return b
                        return None
                    try:
                        bI, bJ = bound(outer, I), bound(inner, J)
                    except Unsupported:
                        ok = False
                        continue
                    okI = bI == Q or (bI == Q - 1 and closed and dpath)
                    okJ = bJ == P or (bJ == P - 1 and dpat)
                    if not (okI and okJ and env.get(I) == (0 if closed else 1) and env.get(G) == ((bI - 1) if closed else 0) and env.get(H) == bJ - 1):
                        ok = False
                        why_ce = ("isClosed=%s, path of %d %s, pattern of %d %s: path cursor runs %s..%s (previous starts at %s), pattern cursor up to %s (previous %s)"
                                  % (closed, Q, "ending on its first vertex" if dpath else "with distinct ends", P, "ending on its first vertex" if dpat else "with distinct ends",
                                     env.get(I), (bI - 1) if bI else "?", env.get(G), (bJ - 1) if bJ else "?", env.get(H)))
    n += 1
    chk.instance(rule + ".closing-edge", {"obligation": "edges (previous, current) run over current = (closed ? 0 : 1)..pathLen-1 with previous starting at the last (closed) / "
                                                        "first (open) point; the pattern index runs over 0..patLen-1 with previous = patLen-1", "cfg": cfg}, ok=ok)
    if not ok:
        chk.violation(rule + ".closing-edge", f.qual, "isClosed", "the range of path edges swept (every edge of the path, the closing edge only when isClosed) changed%s" % ((": " + why_ce) if why_ce else ""), f.where, cfg=cfg)
    # (d) every quad is made positively oriented before it is stored: the statement that reverses the quad runs exactly when the quad is
    # negative (condition interpreted with IsPositive / Area answered for both orientations) and precedes the append to the result
    rev_sites = []
    for x in walk(f.body):
        if x.get("kind") == "IfStmt":
            cond, then, els = if_parts(x)
            if els is None and any(y.get("kind") == "CallExpr" and db.callee(y)[0] == "reverse" for y in walk(then)):
                rev_sites.append((x, cond))
    ok = False
    if len(rev_sites) == 1:
        node, cond = rev_sites[0]
        ok = True
        for positive in (False, True):
            def hook(name, argv, nd, positive=positive):
                if name == "IsPositive":
                    return positive
                if name == "Area":
                    return 1.0 if positive else -1.0
                return NotImplemented
            try:
                if bool(Interp(db, {}, call_hook=hook).ev(cond)) != (not positive):
                    ok = False
            except Unsupported:
                ok = False
        # order: the reversal precedes the append of the quad to the result
        order = [y for y in walk(f.body) if y is node or (y.get("kind") == "CXXMemberCallExpr" and db.callee(y)[0] in ("emplace_back", "push_back")
                                                         and canon(db.member_base(y)) == "result")]
        if not order or order[0] is not node:
            ok = False
    n += 1
    chk.instance(rule + ".orientation", {"obligation": "each quad is reversed iff it is negative, before being added", "cfg": cfg}, ok=ok)
    if not ok:
        chk.violation(rule + ".orientation", f.qual, "quad", "quads are no longer normalised to positive orientation before the union: quads of opposite "
                      "orientation cancel under NonZero filling", f.where, cfg=cfg)
    # (e) quad corners: (G,H) (I,H) (I,J) (G,J) in cyclic order (any rotation, either direction: orientation is normalised afterwards)
    corners = []
    # rows of the sum table held in reference locals (`const Path64& prev = tmp[g];`) stand for what they refer to
    rowrefs = {}
    for y in walk(f.body):
        if y.get("kind") == "VarDecl" and "&" in (qt(y) or ""):
            init = [c0 for c0 in kids(y) if isinstance(c0, dict) and c0.get("kind")]
            if init:
                t0 = canon(init[-1]).replace("(", "").replace(")", "")
                m0 = re.match(r"^tmp\[(\w+)\]$", t0)
                if m0:
                    rowrefs[y.get("name")] = m0.group(1)
    for y in walk(f.body):
        if y.get("kind") == "CXXMemberCallExpr" and db.callee(y)[0] in ("emplace_back", "push_back") and canon(db.member_base(y)) != "result" \
                and canon(db.member_base(y)) != "tmp":
            t0 = canon(db.call_args(y)[0]).replace("(", "").replace(")", "")
            m = re.match(r"^tmp\[(\w+)\]\[(\w+)\]$", t0)
            if m:
                corners.append((m.group(1), m.group(2)))
            else:
                m = re.match(r"^(\w+)\[(\w+)\]$", t0)
                if m and m.group(1) in rowrefs:
                    corners.append((rowrefs[m.group(1)], m.group(2)))
    ok = False
    if roles is not None:
        I, J, G, H = roles[:4]
        base = [(G, H), (I, H), (I, J), (G, J)]
        rots = [base[k:] + base[:k] for k in range(4)]
        rots += [list(reversed(r)) for r in rots]
        ok = corners in rots
    n += 1
    chk.instance(rule + ".quad", {"obligation": "quad = (prev i, prev j) (i, prev j) (i, j) (prev i, j) up to rotation/reversal", "corners": corners, "cfg": cfg}, ok=ok)
    if not ok:
        chk.violation(rule + ".quad", f.qual, "corners", "the four corners of the swept parallelogram changed: %s" % (corners,), f.where, cfg=cfg)
    # (f) all four public functions union with NonZero and pass the right isSum flag
    for q, want_sum in (("MinkowskiSum", "true"), ("MinkowskiDiff", "false")):
        for fn in db.find(q):
            calls = [x for x in walk(fn.body) if x.get("kind") == "CallExpr" and db.callee(x)[0] == "Minkowski"]
            # the union: the helper detail::Union (judged below), or a clipper executed in place with ClipType::Union
            unions = [x for x in walk(fn.body) if (x.get("kind") == "CallExpr" and db.callee(x)[0] == "Union") or
                      (x.get("kind") == "CXXMemberCallExpr" and db.callee(x)[0] == "Execute" and len(db.call_args(x)) >= 3)]
            bad_ct = [x for x in unions if x.get("kind") == "CXXMemberCallExpr" and canon(db.call_args(x)[0]).split("::")[-1] != "Union"]
            closed_nm = fn.params[2]["name"] if len(fn.params) >= 3 else "isClosed"
            ok = len(calls) == 1 and canon(db.call_args(calls[0])[2]) == want_sum and len(unions) == 1 and not bad_ct and \
                canon(db.call_args(unions[0])[1]).split("::")[-1] == "NonZero" and canon(db.call_args(calls[0])[3]) == closed_nm
            if not calls:
                # an overload may delegate to another overload of the *same* operation (itself judged here), handing on its operands
                # in their roles and the caller's isClosed; a further union must still be NonZero
                dele = [x for x in walk(fn.body) if x.get("kind") == "CallExpr" and db.callee(x)[0] in ("MinkowskiSum", "MinkowskiDiff")
                        and db.callee_func(x) is not None and db.callee_func(x).id != fn.id]
                if len(dele) == 1 and len(fn.params) >= 3:
                    a = db.call_args(dele[0])
                    p0, p1 = fn.params[0]["name"], fn.params[1]["name"]
                    src = {}
                    for x in walk(fn.body):
                        if x.get("kind") == "VarDecl" and x.get("name"):
                            init = [c for c in kids(x) if isinstance(c, dict) and c.get("kind")]
                            if init:
                                src[x["name"]] = {y.get("referencedDecl", {}).get("name") for y in walk(init[-1]) if y.get("kind") == "DeclRefExpr"} & {p0, p1}

                    def _roles(e):
                        out = set()
                        for y in walk(e):
                            if y.get("kind") == "DeclRefExpr":
                                nm = y.get("referencedDecl", {}).get("name")
                                out |= {nm} if nm in (p0, p1) else src.get(nm, set())
                        return out
                    ok = db.callee(dele[0])[0] == q and len(a) >= 3 and _roles(a[0]) == {p0} and _roles(a[1]) == {p1} and \
                        canon(a[2]) == closed_nm and all(canon(db.call_args(u)[1]) == "NonZero" for u in unions)
            n += 1
            chk.instance(rule + ".union", {"function": fn.qual, "sig": fn.sig[:50], "cfg": cfg}, ok=ok)
            if not ok:
                chk.violation(rule + ".union", fn.qual, fn.sig[:30], "%s must return Union(Minkowski(pattern, path, %s, isClosed), NonZero)" % (q, want_sum),
                              fn.where, cfg=cfg)
    # the helper itself: a Union of its first parameter under its fill-rule parameter
    for hu in [g for g in db.find("detail::Union") if g.body is not None] if any(g.qual == "detail::Union" for g in db.funcs) else []:
        ex = [x for x in walk(hu.body) if x.get("kind") == "CXXMemberCallExpr" and db.callee(x)[0] == "Execute"]
        adds = [x for x in walk(hu.body) if x.get("kind") == "CXXMemberCallExpr" and db.callee(x)[0] in ("AddSubject", "AddClip", "AddOpenSubject")]
        ok = len(ex) == 1 and len(hu.params) == 2 and canon(db.call_args(ex[0])[0]).split("::")[-1] == "Union" and \
            canon(db.call_args(ex[0])[1]) == hu.params[1]["name"] and len(adds) == 1 and db.callee(adds[0])[0] == "AddSubject" and \
            canon(db.call_args(adds[0])[0]) == hu.params[0]["name"]
        # ... on a clipper of its own: an engine that outlives the call (static, thread_local, a member) still holds the subjects of
        # earlier calls unless it is cleared first
        for x in walk(hu.body):
            if x.get("kind") == "VarDecl" and "Clipper64" in (qt(x) or "") and (x.get("storageClass") in ("static", "extern") or x.get("tls")):
                cleared = any(y.get("kind") == "CXXMemberCallExpr" and db.callee(y)[0] == "Clear" and canon(db.member_base(y)) == x.get("name") for y in walk(hu.body))
                if not cleared:
                    ok = False
        n += 1
        chk.instance(rule + ".union", {"function": hu.qual, "obligation": "Execute(ClipType::Union, <its fill rule>) on AddSubject(<its paths>), on a fresh (or cleared) clipper", "cfg": cfg}, ok=ok)
        if not ok:
            chk.violation(rule + ".union", hu.qual, "helper", "detail::Union must add its paths as subjects to a clipper of its own (or a cleared one) and execute ClipType::Union with the fill rule it was given", hu.where, cfg=cfg)
    # (g) roles: the pattern is always a closed outline, isClosed speaks about the path.  Every call of detail::Minkowski - from the
    # public functions and from itself - must hand the caller's pattern to the pattern slot and the caller's path to the path slot
    # (a swap is only the same region for the sum of two closed outlines: both flags literally true).
    for fn in db.funcs:
        if fn.body is None or fn.is_pattern:
            continue
        calls = [x for x in walk(fn.body) if x.get("kind") == "CallExpr" and db.callee(x)[0] == "Minkowski" and
                 (db.callee_func(x) is None or db.callee_func(x).id == f.id)]
        if not calls:
            continue
        if len(fn.params) < 2:
            raise AnalysisBroken("%s calls detail::Minkowski but has no (pattern, path) parameters" % fn.qual)
        p0, p1 = fn.params[0]["name"], fn.params[1]["name"]
        local_src = {}
        for x in walk(fn.body):
            if x.get("kind") == "VarDecl" and x.get("name"):
                init = [c for c in kids(x) if isinstance(c, dict) and c.get("kind")]
                if init:
                    local_src[x["name"]] = {y.get("referencedDecl", {}).get("name") for y in walk(init[-1]) if y.get("kind") == "DeclRefExpr"} & {p0, p1}

        def roles(e):
            out = set()
            for y in walk(e):
                if y.get("kind") == "DeclRefExpr":
                    nm = y.get("referencedDecl", {}).get("name")
                    if nm in (p0, p1):
                        out.add(nm)
                    elif nm in local_src:
                        out |= local_src[nm]
            return out
        for c in calls:
            a = db.call_args(c)
            r0, r1 = roles(a[0]), roles(a[1])
            ok = r0 == {p0} and r1 == {p1}
            if not ok and r0 == {p1} and r1 == {p0} and canon(a[2]) == "true" and canon(a[3]) == "true":
                ok = True
            n += 1
            chk.instance(rule + ".roles", {"caller": fn.qual, "sig": fn.sig[:50], "pattern_slot": sorted(r0), "path_slot": sorted(r1), "cfg": cfg}, ok=ok)
            if not ok:
                chk.violation(rule + ".roles", fn.qual, "%s|%s" % (fn.sig[:30], canon(c)[:50]),
                              "call `%s`: the pattern slot receives %s and the path slot %s; the pattern is always treated as a closed outline and "
                              "isClosed describes the path, so the caller's %s must go to the pattern slot and its %s to the path slot"
                              % (canon(c)[:90], sorted(r0) or "nothing of the caller's operands", sorted(r1) or "nothing of the caller's operands", p0, p1),
                              where(c), cfg=cfg)
    return n


def group_strip_rule(db, chk, cfg, rule="GROUP.strip-closed"):
    """ClipperOffset::Group::Group removes repeated vertices from the paths it stores.  The *closing* repeat (last == first) may only
    be removed when the paths are closed (EndType::Polygon or EndType::Joined): for Butt / Square / Round ends the last vertex of a path
    that returns to its start is a real end point - removing it un-strokes the last segment and moves the cap."""
    f = db.one("ClipperOffset::Group::Group", inst="EndType")
    calls = [x for x in walk(f.body) if x.get("kind") == "CallExpr" and db.callee(x)[0] == "StripDuplicates"]
    if not calls:
        raise AnalysisBroken("ClipperOffset::Group::Group no longer calls StripDuplicates")
    et = None
    for en, vals in db.enums.items():
        if set(("Polygon", "Joined", "Butt", "Square", "Round")) <= set(vals):
            et = (en, list(vals))
    if et is None:
        raise AnalysisBroken("enum EndType not found")
    pname = f.params[2]["name"] if len(f.params) >= 3 else None
    n = 0
    par = {}
    for x in walk(f.body):
        for c0 in kids(x):
            if isinstance(c0, dict):
                par[id(c0)] = x
    reached = {name: 0 for name in et[1]}
    for c in calls:
        arg = db.call_args(c)[1]
        # the conditions under which this call is reached (a flag computed once may have been turned into two branches)
        guards = []
        node = c
        while par.get(id(node)) is not None:
            p = par[id(node)]
            if p.get("kind") == "IfStmt":
                cond, then, els = if_parts(p)
                if node is then or node is els:
                    guards.append((cond, node is then))
            node = p
        for name in et[1]:
            v = et[1].index(name)
            env = {"end_type": v}
            if pname:
                env[pname] = v
            it = Interp(db, env)
            try:
                for s in kids(f.body):
                    if s.get("kind") == "DeclStmt" and all(qt(d) in ("bool", "const bool") for d in kids(s) if d.get("kind") == "VarDecl"):
                        for d in kids(s):
                            init = [z for z in kids(d) if isinstance(z, dict) and z.get("kind")]
                            if init:
                                it.env[d["name"]] = it.ev(init[-1])
                if not all(bool(it.ev(g)) == pol for g, pol in guards):
                    continue
                reached[name] += 1
                got = bool(it.ev(arg))
            except Unsupported as e:
                raise AnalysisBroken("cannot evaluate the is_closed_path argument of StripDuplicates in Group::Group: %s" % e)
            want = name in ("Polygon", "Joined")
            n += 1
            chk.instance(rule, {"end_type": name, "closing_vertex_stripped": got, "cfg": cfg}, ok=(got == want))
            if got != want:
                chk.violation(rule, f.qual, name, "for EndType::%s the group %s a closing vertex equal to the first one; it must be stripped exactly for "
                              "the closed end types Polygon and Joined" % (name, "strips" if got else "keeps"), where(c), cfg=cfg)
    for name, k in reached.items():
        if k == 0:
            n += 1
            chk.instance(rule, {"end_type": name, "closing_vertex_stripped": None, "cfg": cfg}, ok=False)
            chk.violation(rule, f.qual, name + "|unreached", "for EndType::%s ClipperOffset::Group::Group does not strip duplicate vertices at all" % name, f.where, cfg=cfg)
    return n


# ---------------------------------------------------------------------------
# JOIN.dispatch: which join construction a convex vertex gets (C06, C07)
# ---------------------------------------------------------------------------

def _temp_lim_for(db, ml):
    """value the code stores into temp_lim_ for MiterLimit ml (all stores in ClipperOffset must agree)"""
    vals = []
    for f in db.funcs:
        if f.is_pattern or f.body is None or f.cls != "ClipperOffset":
            continue
        for x in walk(f.body):
            if x.get("kind") == "BinaryOperator" and x.get("opcode") == "=" and canon(kids(x)[0]).replace("this->", "") == "temp_lim_":
                env = {"miter_limit_": ml}
                for y in walk(kids(x)[1]):
                    if y.get("kind") == "DeclRefExpr" and "miter" in (y.get("referencedDecl", {}).get("name") or "").lower():
                        env[y["referencedDecl"]["name"]] = ml          # a constructor parameter the member is initialised from
                try:
                    v = Interp(db, env, []).ev(kids(x)[1])
                except Unsupported:
                    continue                                           # not a function of the limit alone: judged by LIMIT.rederived / DBU
                vals.append(float(getattr(v, "v", v)))
    if not vals:
        # no assignment (e.g. the value is set in a constructor's initialiser list): the comparison site is judged on its own, with the
        # threshold the limit calls for; whether the member is up to date at every Execute is LIMIT.rederived's obligation
        return 2.0 if ml <= 1.0 else 2.0 / (ml * ml)
    if max(vals) - min(vals) > 1e-12:
        raise AnalysisBroken("JOIN.dispatch: the stores into temp_lim_ disagree for MiterLimit %s: %s" % (ml, vals))
    return vals[0]


def join_dispatch_table(db, chk, cfg, rule="JOIN.dispatch"):
    """ClipperOffset::OffsetPoint, the part after the negligible-delta return, interpreted on convex vertices (sin_a * delta > 0) well
    away from the straight and the reversed configuration, for every JoinType, either sign of delta and miter limits on both sides of
    the vertex's miter length:  Miter -> DoMiter(path, j, k, cos_a) iff 1 + cos_a > temp_lim_ (= 2 / limit^2; miter length
    sqrt(2 / (1 + cos_a)) within the limit), else DoSquare;  Round -> DoRound(path, j, k, atan2(sin_a, cos_a));  Bevel -> DoBevel;
    Square -> DoSquare - each with (path, j, k) in that order.  (Concave and nearly straight vertices are not judged: the property
    does not prescribe their construction.)"""
    import math
    f = db.one("ClipperOffset::OffsetPoint")
    jts = db.enum("JoinType")
    if set(jts) != {"Square", "Bevel", "Round", "Miter"}:
        raise AnalysisBroken("enum JoinType is no longer {Square, Bevel, Round, Miter}: %s" % (jts,))
    HELPERS = ("DoMiter", "DoSquare", "DoRound", "DoBevel")
    if not any(y.get("kind") in ("CXXMemberCallExpr", "CallExpr") and db.callee(y)[0] in HELPERS for y in walk(f.body)):
        raise AnalysisBroken("OffsetPoint no longer calls DoMiter / DoSquare / DoRound / DoBevel")
    n = 0
    pnames = [p.get("name") for p in f.params]
    for ji, jt in enumerate(jts):
        for cos_a in (-0.8, 0.0, 0.8):
            for delta in (5.0, -5.0):
                for ml in (1.0, 2.0, math.sqrt(40.0)):
                    # the threshold is what the code itself derives from this MiterLimit (every store into temp_lim_ evaluated): the
                    # two sites - where the threshold is computed and where it is compared - are judged together, against the limit
                    temp_lim = _temp_lim_for(db, ml)
                    sin_a = math.sqrt(1 - cos_a * cos_a) * (1 if delta > 0 else -1)        # convex: sin_a * delta > 0
                    calls = []

                    def hook(name, argv, nd):
                        if name in HELPERS:
                            a = db.call_args(nd)
                            vals = [canon(a[0]), canon(a[1]), canon(a[2])]
                            extra = None
                            if len(a) > 3:
                                try:
                                    extra = it.ev(a[3])
                                except Unsupported:
                                    extra = canon(a[3])
                            calls.append((name, tuple(vals), extra))
                            return None
                        if name == "atan2" and argv is not None:
                            return math.atan2(argv[0], argv[1])
                        # the whole function is interpreted: the turn's sine and cosine are what CrossProduct / DotProduct of the two
                        # normals return (their formulas are POLY.offset's business), the two vertices differ, no delta callback
                        if name == "CrossProduct":
                            return sin_a
                        if name == "DotProduct":
                            return cos_a
                        if name in ("operator==", "operator!=") and nd.get("kind") == "CXXOperatorCallExpr":
                            return name == "operator!="
                        if name in ("emplace_back", "push_back"):
                            calls.append(("emplace", canon(nd)[:60], None))
                            return None
                        if name in ("GetPerpendic", "GetPerpendicD"):
                            return None
                        if name in ("fabs", "abs") and argv is not None:
                            return abs(argv[0])
                        return NotImplemented
                    it = Interp(db, {"join_type_": ji, "group_delta_": delta, "temp_lim_": temp_lim,
                                     "deltaCallback64_": False, "floating_point_tolerance": 1e-12}, call_hook=hook)
                    try:
                        it.exec(f.body)
                    except Unsupported as e:
                        raise AnalysisBroken("cannot interpret the join dispatch of OffsetPoint: %s" % e)
                    except _Return:
                        pass
                    if jt == "Miter":
                        want = ("DoMiter" if (ml > 1.0 and 1 + cos_a > 2.0 / (ml * ml)) else "DoSquare")
                    else:
                        want = {"Round": "DoRound", "Bevel": "DoBevel", "Square": "DoSquare"}[jt]
                    ok = len(calls) == 1 and calls[0][0] == want and calls[0][1] == (pnames[1], pnames[2], pnames[3])
                    if ok and want == "DoMiter":
                        ok = calls[0][2] == cos_a
                    if ok and want == "DoRound":
                        ok = isinstance(calls[0][2], float) and abs(calls[0][2] - math.atan2(sin_a, cos_a)) < 1e-12
                    n += 1
                    chk.instance(rule, {"join": jt, "cos_a": cos_a, "delta": delta, "temp_lim_": temp_lim, "calls": [c[0] for c in calls], "cfg": cfg}
                                 if n % 7 == 1 or not ok else None, ok=ok)
                    if not ok:
                        chk.violation(rule, f.qual, "%s/cos%s/d%s/lim%s" % (jt, cos_a, delta, temp_lim),
                                      "convex vertex, JoinType::%s, cos_a=%s, sin_a=%.3f, delta=%s, temp_lim_=%s as the code derives it from the MiterLimit (miter length %.3f, limit %.3f): OffsetPoint makes %s; "
                                      "it must make exactly %s(path, j, k%s)" % (jt, cos_a, sin_a, delta, temp_lim, math.sqrt(2 / (1 + cos_a)), ml,
                                                                                [(c[0], c[1], c[2]) for c in calls] or "nothing", want,
                                                                                ", cos_a" if want == "DoMiter" else (", atan2(sin_a, cos_a)" if want == "DoRound" else "")),
                                      f.where, cfg=cfg)
                        return n
    return n


# ---------------------------------------------------------------------------
# THRESHOLD.bisector: the square join's bisector cannot be "almost zero" (C06, C07)
# ---------------------------------------------------------------------------

def bisector_threshold_rule(db, chk, cfg, rule="THRESHOLD.bisector"):
    """DoSquare averages the two perpendiculars of the adjacent normals; their sum has length sqrt(2 - 2 cos A) (A the turn).  OffsetPoint
    sends turns with cos A above a literal C (nearly straight) to DoMiter before DoSquare can be reached, so the sum DoSquare sees is at
    least sqrt(2 - 2C) long.  NormalizeVector gives up (returns the zero vector, and DoSquare then emits the vertex itself) when the
    length is below AlmostZero's epsilon E.  The two literals must leave no gap: E^2 <= 2 - 2C.  Both are read from the code."""
    def lit(e):
        e0 = strip(e)
        if e0.get("kind") in ("FloatingLiteral", "IntegerLiteral"):
            return float(e0.get("value"))
        if e0.get("kind") == "UnaryOperator" and e0.get("opcode") == "-":
            v = lit(kids(e0)[0])
            return -v if v is not None else None
        return None
    f = db.one("ClipperOffset::OffsetPoint")
    cs = []
    for x in walk(f.body):
        if x.get("kind") != "IfStmt":
            continue
        cond, then, els = if_parts(x)
        tcalls = [y for y in walk(then) if y.get("kind") in ("CXXMemberCallExpr", "CallExpr") and db.callee(y)[0] in ("DoMiter", "DoSquare", "DoRound", "DoBevel")]
        if len(tcalls) != 1 or db.callee(tcalls[0])[0] != "DoMiter" or len(db.call_args(tcalls[0])) < 4:
            continue
        cv = canon(db.call_args(tcalls[0])[3])
        for a in walk(cond):
            if a.get("kind") == "BinaryOperator" and a.get("opcode") in (">", ">=", "<", "<="):
                l, r = kids(a)
                if canon(l) == cv and lit(r) is not None and a.get("opcode") in (">", ">="):
                    cs.append((lit(r), x))
                elif canon(r) == cv and lit(l) is not None and a.get("opcode") in ("<", "<="):
                    cs.append((lit(l), x))
    cs = [c for c in cs if 0 < c[0] < 1]
    if not cs:
        chk.instance(rule, {"judged": "no literal 'nearly straight -> DoMiter' shortcut found in OffsetPoint", "cfg": cfg}, ok=True)
        return 1
    C = max(c[0] for c in cs)
    # the epsilon NormalizeVector applies to the length
    nv = [g for g in db.find("NormalizeVector") if g.body is not None] if any(g.name == "NormalizeVector" for g in db.funcs) else []
    E = None
    site = None
    for g in nv:
        for c in walk(g.body):
            if c.get("kind") == "CallExpr" and db.callee(c)[0] == "AlmostZero":
                a = db.call_args(c)
                if len(a) >= 2 and a[1].get("kind") != "CXXDefaultArgExpr" and lit(a[1]) is not None:
                    E, site = lit(a[1]), c
                else:
                    az = db.callee_func(c)
                    if az is not None and len(az.params) >= 2:
                        dflt = [k for k in kids(az.params[1]) if isinstance(k, dict) and k.get("kind")]
                        if dflt and lit(dflt[-1]) is not None:
                            E, site = lit(dflt[-1]), c
    if E is None:
        chk.instance(rule, {"judged": "NormalizeVector's zero-length test is not `AlmostZero(length[, literal])`", "cfg": cfg}, ok=True)
        return 1
    ok = E * E <= 2 - 2 * C
    chk.instance(rule, {"nearly_straight_cosine": C, "shortest_bisector_sum": (2 - 2 * C) ** 0.5, "almost_zero_epsilon": E, "cfg": cfg}, ok=ok)
    if not ok:
        chk.violation(rule, "NormalizeVector", "eps=%s|C=%s" % (E, C),
                      "OffsetPoint routes turns with cos > %s to DoMiter, so DoSquare's bisector sum can be as short as sqrt(2 - 2*%s) = %.4f; NormalizeVector treats "
                      "lengths below %s as zero and returns the zero vector: joins turning between the two thresholds are squared along no direction at all "
                      "(the vertex itself is emitted)" % (C, C, (2 - 2 * C) ** 0.5, E), where(site), cfg=cfg)
    return 1


# ---------------------------------------------------------------------------
# EMIT.every-path: the per-path offsetters hand a contour to the solution on every path through them
# ---------------------------------------------------------------------------

def emit_every_path_rule(db, chk, cfg, rule="EMIT.every-path"):
    """OffsetPolygon, OffsetOpenJoined and OffsetOpenPath are what DoGroupOffset calls for a path that survived its own filters
    (empty path, single point, a group delta that cannot be honoured).  Whatever they are handed is offset: on every path from entry
    to exit the function appends path_out to the solution, or calls a sibling that does so on all of its paths.  A return in front
    of that - "this ring would vanish anyway" - judges a path by a global quantity (net area, bounding box) that says nothing
    about the lobes of a self-crossing path, or about the outer side of a Joined path, which is offset by the same function."""
    from ..flow import Walker, Client
    names = ("ClipperOffset::OffsetPolygon", "ClipperOffset::OffsetOpenJoined", "ClipperOffset::OffsetOpenPath")
    funcs = {}
    for q in names:
        fs = [f for f in db.find(q) if f.body is not None and not f.is_pattern]
        if len(fs) != 1:
            raise AnalysisBroken("%s: %s not found exactly once (configuration %s)" % (rule, q, cfg))
        funcs[fs[0].name] = fs[0]
    always = set()

    class _Emit(Client):
        def __init__(self):
            self.bad = []

        def join(self, a, b):
            return a and b

        def stmt(self, node, st):
            if st:
                return st
            for y in walk(node):
                k = y.get("kind")
                if k == "CXXMemberCallExpr":
                    nm = db.callee(y)[0]
                    base = db.member_base(y)
                    if nm in ("emplace_back", "push_back") and base is not None and canon(base).replace("(", "").replace(")", "").replace("*", "").replace("this->", "") == "solution":
                        return True
                    if nm in always and (base is None or _u(base).get("kind") == "CXXThisExpr"):
                        return True
            return st

        def cond_atom(self, expr, st):
            # a test of nothing but the size of the path handed in (`if (path.size() < 2) return;`) repeats DoGroupOffset's own
            # filters: the branch a long path does not take carries no obligation
            pname = self.pname
            leaves_ok = True
            for y in walk(expr):
                k = y.get("kind")
                if k == "DeclRefExpr" and y.get("referencedDecl", {}).get("name") != pname:
                    leaves_ok = False
                if k in ("CallExpr", "CXXOperatorCallExpr") or (k == "CXXMemberCallExpr" and db.callee(y)[0] not in ("size", "empty")):
                    leaves_ok = False
                if k == "MemberExpr" and y.get("name") not in ("size", "empty"):
                    leaves_ok = False
            if leaves_ok and any(y.get("kind") == "CXXMemberCallExpr" for y in walk(expr)):
                def hook(name, argv, nd):
                    if name == "size":
                        return 1000
                    if name == "empty":
                        return False
                    return NotImplemented
                try:
                    long_takes = bool(Interp(db, {}, [], call_hook=hook).ev(expr))
                    return (st, True) if long_takes else (True, st)
                except Unsupported:
                    pass
            s2 = self.stmt(expr, st)
            return s2, s2

        def on_return(self, node, st):
            if not st:
                self.bad.append(node)

        def on_exit(self, st):
            if st is not None and not st:
                self.bad.append(None)

    results = {}
    for _ in range(len(funcs) + 1):
        changed = False
        for nm, f in funcs.items():
            cl = _Emit()
            cl.pname = ([p.get("name") for p in f.params if "Path" in qt(p) or "vector" in qt(p)] or [None])[-1]
            Walker(cl).function(f.body, False)
            results[nm] = cl.bad
            if not cl.bad and nm not in always:
                always.add(nm)
                changed = True
        if not changed:
            break
    n = 0
    for nm, f in funcs.items():
        n += 1
        bad = results[nm]
        chk.instance(rule, {"function": f.qual, "obligation": "every path through the function appends path_out to the solution", "cfg": cfg}, ok=not bad)
        if bad:
            at = bad[0]
            chk.violation(rule, f.qual, "exit", "%s can return%s without having appended a contour to the solution: the path it was handed is dropped from the offset "
                          "(for a Joined path or a self-crossing one that is part of the region within |delta| of the input)"
                          % (f.qual, (" at %s" % where(at)) if at is not None else " (falling off its end)"), where(at) if at is not None else f.where, cfg=cfg)
    return n


# ---------------------------------------------------------------------------
# MINK.point-ops: the point sum / difference Minkowski is built from
# ---------------------------------------------------------------------------

def point_ops_rule(db, chk, cfg, rule="MINK.point-ops"):
    """detail::Minkowski forms its rows with Point::operator+ and Point::operator- (path point +/- pattern point).  Both member
    operators are interpreted on two valuations of (x, y, b.x, b.y): the point they construct has x +/- b.x and y +/- b.y as its
    first two coordinates, in every build (the USINGZ variant may carry a third)."""
    n = 0
    for f in db.funcs:
        if f.is_pattern or f.body is None or f.name not in ("operator+", "operator-") or len(f.params) != 1 or not (f.cls or "").startswith("Point"):
            continue
        b = f.params[0].get("name")
        sign = 1 if f.name == "operator+" else -1
        ok = True
        got_all = []
        for (x, y, bx, by) in ((5, 7, 2, 3), (-11, 13, 17, -19)):
            def hook(name, argv, nd):
                if name.startswith("ctor:") and argv is not None and len(argv) >= 2:
                    return ("pt",) + tuple(argv)
                return NotImplemented
            it = Interp(db, {"x": x, "y": y, "z": 0, b + ".x": bx, b + ".y": by, b + ".z": 0}, [], call_hook=hook)
            rets = [r for r in walk(f.body) if r.get("kind") == "ReturnStmt" and kids(r)]
            got = None
            if len(rets) == 1:
                ctor = [c for c in walk(rets[0]) if c.get("kind") in ("CXXConstructExpr", "CXXTemporaryObjectExpr", "InitListExpr") and
                        len([a for a in kids(c) if isinstance(a, dict) and a.get("kind") and a.get("kind") != "CXXDefaultArgExpr"]) >= 2]
                if ctor:
                    args = [a for a in kids(ctor[0]) if isinstance(a, dict) and a.get("kind") and a.get("kind") != "CXXDefaultArgExpr"]
                    try:
                        got = ("pt",) + tuple(it.ev(a) for a in args)
                    except Unsupported as e:
                        raise AnalysisBroken("%s: cannot interpret Point::%s: %s" % (rule, f.name, e))
            if got is None:
                try:
                    it.exec(f.body)
                except _Return as r:
                    got = r.v
                except Unsupported as e:
                    raise AnalysisBroken("%s: cannot interpret Point::%s: %s" % (rule, f.name, e))
            got_all.append(got)
            if not (isinstance(got, tuple) and got[0] == "pt" and got[1] == x + sign * bx and got[2] == y + sign * by):
                ok = False
        n += 1
        chk.instance(rule, {"function": f.qual, "sig": f.sig[:60], "cfg": cfg}, ok=ok)
        if not ok:
            chk.violation(rule, f.qual, f.name + "|" + f.sig[:30], "Point::%s does not return (x %s b.x, y %s b.y): on (5,7) and (2,3) it builds %s - every row of a Minkowski %s is "
                          "displaced" % (f.name, "+-"[sign < 0], "+-"[sign < 0], got_all[0], "sum" if sign > 0 else "difference"), f.where, cfg=cfg)
    if n < 2:
        raise AnalysisBroken("%s: Point::operator+ / operator- not found (configuration %s)" % (rule, cfg))
    return n


# ---------------------------------------------------------------------------
# OPTIONS.forwarded: InflatePaths hands each of its options to the ClipperOffset option of the same name (C06, C07)
# ---------------------------------------------------------------------------

def inflate_options_rule(db, chk, cfg, rule="OPTIONS.forwarded"):
    """InflatePaths (both overloads) is `ClipperOffset(miter_limit, arc_tolerance)` + AddPaths + Execute.  The constructor's parameters
    are both doubles, so the compiler cannot tell them apart: each constructor argument that mentions parameters of InflatePaths
    must mention the one whose name is the name of the constructor parameter it is bound to (resolved constructor declaration)."""
    n = 0
    for f in db.find("InflatePaths"):
        if f.is_pattern or f.body is None:
            continue
        pn = {p.get("id"): p.get("name") for p in f.params}
        for x in walk(f.body):
            if x.get("kind") not in ("CXXConstructExpr", "CXXTemporaryObjectExpr") or "ClipperOffset" not in (dqt(x) or qt(x) or ""):
                continue
            args = [a for a in kids(x) if isinstance(a, dict) and a.get("kind")]
            ctor = None
            for g in db.funcs + list(db.all_func_decls.values()):
                if g.cls == "ClipperOffset" and g.name == "ClipperOffset" and len(g.params) >= len(args) and len(g.params) >= 2 and "double" in (qt(g.params[0]) or ""):
                    ctor = g
                    break
            if ctor is None:
                raise AnalysisBroken("%s: constructor ClipperOffset(double, double, ..) not found" % rule)
            for i, a in enumerate(args):
                if a.get("kind") == "CXXDefaultArgExpr":
                    continue
                used = {pn[y["referencedDecl"]["id"]] for y in walk(a) if y.get("kind") == "DeclRefExpr" and y.get("referencedDecl", {}).get("id") in pn}
                used -= {"precision", "scale"}
                if not used:
                    continue
                want = ctor.params[i].get("name")
                n += 1
                ok = want in used
                chk.instance(rule, {"function": f.qual, "sig": f.sig[:50], "ctor_param": want, "argument": canon(a)[:60], "cfg": cfg}, ok=ok)
                if not ok:
                    chk.violation(rule, f.qual, "%s|%s" % (f.sig[:30], want), "InflatePaths binds `%s` to ClipperOffset's parameter `%s`: the option the caller set is applied as a different "
                                  "option (a miter limit used as arc tolerance or the reverse)" % (canon(a)[:60], want), where(x), cfg=cfg)
    if n < 2:
        raise AnalysisBroken("%s: fewer than 2 option arguments found in InflatePaths (configuration %s)" % (rule, cfg))
    return n
