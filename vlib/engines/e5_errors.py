"""E5 - error discipline (C11).

R1  validate-before-use of every precision parameter (path rule, structured CFG)
R2  an error code that may have been set is tested before a non-empty result is produced
    (only meaningful in builds without exceptions, where DoError returns)
R3  every DoError(c) is paired with `error_code |= c` (builds without exceptions keep an error channel)
R4  every double->int64 scaling of caller data is preceded by a range test
R5  C-boundary validation of cliptype / fillrule / precision (exact rejection set, negative / null result)
R6  ClipType::NoClip returns before anything can create output
R7  the validators themselves: CheckPrecisionRange accepts exactly [-MAX, MAX] and raises otherwise;
    ScalePath raises on zero scale; ScalePaths raises when a bound leaves the coordinate range
"""
import re

from ..astq import walk, kids, strip, qt, dqt, where, canon, if_parts
from ..flow import Walker, Client
from ..evalx import Interp, SymVal, Unsupported
from ..extract import AnalysisBroken

PRECISION_NAMES = {"precision", "decimal_prec", "decimalPlaces", "decimal_places", "dec_places", "prec"}
CAST_TRANSPARENT = ("ImplicitCastExpr", "ParenExpr", "MaterializeTemporaryExpr", "ExprWithCleanups", "CXXBindTemporaryExpr")


def _refs(node, decl_id):
    return [x for x in walk(node) if x.get("kind") == "DeclRefExpr" and x.get("referencedDecl", {}).get("id") == decl_id]


def _is_call(n):
    return n.get("kind") in ("CallExpr", "CXXMemberCallExpr", "CXXOperatorCallExpr", "CXXConstructExpr", "CXXTemporaryObjectExpr")


def _parent_map(node):
    par = {}
    for x in walk(node):
        for c in kids(x):
            if isinstance(c, dict):
                par[id(c)] = x
    return par


def _ctor_func(db, cexpr):
    t = dqt(cexpr).replace("Clipper2Lib::", "")
    sig = (cexpr.get("ctorType") or {}).get("qualType", "")
    cands = [f for f in db.funcs if f.kind == "CXXConstructorDecl" and f.cls == t]
    for f in cands:
        if f.sig.replace(" ", "") == sig.replace(" ", ""):
            return f
    return cands[0] if len(cands) == 1 else None


def _callee_func(db, call):
    if call.get("kind") in ("CXXConstructExpr", "CXXTemporaryObjectExpr"):
        return _ctor_func(db, call)
    return db.callee_func(call)


def _disjuncts(e):
    e = strip(e)
    if e.get("kind") == "BinaryOperator" and e.get("opcode") == "||":
        a, b = kids(e)
        return _disjuncts(a) + _disjuncts(b)
    return [e]


def _conjuncts(e):
    e = strip(e)
    if e.get("kind") == "BinaryOperator" and e.get("opcode") == "&&":
        a, b = kids(e)
        return _conjuncts(a) + _conjuncts(b)
    return [e]


def _cannot_fall_through(s):
    """Conservative: statement always leaves the function (return / throw), possibly inside a compound."""
    if not s:
        return False
    k = s.get("kind")
    if k == "ReturnStmt":
        return True
    if strip(s).get("kind") == "CXXThrowExpr":
        return True
    if k == "CompoundStmt":
        ks = kids(s)
        return bool(ks) and _cannot_fall_through(ks[-1])
    if k == "IfStmt":
        c, t, e = if_parts(s)
        return e is not None and _cannot_fall_through(t) and _cannot_fall_through(e)
    return False


def _bound_kinds(cond, pid, negate=False):
    """Which bounds on the parameter follow when `cond` is FALSE (negate=False)
    or TRUE (negate=True).  Returns a subset of {'lo','hi'}."""
    out = set()
    parts = _disjuncts(cond) if not negate else _conjuncts(cond)
    for d in parts:
        if d.get("kind") != "BinaryOperator" or d.get("opcode") not in ("<", ">", "<=", ">="):
            continue
        a, b = [strip(x) for x in kids(d)]
        op = d.get("opcode")
        ra = a.get("kind") == "DeclRefExpr" and a.get("referencedDecl", {}).get("id") == pid
        rb = b.get("kind") == "DeclRefExpr" and b.get("referencedDecl", {}).get("id") == pid
        if ra == rb:
            continue
        if rb:  # c op p  ==  p op' c
            op = {"<": ">", ">": "<", "<=": ">=", ">=": "<="}[op]
        if not negate:
            # cond false => p NOT (op) c
            if op in ("<", "<="):
                out.add("lo")
            else:
                out.add("hi")
        else:
            if op in (">", ">="):
                out.add("lo")
            else:
                out.add("hi")
    return out


# ---------------------------------------------------------------------------
# R1
# ---------------------------------------------------------------------------

class _R1Client(Client):
    """state: True once the parameter has been validated on every path so far."""

    def __init__(self, eng, func, pid):
        self.eng, self.func, self.pid = eng, func, pid
        self.bad = []
        self.validators = []

    def join(self, a, b):
        return a and b

    def stmt(self, node, st):
        db = self.eng.db
        refs = _refs(node, self.pid)
        if not refs:
            return st
        par = _parent_map(node)
        validated_here = False
        for r in refs:
            p = par.get(id(r))
            while p is not None and p.get("kind") in CAST_TRANSPARENT:
                p = par.get(id(p))
            ok = False
            if p is not None and p.get("kind") == "BinaryOperator" and p.get("opcode") in ("<", ">", "<=", ">=", "==", "!="):
                ok = True  # a comparison of the parameter is not a use of its value
            elif p is not None and _is_call(p):
                name, did, kind = db.callee(p)
                idx = None
                for i, a in enumerate(db.call_args(p)):
                    if strip(a) is r:
                        idx = i
                if name == "CheckPrecisionRange" and idx == 0:
                    ok = True
                    validated_here = True
                    self.validators.append(("CheckPrecisionRange", where(p)))
                elif idx is not None:
                    g = _callee_func(db, p)
                    if g is not None and idx < len(g.params) and self.eng.param_validated(g, idx):
                        ok = True
                        self.validators.append(("forwarded to %s, which validates" % g.qual, where(p)))
            if not ok and not st:
                self.bad.append(r)
        return st or validated_here


class _R1Walker(Walker):
    def run(self, n, st):
        if st is None or not n:
            return st
        if n.get("kind") == "IfStmt" and not n.get("hasInit") and not n.get("hasVar"):
            cond, then, els = if_parts(n)
            pid = self.c.pid
            st_c = self.c.stmt(cond, st)
            o1 = self.run(then, st_c)
            o2 = self.run(els, st_c) if els is not None else st_c
            if o1 is None and o2 is not None and _bound_kinds(cond, pid) == {"lo", "hi"}:
                self.c.validators.append(("explicit range test " + canon(cond)[:80], where(n)))
                o2 = True
            if o2 is None and o1 is not None and _bound_kinds(cond, pid, negate=True) == {"lo", "hi"}:
                o1 = True
            return self._join_all([o1, o2])
        return Walker.run(self, n, st)


class E5:
    def __init__(self, db, chk, cfg):
        self.db, self.chk, self.cfg = db, chk, cfg
        self._memo = {}
        f = db.one("DoError")
        self.doerror_throws = any(x.get("kind") == "CXXThrowExpr" for x in walk(f.body))
        self.max_prec = self._max_prec()

    def _max_prec(self):
        for n, qual, cls in self.db.globals:
            if n.get("name") == "CLIPPER2_MAX_DEC_PRECISION":
                lits = [x for x in walk(n) if x.get("kind") == "IntegerLiteral"]
                if lits:
                    return int(lits[0]["value"])
        raise AnalysisBroken("CLIPPER2_MAX_DEC_PRECISION not found")

    # -- R1 -----------------------------------------------------------------
    def precision_params(self):
        out = []
        for f in self.db.funcs:
            if f.is_pattern:
                continue
            for i, p in enumerate(f.params):
                if p.get("name") in PRECISION_NAMES and qt(p).replace("const ", "").strip() in ("int", "int &"):
                    out.append((f, i))
        return out

    def param_validated(self, f, idx):
        key = (f.id, idx)
        if key in self._memo:
            return self._memo[key]
        self._memo[key] = False
        ok, _, _ = self._analyse_param(f, idx)
        self._memo[key] = ok
        return ok

    def _analyse_param(self, f, idx):
        pid = f.params[idx].get("id")
        if f.name == "CheckPrecisionRange":
            return True, [], [("is the validator (its own logic is rule R7)", f.where)]
        cl = _R1Client(self, f, pid)
        w = _R1Walker(cl)
        st = False
        for init in f.inits:
            st = cl.stmt(init, st)
        w.function(f.body, st)
        return (not cl.bad), cl.bad, cl.validators

    def rule_r1(self):
        n = 0
        for f, idx in self.precision_params():
            ok, bad, validators = self._analyse_param(f, idx)
            pname = f.params[idx].get("name")
            n += 1
            self.chk.instance("R1.validate-before-use",
                              {"function": f.qual, "param": pname, "where": f.where,
                               "validated_by": sorted({v[0] for v in validators})[:3], "cfg": self.cfg}, ok=ok)
            if not ok:
                b = bad[0]
                self.chk.violation("R1.validate-before-use", f.qual, pname,
                                   "parameter '%s' is used at %s on a path where it has not been range-checked (no "
                                   "CheckPrecisionRange / explicit range test dominates the use, and the callee does not validate it)"
                                   % (pname, where(b)), where(b), cfg=self.cfg)
        return n

    # -- R2 -------------------------------------------------------------------
    def _may_set_error(self, call, ref_idx):
        """Can this call, receiving the error code by reference at ref_idx, set it?"""
        name, did, kind = self.db.callee(call)
        g = _callee_func(self.db, call)
        if g is None:
            return True
        if ref_idx >= len(g.params) or "&" not in qt(g.params[ref_idx]) or qt(g.params[ref_idx]).startswith("const"):
            return False
        # output-direction scaling (T1 = double) has no range error; its only error is a zero scale
        ret = g.sig.split("(")[0]
        if name in ("ScalePath", "ScalePaths") and "<double>" in ret:
            return False
        return True

    def rule_r2(self):
        """noexc builds only."""
        n = 0
        swallowers = {}
        for f in self.db.funcs:
            if f.is_pattern:
                continue
            ecs = [x for x in walk(f.body) if x.get("kind") == "VarDecl" and re.search(r'err', x.get("name", ""), re.I)
                   and qt(x) == "int"]
            for ec in ecs:
                cl = _R2Client(self, f, ec["id"])
                Walker(cl).function(f.body, frozenset([("clean", frozenset())]))
                if not cl.tracked:
                    continue
                if cl.swallows and not cl.read_elsewhere:
                    swallowers[f.id] = (f, ec.get("name"), cl.setters[:1])
                n += 1
                ok = not cl.bad
                self.chk.instance("R2.error-consumed", {"function": f.qual, "error_var": ec.get("name"), "where": f.where,
                                                        "setters": cl.setters[:3], "cfg": self.cfg}, ok=ok)
                for node, why in cl.bad[:1]:
                    self.chk.violation("R2.error-consumed", f.qual, ec.get("name"),
                                       "%s at %s while '%s' may hold an unreported error (set by %s): the error is lost and a "
                                       "result is produced" % (why, where(node), ec.get("name"), ", ".join(cl.setters[:2])),
                                       where(node), cfg=self.cfg)
        # nobody may call a function that drops an error on the floor: with exceptions disabled its caller continues as if the
        # argument had been accepted.  Judged at every call site whose callee has such a sibling overload (same name).
        names = {g.name for g, _, _ in swallowers.values()}
        for f in self.db.funcs:
            if f.is_pattern or f.body is None or f.id in swallowers:
                continue
            for c in walk(f.body):
                if not _is_call(c) or self.db.callee(c)[0] not in names:
                    continue
                g = _callee_func(self.db, c)
                n += 1
                ok = g is None or g.id not in swallowers
                self.chk.instance("R2.error-consumed", {"function": f.qual, "call": canon(c)[:60], "callee_sig": g.sig[:60] if g else None,
                                                        "swallows_error": not ok, "cfg": self.cfg}, ok=ok)
                if not ok:
                    g0, ecn, setters = swallowers[g.id]
                    self.chk.violation("R2.error-consumed", f.qual, "%s|%s" % (g.name, canon(c)[:40]),
                                       "`%s`: this overload of %s keeps the error in a local '%s' (set by %s) that nobody reads, so with exceptions "
                                       "disabled the error is lost and %s continues as if the argument had been accepted"
                                       % (canon(c)[:70], g.name, ecn, ", ".join(setters), f.qual), where(c), cfg=self.cfg)
        self.swallowers = sorted(g.qual + " " + g.sig[:40] for g, _, _ in swallowers.values())
        # member error code of ClipperD
        execs = self.db.find("ClipperD::Execute")
        for f in execs:
            uses = [x for x in walk(f.body) if x.get("kind") == "MemberExpr" and x.get("name") == "error_code_"]
            delegates = [x for x in walk(f.body) if x.get("kind") == "CXXMemberCallExpr" and self.db.callee(x)[0] == "Execute"]
            n += 1
            ok = bool(uses) or bool(delegates)
            self.chk.instance("R2.member-error-consumed", {"function": f.qual, "sig": f.sig, "tests_error_code_": bool(uses),
                                                           "delegates": bool(delegates), "cfg": self.cfg}, ok=ok)
            if not ok:
                self.chk.violation("R2.member-error-consumed", f.qual, "error_code_",
                                   "ClipperD::Execute produces a solution without consulting error_code_ (set by the constructor's "
                                   "CheckPrecisionRange and by AddSubject/AddClip's ScalePaths): with exceptions disabled an invalid "
                                   "precision or out-of-range coordinates still yield a non-empty result", f.where, cfg=self.cfg)
        return n

    # -- R3 -------------------------------------------------------------------
    def rule_r3(self):
        n = 0
        for f in self.db.funcs:
            if f.is_pattern and any(g.qual == f.qual and g.is_inst for g in self.db.funcs):
                continue
            par = None
            for x in walk(f.body):
                if x.get("kind") == "CallExpr" and self.db.callee(x)[0] == "DoError":
                    if par is None:
                        par = _parent_map(f.body)
                    n += 1
                    arg = canon(kids(x)[1]) if len(kids(x)) > 1 else "?"
                    p = par.get(id(x))
                    ok = False
                    if p is not None and p.get("kind") == "CompoundStmt":
                        sibs = kids(p)
                        i = [id(s) for s in sibs].index(id(x))
                        if i > 0:
                            prev = strip(sibs[i - 1])
                            if prev.get("kind") == "CompoundAssignOperator" and prev.get("opcode") == "|=" \
                                    and canon(kids(prev)[1]) == arg:
                                ok = True
                    self.chk.instance("R3.doerror-paired", {"function": f.qual, "code": arg, "where": where(x), "cfg": self.cfg}, ok=ok)
                    if not ok:
                        self.chk.violation("R3.doerror-paired", f.qual, arg,
                                           "DoError(%s) is not preceded by `<error code> |= %s`: in a build without exceptions "
                                           "DoError returns and the error leaves no trace" % (arg, arg), where(x), cfg=self.cfg)
        return n

    # -- R4 -------------------------------------------------------------------
    _LONG_GEOM = re.compile(r'^(Clipper2Lib::)?(Path|Paths|Rect)<long>|^(Clipper2Lib::)?(Path64|Paths64|Rect64)\b')

    def scalers(self):
        """Concrete functions that turn caller-supplied doubles times a scale into int64 geometry."""
        out = []
        for f in self.db.funcs:
            if f.is_pattern:
                continue
            ret = f.sig.split("(")[0].strip()
            if not self._LONG_GEOM.search(ret):
                continue
            if not any(re.search(r'scale', p.get("name", ""), re.I) and qt(p).replace("const ", "") == "double" for p in f.params):
                continue
            src_double = any(re.search(r'double|PathD|PathsD|RectD', qt(p)) and not re.search(r'scale', p.get("name", ""), re.I)
                             for p in f.params)
            if not src_double:
                continue
            out.append(f)
        return out

    def _has_range_test(self, f):
        for x in walk(f.body):
            if x.get("kind") == "BinaryOperator" and x.get("opcode") in ("<", ">", "<=", ">="):
                s = canon(x)
                if re.search(r'\b(min_coord|max_coord|MIN_COORD|MAX_COORD)\b', s):
                    return True
        return False

    def rule_r4(self):
        sc = self.scalers()
        if len(sc) < 4:
            raise AnalysisBroken("only %d scaling primitives recognised (expected ScalePath, ScalePaths, ScaleRect, export converters)" % len(sc))
        ids = {f.id: f for f in sc}
        checked = {f.id for f in sc if self._has_range_test(f)}
        # a scaler that only delegates to checked scalers is checked too
        changed = True
        while changed:
            changed = False
            for f in sc:
                if f.id in checked:
                    continue
                calls = [c for c in walk(f.body) if _is_call(c) and (_callee_func(self.db, c) or None) is not None
                         and _callee_func(self.db, c).id in ids]
                prim = [x for x in walk(f.body) if x.get("kind") in ("CXXConstructExpr", "CXXTemporaryObjectExpr")
                        and "Point<long>" in dqt(x)] + [x for x in walk(f.body) if x.get("kind") == "CXXStaticCastExpr"]
                if calls and all(_callee_func(self.db, c).id in checked for c in calls) and not any(
                        x.get("kind") == "LambdaExpr" for x in walk(f.body)):
                    # pure delegation (no own arithmetic on coordinates)
                    own = [x for x in walk(f.body) if x.get("kind") == "BinaryOperator" and x.get("opcode") == "*"]
                    if not own:
                        checked.add(f.id)
                        changed = True
        n = 0
        for g in self.db.funcs:
            if g.is_pattern:
                continue
            for c in walk(g.body):
                if not _is_call(c):
                    continue
                h = _callee_func(self.db, c)
                if h is None or h.id not in ids:
                    continue
                if g.id in ids and g.id not in checked:
                    continue  # an unchecked primitive delegating to another one: judged at its own call sites
                n += 1
                ok = h.id in checked or (g.id in ids and g.id in checked)
                self.chk.instance("R4.range-checked-scaling", {"caller": g.qual, "callee": h.qual, "callee_sig": h.sig[:80],
                                                               "where": where(c), "cfg": self.cfg}, ok=ok)
                if not ok:
                    self.chk.violation("R4.range-checked-scaling", g.qual, h.name,
                                       "caller-supplied floating-point coordinates are scaled to int64 by %s without any test "
                                       "against min_coord/max_coord: values outside the integer range are silently converted"
                                       % h.qual, where(c), cfg=self.cfg)
        self.chk.extra.setdefault("scaling_primitives", {})[self.cfg] = [
            {"function": f.qual, "sig": f.sig[:90], "range_checked": f.id in checked} for f in sc]
        return n

    # -- R5 -------------------------------------------------------------------
    def exported(self):
        out = []
        for f in self.db.funcs:
            if f.mangled and not f.mangled.startswith("_Z") and f.file and f.file.endswith("clipper.export.h"):
                out.append(f)
        return out

    def _first_rejection(self, f, pid):
        """Top-level `if (cond) return X;` statements of f whose condition mentions the parameter,
        provided they precede every other use of it."""
        stmts = kids(f.body)
        rej = []
        for s in stmts:
            refs = _refs(s, pid)
            if not refs:
                continue
            if s.get("kind") == "IfStmt":
                cond, then, els = if_parts(s)
                if _refs(cond, pid) and not _refs(then, pid) and _cannot_fall_through(then) and els is None \
                        and not any(_is_call(x) and x.get("kind") != "CXXOperatorCallExpr" and _refs(x, pid) for x in walk(cond)):
                    rej.append((s, cond, then))
                    continue
            break
        return rej

    def _ret_value(self, then):
        r = then
        while r.get("kind") == "CompoundStmt" and kids(r):
            r = kids(r)[-1]
        if r.get("kind") != "ReturnStmt" or not kids(r):
            return None
        return strip(kids(r)[0])

    def rule_r5(self):
        ex = self.exported()
        n = 0
        for f in ex:
            for p in f.params:
                pname = p.get("name")
                role = None
                if pname == "cliptype":
                    role = ("ClipType", None)
                elif pname == "fillrule":
                    role = ("FillRule", None)
                elif pname in PRECISION_NAMES:
                    role = ("precision", None)
                if not role:
                    continue
                n += 1
                pid = p["id"]
                rej = self._first_rejection(f, pid) or []
                problems = []
                # semantic decision: the function's leading statements are interpreted for every value of the parameter (the other
                # arguments valid: calls that do not involve the parameter answer 'fine'); the function must return an error value
                # exactly for the out-of-range values, before it reaches its working part (the first statement the interpreter has
                # no model for, e.g. the construction of the clipper object)
                if role[0] == "precision":
                    M = self.max_prec
                    dom = list(range(-M - 3, M + 4)) + [-1000, 1000, -(2 ** 31), 2 ** 31 - 1]
                    want = lambda v: v < -M or v > M
                else:
                    vals = self.db.enum(role[0])
                    dom = list(range(0, 256))
                    want = lambda v, k=len(vals): v >= k
                ret_t = f.sig.split("(")[0].strip()
                any_reject = False
                for v in dom:
                    rejected, rv = self._leading_outcome(f, pname, v)
                    if rejected:
                        any_reject = True
                        if ret_t == "int":
                            if not isinstance(rv, int) or isinstance(rv, bool) or rv >= 0:
                                problems.append("value %d is rejected with %r, not a negative error code" % (v, rv))
                                break
                        elif rv not in (None, 0) and not (hasattr(rv, "name") and False):
                            problems.append("value %d is rejected with %r, not a null result" % (v, rv))
                            break
                    if rejected != want(v):
                        problems.append("value %d is %s but must be %s" % (v, "rejected" if rejected else "accepted",
                                                                          "rejected" if want(v) else "accepted"))
                        break
                if not any_reject and not problems:
                    problems.append("no value of the parameter is rejected before the function starts working")
                if True:
                    # the enum the value is later cast to must be the one validated against
                    if role[0] != "precision":
                        casts = [x for x in walk(f.body) if x.get("kind") in ("CXXFunctionalCastExpr", "CStyleCastExpr", "CXXStaticCastExpr")
                                 and _refs(x, pid) and "Clipper2Lib::" in dqt(x)]
                        for c in casts:
                            if role[0] not in dqt(c):
                                problems.append("validated as %s but cast to %s" % (role[0], dqt(c)))
                ok = not problems
                self.chk.instance("R5.c-boundary", {"function": f.qual, "param": pname, "role": role[0],
                                                    "checks": [canon(r[1])[:70] for r in rej], "cfg": self.cfg}, ok=ok)
                if not ok:
                    self.chk.violation("R5.c-boundary", f.qual, pname,
                                       "exported function does not reject exactly the out-of-range values of '%s': %s"
                                       % (pname, "; ".join(problems[:3])), f.where, cfg=self.cfg)
        return n

    def _leading_outcome(self, f, pname, v):
        """(rejected, returned value) of f's leading statements when parameter pname == v and everything else is valid."""
        from ..evalx import _Return, _Break, _Continue
        tainted = {pname}

        def mentions(node):
            return any(y.get("kind") == "DeclRefExpr" and y.get("referencedDecl", {}).get("name") in tainted for y in walk(node))

        def hook(name, argv, nd):
            if not mentions(nd):
                return 0                  # a test of the other arguments: they are valid
            return NotImplemented
        env = {q.get("name"): 1 for q in f.params if q.get("name") and q.get("name") != pname}
        env[pname] = v
        it = Interp(self.db, env, call_hook=hook)
        for s in kids(f.body):
            if not isinstance(s, dict) or not s.get("kind"):
                continue
            if s.get("kind") == "DeclStmt":
                for d in kids(s):
                    if d.get("kind") == "VarDecl" and mentions(d):
                        tainted.add(d.get("name"))
            try:
                it.exec(s)
            except _Return as r:
                return True, r.v
            except (Unsupported, _Break, _Continue, KeyError, TypeError):
                if mentions(s) or s.get("kind") in ("DeclStmt",) and any(y.get("kind") == "CXXConstructExpr" and "Clipper" in qt(y) for y in walk(s)):
                    return False, None    # the working part starts here
                continue                  # a statement about other things that the interpreter has no model for
        return False, None

    # -- R6 ---------------------------------------------------------------------
    def rule_r6(self, mod):
        f = self.db.one("ClipperBase::ExecuteInternal")
        ct = f.params[0]
        stmts = kids(f.body)
        creators = {"NewOutRec"}
        # IR call graph: which functions can reach NewOutRec
        cg = mod.callgraph()
        target = [n for n, fn in mod.funcs.items() if fn.short == "Clipper2Lib::ClipperBase::NewOutRec"]
        if not target:
            raise AnalysisBroken("NewOutRec not found in IR")
        rev = {}
        for a, bs in cg.items():
            for b in bs:
                rev.setdefault(b, set()).add(a)
        can = set(target)
        stack = list(target)
        while stack:
            x = stack.pop()
            for y in rev.get(x, ()):
                if y not in can:
                    can.add(y)
                    stack.append(y)
        can_short = {mod.funcs[x].short.split("::")[-1] for x in can if x in mod.funcs}
        found = None
        pre_calls = []
        for s in stmts:
            if s.get("kind") == "IfStmt":
                cond, then, els = if_parts(s)
                d = _disjuncts(cond)
                first = d[0]
                if first.get("kind") == "BinaryOperator" and first.get("opcode") == "==" and _refs(first, ct["id"]) \
                        and "NoClip" in canon(first) and _cannot_fall_through(then):
                    rv = self._ret_value(then)
                    found = (s, rv)
                    break
            for c in walk(s):
                if _is_call(c):
                    pre_calls.append(c)
        ok = found is not None
        problems = []
        if not ok:
            problems.append("no `if (ct == ClipType::NoClip ...) return` at the top level of ExecuteInternal")
        else:
            for c in pre_calls:
                nm = self.db.callee(c)[0]
                if nm in can_short:
                    problems.append("call to %s (which can reach NewOutRec) precedes the NoClip test" % nm)
        self.chk.instance("R6.noclip", {"function": f.qual, "pre_calls": [self.db.callee(c)[0] for c in pre_calls],
                                        "functions_reaching_NewOutRec": len(can), "cfg": self.cfg}, ok=not problems)
        if problems:
            self.chk.violation("R6.noclip", f.qual, "NoClip", "; ".join(problems), f.where, cfg=self.cfg)
        return 1

    # -- R7 ---------------------------------------------------------------------
    def rule_r7(self):
        n = 0
        M = self.max_prec
        # CheckPrecisionRange(int&, int&)
        f = self.db.one("CheckPrecisionRange", inst="int &, int &")
        pname = f.params[0].get("name")
        ename = f.params[1].get("name")
        bad = None
        for v in list(range(-M - 3, M + 4)) + [-1000, 1000]:
            it = Interp(self.db, {pname: v, ename: 0})
            try:
                it.run_function(f)
            except Unsupported as e:
                raise AnalysisBroken("cannot interpret CheckPrecisionRange: %s" % e)
            raised = any(e[0] == "DoError" for e in it.effects)
            flagged = it.env.get(ename, 0) != 0
            inside = -M <= v <= M
            n += 1
            okc = (raised == (not inside)) and (flagged == (not inside))
            if not inside and okc:
                newp = it.env.get(pname)
                if not (isinstance(newp, int) and -M <= newp <= M):
                    okc = False
            self.chk.instance("R7.validator-table", {"function": "CheckPrecisionRange", "precision": v, "raises": raised,
                                                     "sets_error_code": flagged} if v in (-M - 1, M, M + 1) else None, ok=okc)
            if not okc and bad is None:
                bad = (v, raised, flagged)
        if bad:
            self.chk.violation("R7.validator-table", f.qual, "precision=%d" % bad[0],
                               "CheckPrecisionRange(%d): raises=%s sets_error=%s; it must accept exactly [-%d, %d] and both set "
                               "the error code and call DoError otherwise" % (bad[0], bad[1], bad[2], M, M), f.where, cfg=self.cfg)
        # ScalePath<int64,double>(path, sx, sy, ec): zero scale raises
        for f in self.db.find("ScalePath"):
            if len(f.params) != 4:
                continue
            n += 1
            ifs = [s for s in kids(f.body) if s.get("kind") == "IfStmt"]
            okc = False
            for s in ifs:
                cond, then, els = if_parts(s)
                sx, sy = f.params[1].get("name"), f.params[2].get("name")
                try:
                    tbl = {(a, b): bool(Interp(self.db, {sx: a, sy: b}).ev(cond)) for a in (0.0, 1.0) for b in (0.0, 1.0)}
                except Unsupported:
                    continue
                if tbl == {(0.0, 0.0): True, (0.0, 1.0): True, (1.0, 0.0): True, (1.0, 1.0): False}:
                    txt = canon(then)
                    if "|= scale_error_i" in txt and "DoError(scale_error_i)" in txt:
                        okc = True
            self.chk.instance("R7.zero-scale", {"function": f.qual, "sig": f.sig[:70], "cfg": self.cfg}, ok=okc)
            if not okc:
                self.chk.violation("R7.zero-scale", f.qual, f.sig.split("(")[0].strip(),
                                   "ScalePath no longer reports a zero scale (expected: if (scale_x == 0 || scale_y == 0) "
                                   "{ error_code |= scale_error_i; DoError(scale_error_i); ... })", f.where, cfg=self.cfg)
        # ScalePaths<int64,double>(paths, sx, sy, ec): range test raises and returns empty
        for f in self.db.find("ScalePaths"):
            if len(f.params) != 4 or "<long>" not in f.sig.split("(")[0]:
                continue
            n += 1
            okc = False
            why = "no range test found"
            for s in walk(f.body):
                if s.get("kind") != "IfStmt":
                    continue
                cond, then, els = if_parts(s)
                cs = canon(cond)
                if "min_coord" not in cs and "max_coord" not in cs:
                    continue
                okc, why = self._scalepaths_table(f, cond, then)
                break
            self.chk.instance("R7.range-table", {"function": f.qual, "sig": f.sig[:70], "cfg": self.cfg}, ok=okc)
            if not okc:
                self.chk.violation("R7.range-table", f.qual, "range", "ScalePaths<int64_t> range validation is wrong: " + why,
                                   f.where, cfg=self.cfg)
        return n

    def rule_odd_count(self):
        """MakePath / MakePathD from a std::vector of coordinates: an odd number of values is reported (DoError(non_pair_error_i)) and
        only then; the number of values handed on is the even part.  The function is interpreted for list sizes 0..7."""
        n = 0
        for q in ("MakePath", "MakePathD"):
            for f in self.db.find(q, required=False) or []:
                if f.is_pattern or f.body is None or not f.params or "vector" not in (dqt(f.params[0]) or qt(f.params[0]) or ""):
                    continue
                lname = f.params[0].get("name")
                bad = None
                for size in range(0, 8):
                    handed = []

                    def hook(name, argv, nd, size=size, handed=handed):
                        if name == "size" and nd.get("kind") == "CXXMemberCallExpr" and canon(self.db.member_base(nd)) == lname:
                            return size
                        if name == "MakePathGeneric":
                            handed.append(argv[1] if argv and len(argv) > 1 else None)
                            return None
                        if name.startswith("ctor:"):
                            return None
                        return NotImplemented
                    it = Interp(self.db, {}, [], call_hook=hook)
                    try:
                        it.run_function(f)
                    except Unsupported as e:
                        raise AnalysisBroken("cannot interpret %s: %s" % (f.qual, e))
                    raised = any(e[0] == "DoError" for e in it.effects)
                    okc = raised == (size % 2 == 1) and (not handed or handed[0] is None or int(handed[0]) == size - size % 2)
                    n += 1
                    self.chk.instance("R8.odd-count", {"function": f.qual, "sig": f.sig[:60], "values": size, "reports": raised, "handed_on": handed[:1]} if size in (2, 3) else None, ok=okc)
                    if not okc and bad is None:
                        bad = (size, raised, handed[:1])
                if bad:
                    self.chk.violation("R8.odd-count", f.qual, f.sig[:40], "%s with %d values: DoError(non_pair_error_i) %s, %s values are handed on - an odd number of coordinates "
                                       "must be reported (and only an odd one), the dangling value dropped" % (f.qual, bad[0], "called" if bad[1] else "not called", bad[2]), f.where, cfg=self.cfg)
        return n

    def _scalepaths_table(self, f, cond, then):
        txt = canon(then)
        if "|= range_error_i" not in txt or "DoError(range_error_i)" not in txt:
            return False, "the rejecting branch does not set range_error_i and call DoError(range_error_i)"
        if not _cannot_fall_through(then):
            return False, "the rejecting branch falls through into the scaling code"
        # locate the local Rect variable used in the condition
        mems = sorted({canon(x) for x in walk(cond) if x.get("kind") == "MemberExpr"})
        fields = {m.split(".")[-1]: m for m in mems}
        if set(fields) != {"left", "right", "top", "bottom"}:
            return False, "condition does not test all of left/right/top/bottom (found %s)" % mems
        # the rectangle tested is, on every path, the bounds of the whole input: a local initialised by GetBounds(<paths parameter>)
        # and not assigned again (a rectangle that is only sometimes computed lets the other inputs through unchecked)
        base = fields["left"].rsplit(".", 1)[0]
        pname = f.params[0].get("name")
        decls = [x for x in walk(f.body) if x.get("kind") == "VarDecl" and x.get("name") == base]
        if len(decls) != 1:
            return False, "the rectangle `%s` tested against the coordinate range is not a single local" % base
        init = [c for c in kids(decls[0]) if isinstance(c, dict) and c.get("kind")]
        e0 = strip(init[-1]) if init else {}
        while e0.get("kind") in ("CXXConstructExpr", "MaterializeTemporaryExpr", "CXXBindTemporaryExpr", "ExprWithCleanups") and len(kids(e0)) == 1:
            e0 = strip(kids(e0)[0])
        if not (e0.get("kind") == "CallExpr" and self.db.callee(e0)[0] == "GetBounds" and self.db.call_args(e0) and canon(self.db.call_args(e0)[0]) == pname):
            return False, ("the rectangle `%s` tested against the coordinate range is not always GetBounds(%s) (its initialiser is `%s`): inputs for which the "
                           "bounds are not computed are scaled unchecked" % (base, pname, canon(init[-1])[:80] if init else "missing"))
        for x in walk(f.body):
            if x.get("kind") == "BinaryOperator" and x.get("opcode") == "=" and canon(kids(x)[0]) == base:
                return False, "the rectangle `%s` is assigned again before / after the range test" % base
        sx, sy = f.params[1].get("name"), f.params[2].get("name")
        consts = {}
        for n, qual, cls in self.db.globals:
            if n.get("name") in ("min_coord", "max_coord"):
                consts[n.get("name")] = None
        lo, hi = -2.0 ** 61 + 1, 2.0 ** 61 - 1   # INT64_MAX >> 2 as double (close enough for cell representatives)
        big = 2.0 ** 62
        cells = [(-big, "below"), (0.0, "inside"), (big, "above")]
        for (l, kl) in cells:
            for (r, kr) in cells:
                if r < l:
                    continue
                for (t, kt) in cells:
                    for (b, kb) in cells:
                        if b < t:
                            continue
                        env = {fields["left"]: l, fields["right"]: r, fields["top"]: t, fields["bottom"]: b, sx: 1.0, sy: 1.0}
                        try:
                            got = bool(Interp(self.db, env).ev(cond))
                        except Unsupported as e:
                            raise AnalysisBroken("cannot evaluate ScalePaths range condition: %s" % e)
                        want = any(k != "inside" for k in (kl, kr, kt, kb))
                        if got != want:
                            return False, "bounds (left %s, right %s, top %s, bottom %s) are %s but must be %s" % (
                                kl, kr, kt, kb, "rejected" if got else "accepted", "rejected" if want else "accepted")
        return True, ""


class _R2Client(Client):
    """Disjunctive state: a set of (error-state, touched) pairs, one per group of paths.  error-state: 'clean' (error code known zero
    or already acted upon) / 'dirty' (may hold an unreported error) / 'tested' (known to hold one: the branch must produce the empty
    result).  touched: the locals this group of paths has referenced so far - a default-constructed result that the error path never
    touched is still empty when it is returned, whatever the other paths did to it."""

    MAXSET = 48

    def __init__(self, eng, func, ecid):
        self.eng, self.func, self.ecid = eng, func, ecid
        self.bad = []
        self.setters = []
        self.tracked = False
        self.swallows = False
        self.read_elsewhere = False
        self.ret_exprs = {id(kids(r)[0]) for r in walk(func.body) if r.get("kind") == "ReturnStmt" and kids(r)}

    # -- set level ---------------------------------------------------------------------------------
    @staticmethod
    def lift(st):
        return st if isinstance(st, frozenset) else frozenset([(st, frozenset())])

    def join(self, a, b):
        r = self.lift(a) | self.lift(b)
        if len(r) > self.MAXSET:
            worst = "dirty" if any(x[0] == "dirty" for x in r) else ("tested" if any(x[0] == "tested" for x in r) else "clean")
            t = frozenset().union(*[x[1] for x in r])
            r = frozenset([(worst, t)])
        return r

    def stmt(self, node, st):
        return frozenset(self._stmt1(node, x) for x in self.lift(st))

    def cond_atom(self, e, st):
        T, F = set(), set()
        for x in self.lift(st):
            t, f = self._atom1(e, x)
            if t is not None:
                T.add(t)
            if f is not None:
                F.add(f)
        # an infeasible side keeps the walker going with the incoming facts (never happens for both sides at once)
        return (frozenset(T) if T else self.lift(st)), (frozenset(F) if F else self.lift(st))

    def on_return(self, node, st):
        for x in self.lift(st):
            self._ret1(node, x)

    def on_exit(self, st):
        # a function that ends while its local error code may hold an error nobody looked at has swallowed it
        if any(x[0] == "dirty" for x in self.lift(st)) and not self.read_elsewhere:
            self.swallows = True

    # -- one group of paths --------------------------------------------------------------------------
    def _touch(self, node, touched):
        ids = {x.get("referencedDecl", {}).get("id") for x in walk(node)
               if x.get("kind") == "DeclRefExpr" and x.get("referencedDecl", {}).get("kind") == "VarDecl"}
        ids.discard(None)
        # output parameters emptied on this path: X.Clear() / X.clear() / X.resize(0)
        for x in walk(node):
            if x.get("kind") == "CXXMemberCallExpr" and self.eng.db.callee(x)[0] in ("Clear", "clear"):
                mb = self.eng.db.member_base(x)
                m0 = strip(mb) if mb is not None else {}
                if m0.get("kind") == "DeclRefExpr" and m0.get("referencedDecl", {}).get("kind") == "ParmVarDecl":
                    ids.add("cleared:%s" % m0["referencedDecl"].get("id"))
        return touched | ids if ids else touched

    def _stmt1(self, node, x):
        st, touched = x
        db = self.eng.db
        if id(node) not in self.ret_exprs:
            touched = self._touch(node, touched)
        refs = _refs(node, self.ecid)
        if not refs:
            return (st, touched)
        par = _parent_map(node)
        for r in refs:
            p = par.get(id(r))
            while p is not None and p.get("kind") in CAST_TRANSPARENT:
                p = par.get(id(p))
            if p is not None and _is_call(p):
                idx = None
                for i, a in enumerate(db.call_args(p)):
                    if strip(a) is r:
                        idx = i
                if idx is not None and self.eng._may_set_error(p, idx):
                    self.tracked = True
                    self.setters.append("%s (%s)" % (db.callee(p)[0], where(p)))
                    st = "dirty"
                    continue
            if p is None or not (p.get("kind") in ("BinaryOperator", "CompoundAssignOperator") and p.get("opcode", "").endswith("=")
                                 and p.get("opcode") not in ("==", "!=", "<=", ">=") and strip(kids(p)[0]) is r):
                self.read_elsewhere = True       # handed on, copied, returned ... (not an error-setting call, not a plain store)
        return (st, touched)

    def _atom1(self, e, x):
        st, touched = x
        e0 = strip(e)
        if e0.get("kind") == "DeclRefExpr" and e0.get("referencedDecl", {}).get("id") == self.ecid:
            # true: error present (branch must return empty); false: no error.  With the code known to be zero the true side is dead.
            return (None if st == "clean" and False else (("tested" if st == "dirty" else st), touched)), ("clean", touched)
        if e0.get("kind") == "BinaryOperator" and e0.get("opcode") in ("!=", "==") and _refs(e0, self.ecid):
            a, b = [strip(y) for y in kids(e0)]
            if canon(a) == "0" or canon(b) == "0":
                t = ("tested" if st == "dirty" else st, touched)
                c = ("clean", touched)
                return (t, c) if e0.get("opcode") == "!=" else (c, t)
        s = self._stmt1(e, x)
        return s, s

    def _ret1(self, node, x):
        st, touched = x
        if st not in ("dirty", "tested"):
            return
        ks = kids(node)
        if not ks:
            if st == "dirty" and not self.read_elsewhere:
                self.swallows = True
            # a function that reports through an output parameter returns the *empty* result on the error path: the parameter has
            # been emptied on every path that reaches this return with the error known
            if st == "tested":
                for p0 in self.func.params:
                    t = qt(p0) or ""
                    if t.endswith("&") and not t.startswith("const") and re.search(r'(PolyTree|PolyPath|Paths|Path)(64|D)?\b', t):
                        if ("cleared:%s" % p0.get("id")) not in touched and not any(b[0] is node for b in self.bad):
                            self.bad.append((node, "`return` leaving the output parameter '%s' as the caller passed it in (not emptied on this path)" % p0.get("name")))
            return
        rv = strip(ks[0])
        while rv.get("kind") == "CXXConstructExpr" and len(kids(rv)) == 1 and dqt(strip(kids(rv)[0])).replace("const ", "") == dqt(rv):
            rv = strip(kids(rv)[0])   # copy / move construction of the returned object
        # an empty temporary is the documented error result
        if rv.get("kind") in ("CXXTemporaryObjectExpr", "CXXConstructExpr") and not kids(rv):
            return
        if rv.get("kind") == "CXXScalarValueInitExpr":
            return
        if rv.get("kind") == "DeclRefExpr":
            decl = self.eng.db.by_id.get(rv.get("referencedDecl", {}).get("id"))
            if decl is not None and decl.get("kind") == "VarDecl":
                # a default-constructed local that nothing has touched on these paths is empty
                inits = [c for c in kids(decl) if c.get("kind")]
                default_init = all(c.get("kind") in ("CXXConstructExpr",) and not kids(c) for c in inits)
                if default_init and decl["id"] not in touched:
                    return
        if not any(b[0] is node for b in self.bad):
            self.bad.append((node, "`return %s`" % canon(rv)[:60]))
