"""E14 - polynomial identities of the numeric kernels.

The straight-line arithmetic of the geometric kernels is normalised (vlib/poly.py) to quotients of polynomials in the coordinates of the
point parameters; each rule is an *identity between normal forms*:

POLY.intersect  GetSegmentIntersectPt (both precision variants, integer and floating instantiations): the point stored into the
                out-parameter lies on the line through the first segment and on the line through the second one (both cross products
                vanish identically), and the quantity whose vanishing reports "parallel" is the cross product of the two directions.
POLY.cross      CrossProductSign / IsCollinear / ProductsAreEqual: the two products that are compared differ by exactly the cross product
                (pt2-pt1) x (pt3-pt2); on the portable path the magnitudes are |a||b|, |c||d| and the signs sign(a)sign(b), sign(c)sign(d)
                of the same factors; the tail of the 128-bit path returns sign(ab - cd) / (ab == cd) on every ordering.
POLY.measure    CrossProduct, DotProduct, DistanceSqr, PerpendicDistFromLineSqrd, GetClosestPointOnSegment, MidPoint satisfy their
                defining equations.

What is decided is the real-number formula; floating-point rounding, overflow and the clamping branches are not.
"""
import re
from fractions import Fraction

from ..astq import walk, kids, strip, qt, dqt, where, canon, if_parts
from ..extract import AnalysisBroken
from ..poly import Poly, Rat, PolyEval, Unsupported, _skip
from ..evalx import Interp, SymVal, _Return
from ..evalx import Unsupported as IUnsupported


def V(name):
    return Rat.var(name)


def cross3(p1, p2, p3):
    """(p2 - p1) x (p3 - p2)"""
    return (V(p2 + ".x") - V(p1 + ".x")) * (V(p3 + ".y") - V(p2 + ".y")) - (V(p2 + ".y") - V(p1 + ".y")) * (V(p3 + ".x") - V(p2 + ".x"))


def _insts(db, name, nparams=None):
    out = [f for f in db.find(name) if not f.is_pattern and f.body is not None and (nparams is None or len(f.params) == nparams)]
    return out


def _pname(f, i):
    return f.params[i].get("name")


def _short(r, n=110):
    s = repr(r)
    return s if len(s) <= n else s[:n] + "..."


# ---------------------------------------------------------------------------

def rule_intersect(db, chk, cfg, rule="POLY.intersect"):
    n = 0
    fs = _insts(db, "GetSegmentIntersectPt", 5)
    if not fs:
        raise AnalysisBroken("POLY.intersect: no instantiation of GetSegmentIntersectPt in configuration %s" % cfg)
    for f in fs:
        a1, b1, a2, b2, ip = [_pname(f, i) for i in range(5)]
        ipid = f.params[4].get("id")
        pe = PolyEval(db)
        stores = []

        def on_store(ev, l, r, s):
            l0 = _skip(l)
            if l0.get("kind") == "MemberExpr" and l0.get("name") in ("x", "y") and kids(l0):
                b = _skip(kids(l0)[0])
                if b.get("kind") == "DeclRefExpr" and b.get("referencedDecl", {}).get("id") == ipid:
                    try:
                        stores.append((l0.get("name"), ev.ev(r), s))
                    except Unsupported as e:
                        stores.append((l0.get("name"), None, s, str(e)))
        pe.on_store = on_store
        pe.bind_block(f.body)
        xs = [s for s in stores if s[0] == "x"]
        ys = [s for s in stores if s[0] == "y"]
        if not xs or len(xs) != len(ys):
            raise AnalysisBroken("POLY.intersect: cannot pair the stores to %s.x / %s.y in %s" % (ip, ip, f.sig[:60]))
        for sx, sy in zip(xs, ys):
            n += 1
            if sx[1] is None or sy[1] is None:
                raise AnalysisBroken("POLY.intersect: a store to %s in %s is not arithmetic: %s" % (ip, f.sig[:50], (sx + sy)[-1]))
            X, Y = sx[1], sy[1]
            probs = []
            for (a, b, which) in ((a1, b1, "first"), (a2, b2, "second")):
                # (b - a) x (P - a) == 0
                c = (V(b + ".x") - V(a + ".x")) * (Y - V(a + ".y")) - (V(b + ".y") - V(a + ".y")) * (X - V(a + ".x"))
                if not c.is_zero():
                    probs.append("the stored point is not on the line through the %s segment (%s, %s): (b-a)x(P-a) = %s" % (which, a, b, _short(c)))
            ok = not probs
            chk.instance(rule, {"function": "GetSegmentIntersectPt", "sig": f.sig[:46], "store": where(sx[2]), "obligation": "P on both lines",
                                "rounded": pe.rounded, "cfg": cfg}, ok=ok)
            if not ok:
                chk.violation(rule, f.qual, "%s|%s|point" % (f.sig[:40], "int" if "long" in f.sig else "fp"),
                              "GetSegmentIntersectPt [%s]: %s - as a real-number formula the result must be the crossing point of the two lines"
                              % (f.sig[:46], "; ".join(probs)), where(sx[2]), cfg=cfg)
        # parallel test: the function answers false exactly when D == 0, D the cross product of the two directions.  Accepted shapes:
        # `if (D == 0) return false;`, `if (!D) return false;`, `if (D != 0) { ... return true; } return false;` (operands in either order)
        found = False
        want = (V(b1 + ".x") - V(a1 + ".x")) * (V(b2 + ".y") - V(a2 + ".y")) - (V(b1 + ".y") - V(a1 + ".y")) * (V(b2 + ".x") - V(a2 + ".x"))

        def zero_test(c0):
            """(expression tested, True if the condition means `== 0`) or None"""
            c0 = _skip(c0)
            if c0.get("kind") == "BinaryOperator" and c0.get("opcode") in ("==", "!="):
                l, r = _skip(kids(c0)[0]), _skip(kids(c0)[1])
                for x_, y_ in ((l, r), (r, l)):
                    if y_.get("kind") in ("IntegerLiteral", "FloatingLiteral") and float(y_.get("value")) == 0.0:
                        return x_, c0.get("opcode") == "=="
            if c0.get("kind") == "UnaryOperator" and c0.get("opcode") == "!":
                return _skip(kids(c0)[0]), True
            return None
        false_returns = [r for r in walk(f.body) if r.get("kind") == "ReturnStmt" and kids(r) and canon(kids(r)[0]) == "false"]
        for x in walk(f.body):
            if x.get("kind") != "IfStmt":
                continue
            cond, then, els = if_parts(x)
            zt = zero_test(cond)
            if zt is None:
                continue
            tested, is_eq = zt
            br = then if is_eq else els
            if is_eq:
                governs = br is not None and any(r0.get("kind") == "ReturnStmt" and kids(r0) and canon(kids(r0)[0]) == "false" for r0 in walk(br))
            else:
                # `if (D != 0) {...}` followed (or else'd) by return false
                governs = (br is not None and any(r0.get("kind") == "ReturnStmt" and kids(r0) and canon(kids(r0)[0]) == "false" for r0 in walk(br))) or \
                    (br is None and any(r0.get("kind") == "ReturnStmt" and kids(r0) and canon(kids(r0)[0]) == "true" for r0 in walk(then)) and bool(false_returns))
            if not governs:
                continue
            try:
                d = pe.ev(tested)
            except Unsupported:
                continue
            if not isinstance(d, Rat) or d.tag or not d.vars():
                continue
            found = True
            n += 1
            ok = (d - want).is_zero() or (d + want).is_zero()
            chk.instance(rule, {"function": "GetSegmentIntersectPt", "sig": f.sig[:46], "obligation": "parallel iff direction cross product is 0", "cfg": cfg}, ok=ok)
            if not ok:
                chk.violation(rule, f.qual, "%s|parallel" % f.sig[:40],
                              "GetSegmentIntersectPt [%s] reports 'parallel' when %s vanishes, which is not the cross product of the two directions"
                              % (f.sig[:46], _short(d)), where(x), cfg=cfg)
            break
        if not found:
            n += 1
            chk.instance(rule, {"function": "GetSegmentIntersectPt", "sig": f.sig[:46], "obligation": "parallel iff direction cross product is 0", "cfg": cfg}, ok=False)
            chk.violation(rule, f.qual, "%s|parallel" % f.sig[:40],
                          "GetSegmentIntersectPt [%s] has no exact test `<cross product of the directions> == 0 -> return false`%s: parallelism is no longer "
                          "reported exactly (a tolerance makes nearly parallel segments 'parallel', no test at all divides by zero)"
                          % (f.sig[:46], " (it returns false at %s under another condition)" % where(false_returns[0]) if false_returns else ""), f.where, cfg=cfg)
    return n


# ---------------------------------------------------------------------------

def _wide(t):
    return "__int128" in (t or "")


def _tail_table(db, chk, cfg, rule, f, names, expect, what):
    """Interpret the non-declaration statements of f with the two wide locals bound to every ordering."""
    tail = [s for s in kids(f.body) if s.get("kind") != "DeclStmt"]
    bad = []
    for u, v in ((0, 0), (0, 1), (1, 0), (-1, 0), (0, -1), (-1, 1), (1, -1), (1, 1), (-1, -1), (1, 2), (2, 1), (-2, -1), (-1, -2)):
        log = []
        env = {names[0]: SymVal(u, names[0], log, group="wide"), names[1]: SymVal(v, names[1], log, group="wide")}
        it = Interp(db, env, log)
        got = None
        try:
            for s in tail:
                it.exec(s)
        except _Return as r:
            got = r.v
        except IUnsupported as e:
            raise AnalysisBroken("%s: cannot interpret the comparison tail of %s: %s" % (rule, f.qual, e))
        got = got.v if isinstance(got, SymVal) else got
        want = expect(u, v)
        ok = (got == want)
        chk.instance(rule, None, ok=ok)
        if not ok:
            bad.append((u, v, got, want))
    for b in bad[:1]:
        chk.violation(rule, f.qual, "tail|%s" % f.sig[:30], "%s: with the two products ordered as %d vs %d the function returns %s where %s is %s (%d ordering(s) differ)"
                      % (f.qual, b[0], b[1], b[2], what, b[3], len(bad)), f.where, cfg=cfg)
    return 13


def rule_cross(db, chk, cfg, rule="POLY.cross"):
    n = 0
    port = "port" in cfg.split("+")

    def products(f):
        """(P_ab, P_cd, names) for the two compared products of f."""
        pe = PolyEval(db)
        pe.bind_block(f.body)
        decls = [d for s in kids(f.body) if s.get("kind") == "DeclStmt" for d in kids(s) if d.get("kind") == "VarDecl"]
        if not port:
            wide = [d for d in decls if _wide(dqt(d)) or _wide(qt(d))]
            if len(wide) != 2:
                raise AnalysisBroken("POLY.cross: expected two 128-bit products in %s, found %d" % (f.qual, len(wide)))
            vals = [pe.env.get(d["id"]) for d in wide]
            if any(v is None or v.tag for v in vals):
                raise AnalysisBroken("POLY.cross: the 128-bit products of %s are not arithmetic" % f.qual)
            return vals[0], vals[1], [d["name"] for d in wide], []
        mags = [(d, pe.env.get(d["id"])) for d in decls if pe.env.get(d["id"]) is not None and pe.env[d["id"]].tag == "mag"]
        sgns = [(d, pe.env.get(d["id"])) for d in decls if pe.env.get(d["id"]) is not None and pe.env[d["id"]].tag == "sgn"]
        if len(mags) != 2 or len(sgns) != 2:
            raise AnalysisBroken("POLY.cross: portable path of %s: expected two magnitudes (Multiply of abs values) and two signs (products of TriSign), "
                                 "found %d and %d" % (f.qual, len(mags), len(sgns)))
        probs = []
        for (dm, m), (ds, sg) in zip(mags, sgns):
            if not Rat(m.n, m.d).same(Rat(sg.n, sg.d)):
                probs.append("`%s` is the magnitude of %s but `%s` the sign of %s" % (dm["name"], _short(Rat(m.n, m.d), 60), ds["name"], _short(Rat(sg.n, sg.d), 60)))
        return Rat(mags[0][1].n, mags[0][1].d), Rat(mags[1][1].n, mags[1][1].d), [mags[0][0]["name"], mags[1][0]["name"]], probs

    # CrossProductSign
    for f in _insts(db, "CrossProductSign", 3):
        p1, p2, p3 = [_pname(f, i) for i in range(3)]
        ab, cd, names, probs = products(f)
        d = ab - cd
        want = cross3(p1, p2, p3)
        n += 1
        sgn = 1 if (d - want).is_zero() else (-1 if (d + want).is_zero() else 0)
        ok = sgn == 1 and not probs
        chk.instance(rule, {"function": f.qual, "sig": f.sig[:50], "obligation": "ab - cd == (pt2-pt1)x(pt3-pt2)", "cfg": cfg}, ok=ok)
        if not ok:
            chk.violation(rule, f.qual, "head|%s" % f.sig[:30],
                          "CrossProductSign compares %s with %s: their difference %s is not the cross product (pt2-pt1)x(pt3-pt2)%s"
                          % (_short(ab, 60), _short(cd, 60), _short(d, 80), ("; " + "; ".join(probs)) if probs else ""), f.where, cfg=cfg)
        if not port:
            n += _tail_table(db, chk, cfg, rule, f, names, lambda u, v: (u > v) - (u < v), "sign(ab - cd)")
    # ProductsAreEqual
    for f in _insts(db, "ProductsAreEqual", 4):
        a, b, c, d_ = [_pname(f, i) for i in range(4)]
        ab, cd, names, probs = products(f)
        d = ab - cd
        want = V(a) * V(b) - V(c) * V(d_)
        n += 1
        ok = ((d - want).is_zero() or (d + want).is_zero()) and not probs
        chk.instance(rule, {"function": f.qual, "obligation": "compares a*b with c*d", "cfg": cfg}, ok=ok)
        if not ok:
            chk.violation(rule, f.qual, "head", "ProductsAreEqual compares %s with %s, not a*b with c*d%s" % (_short(ab, 60), _short(cd, 60), ("; " + "; ".join(probs)) if probs else ""),
                          f.where, cfg=cfg)
        if not port:
            n += _tail_table(db, chk, cfg, rule, f, names, lambda u, v: u == v, "(ab == cd)")
    # IsCollinear: ProductsAreEqual(A, B, C, D) with A*B - C*D == +-(sharedPt-pt1)x(pt2-sharedPt)
    for f in _insts(db, "IsCollinear", 3):
        p1, p2, p3 = [_pname(f, i) for i in range(3)]
        pe = PolyEval(db)
        pe.bind_block(f.body)
        calls = [c for c in walk(f.body) if c.get("kind") == "CallExpr" and db.callee(c)[0] == "ProductsAreEqual"]
        rets = [r for r in walk(f.body) if r.get("kind") == "ReturnStmt"]
        if len(calls) != 1 or len(rets) != 1 or strip(kids(rets[0])[0]) is not calls[0]:
            # shortcuts in front of (or instead of) the product test: the function is interpreted on the grid {0,1,2}^6 of its six
            # coordinates (every zero / sign pattern of the four differences occurs) with ProductsAreEqual answered exactly; any
            # disagreement with "cross product == 0" is a concrete wrong answer
            from ..evalx import Interp as _I, Unsupported as _U, _Return as _R
            import itertools as _it
            wrong = None
            cnt = 0
            for v in _it.product((0, 1, 2), repeat=6):
                env = {p1 + ".x": v[0], p1 + ".y": v[1], p2 + ".x": v[2], p2 + ".y": v[3], p3 + ".x": v[4], p3 + ".y": v[5]}

                def hook(name, argv, nd):
                    if name == "ProductsAreEqual" and argv is not None and len(argv) >= 4:
                        return argv[0] * argv[1] == argv[2] * argv[3]
                    return NotImplemented
                it = _I(db, env, [], call_hook=hook)
                try:
                    it.exec(f.body)
                    raise AnalysisBroken("POLY.cross: IsCollinear falls off its end")
                except _R as r:
                    got = bool(r.v)
                except _U as e:
                    raise AnalysisBroken("POLY.cross: IsCollinear has shortcuts that cannot be interpreted: %s" % e)
                exact = (v[2] - v[0]) * (v[5] - v[3]) - (v[3] - v[1]) * (v[4] - v[2]) == 0
                cnt += 1
                if got != exact and wrong is None:
                    wrong = (v, got)
            n += 1
            chk.instance(rule, {"function": f.qual, "sig": f.sig[:50], "obligation": "with its shortcuts IsCollinear equals cross == 0 on the 729-point grid", "cfg": cfg}, ok=wrong is None)
            if wrong is not None:
                v, got = wrong
                chk.violation(rule, f.qual, "shortcut|%s" % f.sig[:30], "IsCollinear((%d,%d), (%d,%d), (%d,%d)) answers %s; the cross product of (sharedPt-pt1) and (pt2-sharedPt) is %s zero: a "
                              "shortcut in front of the product test is not equivalent to it" % (v[0], v[1], v[2], v[3], v[4], v[5], got, "not" if got else ""), f.where, cfg=cfg)
            continue
        try:
            A, B, C, D = [pe.ev(x) for x in db.call_args(calls[0])[:4]]
        except Unsupported as e:
            raise AnalysisBroken("POLY.cross: arguments of ProductsAreEqual in IsCollinear are not arithmetic: %s" % e)
        d = A * B - C * D
        want = cross3(p1, p2, p3)
        n += 1
        ok = (d - want).is_zero() or (d + want).is_zero()
        chk.instance(rule, {"function": f.qual, "sig": f.sig[:50], "obligation": "a*b - c*d == +-(shared-pt1)x(pt2-shared)", "cfg": cfg}, ok=ok)
        if not ok:
            chk.violation(rule, f.qual, "head|%s" % f.sig[:30], "IsCollinear tests %s == 0, which is not the cross product of (sharedPt-pt1) and (pt2-sharedPt)" % _short(d, 120),
                          f.where, cfg=cfg)
    if n < 3:
        raise AnalysisBroken("POLY.cross: only %d obligations found in configuration %s" % (n, cfg))
    return n


# ---------------------------------------------------------------------------

def _returned(db, f):
    """Rat (or tuple of Rats for a constructed point) of every arithmetic `return`, after binding the locals in order."""
    pe = PolyEval(db)
    outs = []

    def on_return(ev, v, s):
        v0 = _skip(v)
        while v0.get("kind") in ("CXXConstructExpr", "CXXTemporaryObjectExpr", "InitListExpr") and len([k for k in kids(v0) if isinstance(k, dict) and k.get("kind")]) == 1:
            v0 = _skip([k for k in kids(v0) if isinstance(k, dict) and k.get("kind")][0])
        try:
            if v0.get("kind") in ("CXXConstructExpr", "CXXTemporaryObjectExpr", "InitListExpr"):
                args = [k for k in kids(v0) if isinstance(k, dict) and k.get("kind") and k.get("kind") != "CXXDefaultArgExpr"]
                if len(args) >= 2:
                    outs.append((tuple(ev.ev(a) for a in args[:2]), s))
                return
            outs.append((ev.ev(v0), s))
        except Unsupported:
            pass
    pe.on_return = on_return
    pe.bind_block(f.body)
    return outs, pe


def rule_measure(db, chk, cfg, rule="POLY.measure"):
    n = 0

    def judge(f, got, want, text, node, both_signs=False):
        nonlocal n
        n += 1
        ok = got.same(want) or (both_signs and got.same(-want))
        chk.instance(rule, {"function": f.qual, "sig": f.sig[:60], "equation": text, "cfg": cfg}, ok=ok)
        if not ok:
            chk.violation(rule, f.qual, "%s|%s" % (f.sig[:40], text[:20]), "%s [%s] computes %s; its defining equation is %s" % (f.qual, f.sig[:50], _short(got), text),
                          where(node) if node is not None else f.where, cfg=cfg)

    for f in _insts(db, "CrossProduct", 3):
        outs, _ = _returned(db, f)
        if len(outs) != 1 or isinstance(outs[0][0], tuple):
            raise AnalysisBroken("POLY.measure: CrossProduct(pt1, pt2, pt3) has no single arithmetic return")
        p = [_pname(f, i) for i in range(3)]
        judge(f, outs[0][0], cross3(*p), "(pt2-pt1)x(pt3-pt2), the quantity whose sign CrossProductSign returns", outs[0][1])
    for f in _insts(db, "DotProduct", 3):
        outs, _ = _returned(db, f)
        if len(outs) != 1 or isinstance(outs[0][0], tuple):
            raise AnalysisBroken("POLY.measure: DotProduct(pt1, pt2, pt3) has no single arithmetic return")
        p1, p2, p3 = [_pname(f, i) for i in range(3)]
        want = (V(p2 + ".x") - V(p1 + ".x")) * (V(p3 + ".x") - V(p2 + ".x")) + (V(p2 + ".y") - V(p1 + ".y")) * (V(p3 + ".y") - V(p2 + ".y"))
        judge(f, outs[0][0], want, "(pt2-pt1).(pt3-pt2)", outs[0][1])
    for f in _insts(db, "DotProduct", 2):
        outs, _ = _returned(db, f)
        if len(outs) != 1 or isinstance(outs[0][0], tuple):
            continue
        a, b = _pname(f, 0), _pname(f, 1)
        judge(f, outs[0][0], V(a + ".x") * V(b + ".x") + V(a + ".y") * V(b + ".y"), "vec1.vec2", outs[0][1])
    for f in _insts(db, "DistanceSqr", 2):
        outs, _ = _returned(db, f)
        if len(outs) != 1 or isinstance(outs[0][0], tuple):
            raise AnalysisBroken("POLY.measure: DistanceSqr has no single arithmetic return")
        a, b = _pname(f, 0), _pname(f, 1)
        dx, dy = V(a + ".x") - V(b + ".x"), V(a + ".y") - V(b + ".y")
        judge(f, outs[0][0], dx * dx + dy * dy, "|pt1-pt2|^2", outs[0][1])
    for f in _insts(db, "PerpendicDistFromLineSqrd", 3):
        outs, _ = _returned(db, f)
        outs = [o for o in outs if not isinstance(o[0], tuple) and not o[0].is_zero()]
        if len(outs) != 1:
            raise AnalysisBroken("POLY.measure: PerpendicDistFromLineSqrd has no single non-trivial arithmetic return")
        pt, l1, l2 = [_pname(f, i) for i in range(3)]
        cx = (V(l2 + ".x") - V(l1 + ".x")) * (V(pt + ".y") - V(l1 + ".y")) - (V(l2 + ".y") - V(l1 + ".y")) * (V(pt + ".x") - V(l1 + ".x"))
        ex, ey = V(l2 + ".x") - V(l1 + ".x"), V(l2 + ".y") - V(l1 + ".y")
        judge(f, outs[0][0], (cx * cx) / (ex * ex + ey * ey), "((line2-line1)x(pt-line1))^2 / |line2-line1|^2", outs[0][1])
    for f in _insts(db, "GetClosestPointOnSegment", 3):
        outs, _ = _returned(db, f)
        outs = [o for o in outs if isinstance(o[0], tuple)]
        if not outs:
            raise AnalysisBroken("POLY.measure: GetClosestPointOnSegment returns no constructed point")
        off, s1, s2 = [_pname(f, i) for i in range(3)]
        for (X, Y), node in outs:
            ex, ey = V(s2 + ".x") - V(s1 + ".x"), V(s2 + ".y") - V(s1 + ".y")
            online = ex * (Y - V(s1 + ".y")) - ey * (X - V(s1 + ".x"))
            perp = (X - V(off + ".x")) * ex + (Y - V(off + ".y")) * ey
            # q is re-assigned by the clamp (0 / 1): the binding pass leaves it opaque or clamped; only judge the unclamped formula
            if any("<" in v for v in (X.n.vars() | X.d.vars() | Y.n.vars() | Y.d.vars())):
                continue
            judge(f, online, Rat.const(0), "the returned point lies on the line through seg1 and seg2", node)
            judge(f, perp, Rat.const(0), "(P - offPt) is perpendicular to (seg2 - seg1)", node)
    if n < 6:
        raise AnalysisBroken("POLY.measure: only %d equations found in configuration %s" % (n, cfg))
    return n


# ---------------------------------------------------------------------------
# POLY.topx: the x of an edge at a scanline
# ---------------------------------------------------------------------------

def rule_topx(db, chk, cfg, rule="POLY.topx"):
    """TopX(edge, y) is the x of the line through edge.bot and edge.top at height y: with dx = GetDx(bot, top) = (top.x-bot.x)/(top.y-bot.y)
    (SetDx stores exactly that) the general return value F satisfies (F - bot.x)(top.y - bot.y) == (top.x - bot.x)(y - bot.y); every
    shortcut `if (A == B [|| ...]) return V` agrees with F once A is replaced by B."""
    from ..poly import UFUNCS
    n = 0
    f = db.one("TopX")
    ae, cy = _pname(f, 0), _pname(f, 1)
    pe = PolyEval(db, extended=True)
    rets = []

    def on_return(ev, v, s):
        try:
            rets.append((ev.ev(v), s))
        except Unsupported:
            rets.append((None, s))
    pe.on_return = on_return
    pe.top_returns_only = True
    pe.bind_block(f.body)
    if len(rets) != 1 or rets[0][0] is None:
        raise AnalysisBroken("POLY.topx: TopX has no single arithmetic unconditional return")
    F = rets[0][0]
    g = db.one("GetDx")
    p1, p2 = _pname(g, 0), _pname(g, 1)
    pg = PolyEval(db, extended=True)
    grets = []

    def on_gret(ev, v, s):
        try:
            r = ev.ev(v)
            if r.vars():
                grets.append((r, s))
        except Unsupported:
            pass
    pg.on_return = on_gret
    pg.bind_block(g.body)
    if len(grets) != 1:
        raise AnalysisBroken("POLY.topx: GetDx has %d non-constant arithmetic returns (expected 1)" % len(grets))
    want_dx = (V(p2 + ".x") - V(p1 + ".x")) / (V(p2 + ".y") - V(p1 + ".y"))
    n += 1
    ok = grets[0][0].same(want_dx)
    chk.instance(rule, {"function": "GetDx", "equation": "dx == (pt2.x - pt1.x) / (pt2.y - pt1.y)", "cfg": cfg}, ok=ok)
    if not ok:
        chk.violation(rule, g.qual, "GetDx", "GetDx returns %s, not the inverse slope (pt2.x - pt1.x) / (pt2.y - pt1.y)" % _short(grets[0][0]), where(grets[0][1]), cfg=cfg)
    # SetDx: e.dx = GetDx(e.bot, e.top)
    sd = db.one("SetDx")
    e0 = _pname(sd, 0)
    calls = [c for c in walk(sd.body) if c.get("kind") == "CallExpr" and db.callee(c)[0] == "GetDx"]
    n += 1
    ok = len(calls) == 1 and [canon(a) for a in db.call_args(calls[0])] == ["%s.bot" % e0, "%s.top" % e0] and \
        any(x.get("kind") == "BinaryOperator" and x.get("opcode") == "=" and canon(kids(x)[0]) == "%s.dx" % e0 and strip(kids(x)[1]) is calls[0] for x in walk(sd.body))
    chk.instance(rule, {"function": "SetDx", "equation": "e.dx = GetDx(e.bot, e.top)", "cfg": cfg}, ok=ok)
    if not ok:
        chk.violation(rule, sd.qual, "SetDx", "SetDx no longer stores GetDx(e.bot, e.top) into e.dx (TopX's formula is written for the slope measured from bot to top)",
                      sd.where, cfg=cfg)
    # general formula
    dx = (V(ae + ".top.x") - V(ae + ".bot.x")) / (V(ae + ".top.y") - V(ae + ".bot.y"))
    Fd = F.subst(ae + ".dx", dx)
    lhs = (Fd - V(ae + ".bot.x")) * (V(ae + ".top.y") - V(ae + ".bot.y"))
    rhs = (V(ae + ".top.x") - V(ae + ".bot.x")) * (V(cy) - V(ae + ".bot.y"))
    n += 1
    ok = lhs.same(rhs)
    chk.instance(rule, {"function": "TopX", "equation": "(TopX - bot.x)(top.y - bot.y) == (top.x - bot.x)(y - bot.y)", "rounded": pe.rounded, "cfg": cfg}, ok=ok)
    if not ok:
        chk.violation(rule, f.qual, "general", "TopX's general value %s is not the x of the line through bot and top at the given y (with dx = (top.x-bot.x)/(top.y-bot.y))"
                      % _short(F), where(rets[0][1]), cfg=cfg)
    # shortcuts
    chain = []
    todo = [x for x in kids(f.body) if isinstance(x, dict)]
    while todo:
        x = todo.pop(0)
        if x.get("kind") == "IfStmt":
            chain.append(x)
            e_ = if_parts(x)[2]
            if e_ is not None:
                todo = ([e_] if e_.get("kind") != "CompoundStmt" else list(kids(e_))) + todo
    for s in chain:
        cond, then, els = if_parts(s)
        rs = [y for y in walk(then) if y.get("kind") == "ReturnStmt" and kids(y)]
        if len(rs) != 1:
            continue
        try:
            val = pe.ev(kids(rs[0])[0])
        except Unsupported:
            continue

        def disjuncts(c):
            c0 = _skip(c)
            if c0.get("kind") == "BinaryOperator" and c0.get("opcode") == "||":
                return disjuncts(kids(c0)[0]) + disjuncts(kids(c0)[1])
            return [c0]
        for d in disjuncts(cond):
            if not (d.get("kind") == "BinaryOperator" and d.get("opcode") == "=="):
                raise AnalysisBroken("POLY.topx: shortcut guard `%s` of TopX is not a disjunction of equalities" % canon(d)[:60])
            try:
                a, b = pe.ev(kids(d)[0]), pe.ev(kids(d)[1])
            except Unsupported as e:
                raise AnalysisBroken("POLY.topx: shortcut guard `%s` is not arithmetic: %s" % (canon(d)[:60], e))
            va = [v for v in a.vars()]
            if len(va) != 1 or not a.same(V(va[0])):
                a, b = b, a
                va = [v for v in a.vars()]
            if len(va) != 1 or not a.same(V(va[0])):
                raise AnalysisBroken("POLY.topx: neither side of `%s` is a plain variable" % canon(d)[:60])
            var = va[0]
            # under var == b: the general formula (with the slope substituted, cleared of its denominator) equals the shortcut value
            Fs = Fd.subst(var, b)
            vs = val.subst(var, b)
            n += 1
            ok = False
            try:
                ok = Fs.same(vs)
            except Exception:
                ok = False
            if not ok:
                # vertical edge: top.x == bot.x makes dx == 0 - the substituted slope may have a zero denominator-free form already
                ok = (Fs.n * vs.d - vs.n * Fs.d).is_zero()
            chk.instance(rule, {"function": "TopX", "shortcut": canon(d)[:50], "returns": _short(val, 40), "cfg": cfg}, ok=ok)
            if not ok:
                chk.violation(rule, f.qual, "shortcut|%s" % canon(d)[:40], "TopX returns %s when %s, but its general formula gives %s there"
                              % (_short(val, 40), canon(d)[:50], _short(Fs, 80)), where(rs[0]), cfg=cfg)
    return n


# ---------------------------------------------------------------------------
# POLY.offset: the join formulas of ClipperOffset
# ---------------------------------------------------------------------------

def _emplaced(db, pe_factory, body):
    """[(X, Y, node)] appended to path_out by the straight-line statements of body, in order."""
    out = []
    pe = pe_factory()

    def on_expr(ev, s):
        s0 = _skip(s)
        while s0.get("kind") in ("ExprWithCleanups",) and kids(s0):
            s0 = _skip(kids(s0)[0])
        if s0.get("kind") == "CXXMemberCallExpr" and db.callee(s0)[0] in ("emplace_back", "push_back") and canon(db.member_base(s0)).endswith("path_out"):
            a = [x for x in db.call_args(s0) if x.get("kind") != "CXXDefaultArgExpr"]
            try:
                if len(a) == 1:
                    g = ev._agg_of(a[0])
                    out.append((g.get("x"), g.get("y"), s0))
                elif len(a) >= 2:
                    out.append((ev.ev(a[0]), ev.ev(a[1]), s0))
            except Unsupported as e:
                out.append((None, str(e), s0))
    pe.on_expr = on_expr
    pe.bind_block(body if body.get("kind") in ("CompoundStmt", None) else {"inner": [body]})
    return out, pe


def rule_offset(db, chk, cfg, rule="POLY.offset"):
    """Formulas of the offsetter, as identities of normal forms over path[j], norms[j], norms[k], group_delta_:
    GetUnitNormal is the unit vector (dy, -dx)/|d| (perpendicular, unit length, right-hand side);
    sin_a / cos_a of OffsetPoint are cross(norms[k], norms[j]) and dot(norms[k], norms[j]);
    DoMiter appends path[j] + (norms[k] + norms[j]) * delta / (1 + cos_a);
    DoBevel appends path[j] + delta*norms[k] then path[j] + delta*norms[j] (and path[j] -/+ |delta| norms[j] for a single-vertex cap);
    DoRound starts at path[j] + delta*norms[k] and turns the offset vector by the rotation (step_cos_, step_sin_);
    GetPerpendic(D) is pt + norm * delta."""
    from ..poly import UFUNCS
    n = 0

    def judge(fq, key, ok, text, node, got=None):
        nonlocal n
        n += 1
        chk.instance(rule, {"function": fq, "equation": text, "cfg": cfg}, ok=ok)
        if not ok:
            chk.violation(rule, fq, key, "%s: %s does not hold%s" % (fq, text, (" (found %s)" % got) if got else ""), where(node) if isinstance(node, dict) else node, cfg=cfg)

    P = lambda s: (V(s + ".x"), V(s + ".y"))
    # GetUnitNormal
    f = db.one("GetUnitNormal")
    a, b = _pname(f, 0), _pname(f, 1)
    pe = PolyEval(db, extended=True)
    outs = []

    def on_ret(ev, v, s):
        try:
            outs.append((ev._agg_of(v), s))
        except Unsupported:
            pass
    pe.on_return = on_ret
    pe.top_returns_only = True
    pe.bind_block(f.body)
    if len(outs) != 1:
        raise AnalysisBroken("POLY.offset: GetUnitNormal has no single unconditional point-valued return")
    nx, ny = outs[0][0].get("x"), outs[0][0].get("y")
    dx, dy = V(b + ".x") - V(a + ".x"), V(b + ".y") - V(a + ".y")
    judge("GetUnitNormal", "perp", (nx * dx + ny * dy).is_zero(), "normal . (pt2 - pt1) == 0", outs[0][1], _short(nx * dx + ny * dy, 60))
    roots = [s for s in (nx.vars() | ny.vars()) if s in UFUNCS and UFUNCS[s][0] in ("sqrt", "hypot", "Hypot")]
    okr = False
    if len(roots) == 1:
        nm, args = UFUNCS[roots[0]]
        q = args[0] if nm == "sqrt" else (args[0] * args[0] + args[1] * args[1] if len(args) == 2 else None)
        if q is not None and q.same(dx * dx + dy * dy):
            S = V(roots[0])
            unit = (nx * nx + ny * ny - Rat.const(1)).reduce_square(roots[0], q)
            orient = dx * ny - dy * nx + (dx * dx + dy * dy) / S
            judge("GetUnitNormal", "unit", unit.is_zero(), "|normal|^2 == 1", outs[0][1])
            judge("GetUnitNormal", "side", orient.is_zero(), "(pt2-pt1) x normal == -|pt2-pt1| (the normal points to the right of the edge)", outs[0][1])
            okr = True
    if not okr:
        judge("GetUnitNormal", "root", False, "the normal is (dy, -dx) divided by sqrt(dx^2 + dy^2)", outs[0][1], "%s, %s" % (_short(nx, 50), _short(ny, 50)))
    # GetPerpendic / GetPerpendicD
    for q in ("GetPerpendic", "GetPerpendicD"):
        for g in db.find(q):
            if g.body is None or len(g.params) != 3:
                continue
            pt, nm, dl = [_pname(g, i) for i in range(3)]
            pg = PolyEval(db, extended=True)
            o2 = []
            pg.on_return = lambda ev, v, s, o2=o2: o2.append((ev._agg_of(v), s))
            try:
                pg.bind_block(g.body)
            except Unsupported as e:
                raise AnalysisBroken("POLY.offset: %s is not arithmetic: %s" % (q, e))
            if len(o2) != 1:
                raise AnalysisBroken("POLY.offset: %s has no single point-valued return" % q)
            X, Y = o2[0][0].get("x"), o2[0][0].get("y")
            judge(q, "formula", X.same(V(pt + ".x") + V(nm + ".x") * V(dl)) and Y.same(V(pt + ".y") + V(nm + ".y") * V(dl)), "result == pt + norm * delta", o2[0][1],
                  "%s, %s" % (_short(X, 40), _short(Y, 40)))
    pj, nk, nj, dlt = P("path[j]"), P("norms[k]"), P("norms[j]"), V("group_delta_")
    fac = lambda: PolyEval(db, extended=True)
    # DoMiter
    f = db.one("ClipperOffset::DoMiter")
    em, pe = _emplaced(db, fac, f.body)
    if len(em) != 1 or em[0][0] is None:
        raise AnalysisBroken("POLY.offset: DoMiter does not append exactly one arithmetic point (%s)" % (em[0][1] if em else "none"))
    ca = V(_pname(f, 3))
    for ax in (0, 1):
        want = pj[ax] + (nk[ax] + nj[ax]) * dlt / (ca + Rat.const(1))
        judge(f.qual, "miter.%s" % "xy"[ax], em[0][ax].same(want), "appended %s == path[j] + (norms[k] + norms[j]) * group_delta_ / (1 + cos_a)" % "xy"[ax], em[0][2], _short(em[0][ax], 70))
    # DoBevel: branch on j == k
    f = db.one("ClipperOffset::DoBevel")
    br = [s for s in kids(f.body) if s.get("kind") == "IfStmt"]
    if len(br) != 1:
        raise AnalysisBroken("POLY.offset: DoBevel no longer has a single top-level branch (cap / join)")
    cond, then, els = if_parts(br[0])
    if canon(cond).replace(" ", "") not in ("(j==k)", "j==k", "(k==j)", "k==j"):
        raise AnalysisBroken("POLY.offset: DoBevel's branch is not `j == k`")
    for which, blk in (("cap", then), ("join", els)):
        pe = PolyEval(db, extended=True)
        pe.bind_block({"inner": [s for s in kids(f.body) if s is not br[0] and s.get("kind") == "DeclStmt"]})
        pe.bind_block(blk if blk.get("kind") == "CompoundStmt" else {"inner": [blk]})
        em, _ = _emplaced(db, lambda pe=pe: _clone(pe), {"inner": [s for s in kids(f.body) if s is not br[0] and s.get("kind") != "DeclStmt"]})
        if len(em) != 2 or em[0][0] is None or em[1][0] is None:
            raise AnalysisBroken("POLY.offset: DoBevel (%s) does not append two arithmetic points" % which)
        if which == "join":
            w = [(pj[0] + dlt * nk[0], pj[1] + dlt * nk[1]), (pj[0] + dlt * nj[0], pj[1] + dlt * nj[1])]
            text = "appends path[j] + delta*norms[k], then path[j] + delta*norms[j]"
        else:
            ab = [s for s in (em[0][0].vars() | em[1][0].vars()) if s in UFUNCS and UFUNCS[s][0] in ("abs", "fabs") and UFUNCS[s][1][0].same(dlt)]
            if len(ab) != 1:
                judge(f.qual, "cap.abs", False, "the single-vertex cap uses |group_delta_|", br[0])
                continue
            A = V(ab[0])
            w = [(pj[0] - A * nj[0], pj[1] - A * nj[1]), (pj[0] + A * nj[0], pj[1] + A * nj[1])]
            text = "cap: appends path[j] - |delta| norms[j], then path[j] + |delta| norms[j]"
        ok = all(em[i][ax].same(w[i][ax]) for i in (0, 1) for ax in (0, 1))
        judge(f.qual, "bevel.%s" % which, ok, text, br[0], "%s, %s | %s, %s" % (_short(em[0][0], 40), _short(em[0][1], 40), _short(em[1][0], 40), _short(em[1][1], 40)))
    # DoSquare: the squaring line passes through Q = path[j] + |delta| vec (vec: the unit bisector chosen by the branch on j == k, kept
    # symbolic) and runs perpendicular to vec: the two points handed to GetSegmentIntersectPt as its first segment are Q +- delta perp(vec),
    # and Q is the centre of the reflection that produces the second vertex
    f = db.one("ClipperOffset::DoSquare")
    from ..poly import Agg
    vec_decl = None
    for st in kids(f.body):
        if st.get("kind") == "DeclStmt":
            for d in kids(st):
                init = [c0 for c0 in kids(d) if isinstance(c0, dict) and c0.get("kind")]
                if d.get("kind") == "VarDecl" and "Point<" in (dqt(d) or "") and (not init or all(c0.get("kind") == "CXXConstructExpr" and not kids(c0) for c0 in init)):
                    vec_decl = d
                    break
                # ... or initialised by a conditional expression on j == k (the same choice written as one declaration)
                if d.get("kind") == "VarDecl" and "Point<" in (dqt(d) or "") and init and any(
                        y.get("kind") == "ConditionalOperator" and canon(kids(y)[0]).replace(" ", "").strip("()") in ("j==k", "k==j") for y in walk(init[-1])):
                    vec_decl = d
                    break
        if vec_decl is not None:
            break
    if vec_decl is None:
        raise AnalysisBroken("POLY.offset: the bisector local of DoSquare (a point declared without a value, assigned by the branch on j == k) was not found")
    pe = PolyEval(db, extended=True)
    pe.pinned = {vec_decl["id"]}
    pe.env[vec_decl["id"]] = Agg(base="vec")
    pe.bind_block(f.body)
    absd = [s_ for s_ in UFUNCS if UFUNCS[s_][0] in ("abs", "fabs") and UFUNCS[s_][1][0].same(dlt)]
    vx, vy = V("vec.x"), V("vec.y")
    isects = [c for c in walk(f.body) if c.get("kind") == "CallExpr" and db.callee(c)[0] == "GetSegmentIntersectPt"]
    refl = [c for c in walk(f.body) if c.get("kind") == "CallExpr" and db.callee(c)[0] == "ReflectPoint"]
    if not isects or not refl:
        raise AnalysisBroken("POLY.offset: DoSquare no longer calls GetSegmentIntersectPt / ReflectPoint")
    for c in isects:
        try:
            A0, A1 = pe._agg_of(db.call_args(c)[0]), pe._agg_of(db.call_args(c)[1])
        except Unsupported as e:
            raise AnalysisBroken("POLY.offset: the squaring line of DoSquare is not arithmetic: %s" % e)
        ok = False
        for ab in absd:
            Qx, Qy = pj[0] + V(ab) * vx, pj[1] + V(ab) * vy
            for sg in (1, -1):
                s1 = Rat.const(sg)
                if A0.get("x").same(Qx + s1 * dlt * vy) and A0.get("y").same(Qy - s1 * dlt * vx) and A1.get("x").same(Qx - s1 * dlt * vy) and A1.get("y").same(Qy + s1 * dlt * vx):
                    ok = True
        judge(f.qual, "square.line@%s" % c.get("line"), ok, "the squaring line runs through path[j] + |delta| vec, perpendicular to vec (end points Q +- delta perp(vec))", c,
              "%s, %s" % (_short(A0.get("x"), 50), _short(A0.get("y"), 50)))
    for c in refl:
        try:
            Q = pe._agg_of(db.call_args(c)[1])
        except Unsupported as e:
            raise AnalysisBroken("POLY.offset: the reflection centre of DoSquare is not arithmetic: %s" % e)
        ok = any(Q.get("x").same(pj[0] + V(ab) * vx) and Q.get("y").same(pj[1] + V(ab) * vy) for ab in absd)
        judge(f.qual, "square.centre@%s" % c.get("line"), ok, "the second vertex is the first one reflected in path[j] + |delta| vec", c, "%s, %s" % (_short(Q.get("x"), 50), _short(Q.get("y"), 50)))
    # DoRound: first point and rotation step
    f = db.one("ClipperOffset::DoRound")
    em, pe = _emplaced(db, fac, f.body)
    em = [e for e in em if e[0] is not None]
    if not em:
        raise AnalysisBroken("POLY.offset: DoRound appends no arithmetic point in its straight-line part")
    judge(f.qual, "round.first", em[0][0].same(pj[0] + dlt * nk[0]) and em[0][1].same(pj[1] + dlt * nk[1]), "the arc starts at path[j] + delta*norms[k]", em[0][2],
          "%s, %s" % (_short(em[0][0], 40), _short(em[0][1], 40)))
    loops = [l for l in kids(f.body) if l.get("kind") == "ForStmt"]
    rot = None
    for l in loops:
        for x in walk(kids(l)[-1]):
            if x.get("kind") == "CXXOperatorCallExpr" and db.callee(x)[0] == "operator=" and len(kids(x)) == 3:
                lhs = _skip(kids(x)[1])
                if lhs.get("kind") == "DeclRefExpr" and _skip(kids(x)[2]) is not None:
                    rot = (lhs, kids(x)[2], x)
                    break
        if rot:
            break
    if rot is None:
        raise AnalysisBroken("POLY.offset: the rotation step of DoRound (`offsetVec = PointD(...)` in the loop) was not found")
    from ..poly import Agg
    pr = PolyEval(db, extended=True)
    pr.env[rot[0]["referencedDecl"]["id"]] = Agg(base="v")
    try:
        g = pr._agg_of(rot[1])
    except Unsupported as e:
        raise AnalysisBroken("POLY.offset: rotation step of DoRound is not arithmetic: %s" % e)
    c, s_ = V("step_cos_"), V("step_sin_")
    vx, vy = V("v.x"), V("v.y")
    judge(f.qual, "round.step", g.get("x").same(vx * c - s_ * vy) and g.get("y").same(vx * s_ + vy * c), "each step turns the offset vector by the rotation "
          "(step_cos_, step_sin_): v' = (v.x c - v.y s, v.x s + v.y c)", rot[2], "%s, %s" % (_short(g.get("x"), 40), _short(g.get("y"), 40)))
    # OffsetPoint: the cosine handed to DoMiter and the angle handed to DoRound (whatever the locals are called, inlined or not)
    f = db.one("ClipperOffset::OffsetPoint")
    pe = PolyEval(db, extended=True)
    pe.bind_block(f.body)
    want_sin = nk[0] * nj[1] - nk[1] * nj[0]
    want_cos = nk[0] * nj[0] + nk[1] * nj[1]
    seen = 0
    for c in walk(f.body):
        if c.get("kind") not in ("CXXMemberCallExpr", "CallExpr"):
            continue
        nm = db.callee(c)[0]
        a = db.call_args(c)
        if nm == "DoMiter" and len(a) >= 4:
            seen += 1
            try:
                v = pe.ev(a[3])
            except Unsupported as e:
                raise AnalysisBroken("POLY.offset: the cosine handed to DoMiter is not arithmetic: %s" % e)
            judge(f.qual, "cos@%s" % c.get("line"), v.same(want_cos), "the cosine handed to DoMiter == norms[k] . norms[j]", c, _short(v, 70))
        if nm == "DoRound" and len(a) >= 4:
            seen += 1
            try:
                v = pe.ev(a[3])
            except Unsupported as e:
                raise AnalysisBroken("POLY.offset: the angle handed to DoRound is not arithmetic: %s" % e)
            ok = False
            syms = [x for x in v.vars() if x in UFUNCS and UFUNCS[x][0] == "atan2"]
            if len(syms) == 1 and v.same(V(syms[0])):
                sa, ca = UFUNCS[syms[0]][1]
                ok = sa.same(want_sin) and ca.same(want_cos)
            judge(f.qual, "angle@%s" % c.get("line"), ok, "the angle handed to DoRound == atan2(norms[k] x norms[j], norms[k] . norms[j]) (positive for a left turn)", c, _short(v, 90))
    if seen < 2:
        raise AnalysisBroken("POLY.offset: OffsetPoint hands no cosine to DoMiter / angle to DoRound (%d sites)" % seen)
    return n


def _clone(pe):
    q = PolyEval(pe.db, dict(pe.env), extended=pe.extended)
    return q


# ---------------------------------------------------------------------------
# POLY.utilities: Ellipse, TranslatePath (C20)
# ---------------------------------------------------------------------------

def rule_utilities(db, chk, cfg, rule="POLY.utilities"):
    """Ellipse(center, rx, ry, steps): the first vertex is center + (rx, 0); inside the loop the vertex appended is
    center + (rx*dx, ry*dy) and (dx, dy) is then turned by the rotation (co, si) - the new dy is computed from the *old* dx;
    (dx, dy) starts as (co, si) = (cos A, sin A) of one and the same angle A.  TranslatePath / TranslatePoint add (dx, dy)."""
    from ..poly import UFUNCS, Agg
    n = 0

    def judge(fq, key, ok, text, node, got=None):
        nonlocal n
        n += 1
        chk.instance(rule, {"function": fq, "equation": text, "cfg": cfg}, ok=ok)
        if not ok:
            chk.violation(rule, fq, key, "%s: %s does not hold%s" % (fq, text, (" (found %s)" % got) if got else ""), where(node) if isinstance(node, dict) else node, cfg=cfg)

    for f in [g for g in db.find("Ellipse") if not g.is_pattern and g.body is not None and len(g.params) == 4]:
        c, rx, ry, steps = [_pname(f, i) for i in range(4)]
        loops = [l for l in kids(f.body) if isinstance(l, dict) and l.get("kind") == "ForStmt"]
        if len(loops) != 1:
            raise AnalysisBroken("POLY.utilities: Ellipse no longer has a single top-level loop")
        pe = PolyEval(db, extended=True)
        firsts = []

        def on_expr(ev, s, firsts=firsts):
            s0 = _skip(s)
            if s0.get("kind") == "CXXMemberCallExpr" and db.callee(s0)[0] in ("emplace_back", "push_back"):
                a = db.call_args(s0)
                try:
                    firsts.append((ev.ev(a[0]), ev.ev(a[1]), s0) if len(a) >= 2 else (ev._agg_of(a[0]).get("x"), ev._agg_of(a[0]).get("y"), s0))
                except Unsupported:
                    firsts.append((None, None, s0))
        pe.on_expr = on_expr
        pe.bind_block(f.body)
        if len(firsts) != 1 or firsts[0][0] is None:
            raise AnalysisBroken("POLY.utilities: Ellipse does not append exactly one arithmetic vertex before its loop")
        judge(f.qual, "first|" + f.sig[:30], firsts[0][0].same(V(c + ".x") + V(rx)) and firsts[0][1].same(V(c + ".y")), "first vertex == center + (radiusX, 0)", firsts[0][2],
              "%s, %s" % (_short(firsts[0][0], 40), _short(firsts[0][1], 40)))
        # the two direction cosines before the loop
        decl = {d.get("name"): d for st in kids(f.body) if st.get("kind") == "DeclStmt" for d in kids(st) if d.get("kind") == "VarDecl"}
        trig = {}
        for d in decl.values():
            v = pe.env.get(d.get("id"))
            if isinstance(v, Rat):
                for sname in v.vars():
                    if sname in UFUNCS and UFUNCS[sname][0] in ("sin", "cos") and v.same(V(sname)):
                        trig.setdefault(UFUNCS[sname][0], []).append((d, sname))
        # loop body with symbolic direction (dx0, dy0)
        body = kids(loops[0])[-1]
        # which locals are the direction?  those assigned in the body and read in the appended vertex
        assigned = [(_skip(kids(x)[0]), x) for x in walk(body) if x.get("kind") == "BinaryOperator" and x.get("opcode") == "=" and _skip(kids(x)[0]).get("kind") == "DeclRefExpr"]
        outer = {a.get("referencedDecl", {}).get("id"): a.get("referencedDecl", {}).get("name") for a, _ in assigned
                 if any(d.get("id") == a.get("referencedDecl", {}).get("id") for d in decl.values())}
        if len(outer) != 2:
            raise AnalysisBroken("POLY.utilities: Ellipse's loop does not update exactly two outer locals (the direction)")
        pb = PolyEval(db, dict(pe.env), extended=True)
        for vid, nm in outer.items():
            pb.env[vid] = V(nm + "0")
        app = []

        def on_expr2(ev, s):
            s0 = _skip(s)
            if s0.get("kind") == "CXXMemberCallExpr" and db.callee(s0)[0] in ("emplace_back", "push_back"):
                a = db.call_args(s0)
                try:
                    app.append((ev.ev(a[0]), ev.ev(a[1]), s0))
                except Unsupported:
                    app.append((None, None, s0))
        pb.on_expr = on_expr2
        pb.bind_block(body if body.get("kind") == "CompoundStmt" else {"inner": [body]})
        if len(app) != 1 or app[0][0] is None:
            raise AnalysisBroken("POLY.utilities: Ellipse's loop does not append exactly one arithmetic vertex")
        # roles: the local multiplying radiusX is the cosine direction, the one multiplying radiusY the sine direction
        names = list(outer.values())
        role = None
        for cx, sy in ((names[0], names[1]), (names[1], names[0])):
            if app[0][0].same(V(c + ".x") + V(rx) * V(cx + "0")) and app[0][1].same(V(c + ".y") + V(ry) * V(sy + "0")):
                role = (cx, sy)
        judge(f.qual, "vertex|" + f.sig[:30], role is not None, "vertex i == center + (radiusX * dx, radiusY * dy)", app[0][2], "%s, %s" % (_short(app[0][0], 40), _short(app[0][1], 40)))
        if role is None:
            continue
        cx, sy = role
        idc = [i for i, nm in outer.items() if nm == cx][0]
        ids = [i for i, nm in outer.items() if nm == sy][0]
        # initial direction and rotation constants: (co, si) with the same angle
        ini_c, ini_s = pe.env.get(idc), pe.env.get(ids)
        okt = False
        co = si = None
        if isinstance(ini_c, Rat) and isinstance(ini_s, Rat):
            for sc in [s_ for s_ in ini_c.vars() if s_ in UFUNCS and UFUNCS[s_][0] == "cos"]:
                for ss in [s_ for s_ in ini_s.vars() if s_ in UFUNCS and UFUNCS[s_][0] == "sin"]:
                    if ini_c.same(V(sc)) and ini_s.same(V(ss)) and UFUNCS[sc][1][0].same(UFUNCS[ss][1][0]):
                        okt, co, si = True, V(sc), V(ss)
        judge(f.qual, "start|" + f.sig[:30], okt, "the direction starts as (cos A, sin A) of one angle A", decl.get(cx, f.node), "%s, %s" % (_short(ini_c, 40), _short(ini_s, 40)))
        if okt:
            nc, ns = pb.env.get(idc), pb.env.get(ids)
            ok = isinstance(nc, Rat) and isinstance(ns, Rat) and nc.same(V(cx + "0") * co - V(sy + "0") * si) and ns.same(V(sy + "0") * co + V(cx + "0") * si)
            judge(f.qual, "turn|" + f.sig[:30], ok, "each step turns the direction by A: dx' = dx cosA - dy sinA, dy' = dy cosA + dx sinA (from the old dx)", loops[0],
                  "%s, %s" % (_short(nc, 50), _short(ns, 50)))
    # TranslatePath: the lambda's returned point
    for f in [g for g in db.find("TranslatePath") if not g.is_pattern and g.body is not None and len(g.params) == 3]:
        lam = [x for x in walk(f.body) if x.get("kind") == "LambdaExpr"]
        if not lam:
            continue                       # forwarding overloads
        meth = [x for x in walk(lam[0]) if x.get("kind") == "CXXMethodDecl" and x.get("name") == "operator()"]
        inst = [m for m in meth if "auto" not in (qt(m) or "")]          # a generic lambda: take the instantiated call operator
        meth = inst or meth
        if not meth:
            raise AnalysisBroken("POLY.utilities: TranslatePath's lambda has no call operator")
        prm = [c0 for c0 in kids(meth[0]) if c0.get("kind") == "ParmVarDecl"]
        lb = [c0 for c0 in kids(meth[0]) if c0.get("kind") == "CompoundStmt"]
        if len(prm) != 1 or not lb:
            raise AnalysisBroken("POLY.utilities: TranslatePath's lambda has an unexpected shape")
        pl = PolyEval(db, extended=True)
        pl.env[prm[0].get("id")] = Agg(base="pt")
        outs = []
        pl.on_return = lambda ev, v, s, outs=outs: outs.append((ev._agg_of(v), s))
        try:
            pl.bind_block(lb[0])
        except Unsupported as e:
            raise AnalysisBroken("POLY.utilities: TranslatePath's lambda is not arithmetic: %s" % e)
        if len(outs) != 1:
            raise AnalysisBroken("POLY.utilities: TranslatePath's lambda has no single point-valued return")
        dxn, dyn = _pname(f, 1), _pname(f, 2)
        X, Y = outs[0][0].get("x"), outs[0][0].get("y")
        judge(f.qual, "translate|" + f.sig[:30], X.same(V("pt.x") + V(dxn)) and Y.same(V("pt.y") + V(dyn)), "each vertex becomes (pt.x + dx, pt.y + dy)", outs[0][1],
              "%s, %s" % (_short(X, 40), _short(Y, 40)))
    if n < 4:
        raise AnalysisBroken("POLY.utilities: only %d equations found in configuration %s" % (n, cfg))
    return n


# ---------------------------------------------------------------------------
# POLY.intersect (second part): the touching cases of RectClip's GetSegmentIntersection
# ---------------------------------------------------------------------------

def rule_segment_cases(db, chk, cfg, rule="POLY.intersect"):
    """GetSegmentIntersection(p1, p2, p3, p4, ip) handles the cases in which an end point of one segment lies on the line of the other:
    under the guard `R == 0` (R a cross product) it stores one of the four end points.  That point must lie on both lines: for each
    of the two lines the cross product (b - a) x (W - a) is identically zero or identically +-R (so it vanishes under the guard).  The
    general case must hand both segments, each with its own two end points, to GetSegmentIntersectPt."""
    n = 0
    fs = [f for f in db.find("GetSegmentIntersection") if not f.is_pattern and f.body is not None and len(f.params) == 5]
    if not fs:
        raise AnalysisBroken("POLY.intersect: GetSegmentIntersection not found")
    for f in fs:
        p = [_pname(f, i) for i in range(4)]
        ipid = f.params[4].get("id")
        pe = PolyEval(db, extended=True)
        pe.bind_block(f.body)

        def line(a, b, w):
            return (V(b + ".x") - V(a + ".x")) * (V(w + ".y") - V(a + ".y")) - (V(b + ".y") - V(a + ".y")) * (V(w + ".x") - V(a + ".x"))
        for x in walk(f.body):
            if x.get("kind") != "IfStmt":
                continue
            cond, then, els = if_parts(x)
            c0 = _skip(cond)
            if not (c0.get("kind") == "BinaryOperator" and c0.get("opcode") == "=="):
                continue
            try:
                R = pe.ev(kids(c0)[0]) - pe.ev(kids(c0)[1])
            except Unsupported:
                continue
            if not isinstance(R, Rat) or not R.vars() or R.tag:
                continue
            # the store to ip directly in this branch (not in nested branches of other guards)
            stores = []
            for s0 in (kids(then) if then.get("kind") == "CompoundStmt" else [then]):
                s1 = s0
                while isinstance(s1, dict) and s1.get("kind") == "ExprWithCleanups" and kids(s1):
                    s1 = kids(s1)[0]
                if isinstance(s1, dict) and s1.get("kind") == "CXXOperatorCallExpr" and db.callee(s1)[0] == "operator=" and len(kids(s1)) == 3:
                    l = _skip(kids(s1)[1])
                    if l.get("kind") == "DeclRefExpr" and l.get("referencedDecl", {}).get("id") == ipid:
                        w = _skip(kids(s1)[2])
                        if w.get("kind") == "DeclRefExpr" and w.get("referencedDecl", {}).get("name") in p:
                            stores.append((w["referencedDecl"]["name"], s1))
            for w, node in stores:
                n += 1
                probs = []
                for a, b in ((p[0], p[1]), (p[2], p[3])):
                    L = line(a, b, w)
                    if not (L.is_zero() or (L - R).is_zero() or (L + R).is_zero()):
                        probs.append("%s is not on the line through %s and %s when %s" % (w, a, b, canon(cond)[:40]))
                ok = not probs
                chk.instance(rule, {"function": f.qual, "guard": canon(cond)[:40], "stores": w, "obligation": "stored end point lies on both lines under the guard", "cfg": cfg}, ok=ok)
                if not ok:
                    chk.violation(rule, f.qual, "touch|%s|%s" % (canon(cond)[:24], w), "GetSegmentIntersection stores %s as the intersection under `%s`: %s"
                                  % (w, canon(cond)[:50], "; ".join(probs)), where(node), cfg=cfg)
        calls = [c for c in walk(f.body) if c.get("kind") == "CallExpr" and db.callee(c)[0] == "GetSegmentIntersectPt"]
        for c in calls:
            a = [canon(z) for z in db.call_args(c)]
            n += 1
            ok = len(a) == 5 and {frozenset(a[0:2]), frozenset(a[2:4])} == {frozenset(p[0:2]), frozenset(p[2:4])} and a[4] == _pname(f, 4)
            chk.instance(rule, {"function": f.qual, "call": canon(c)[:70], "obligation": "general case: both segments with their own end points", "cfg": cfg}, ok=ok)
            if not ok:
                chk.violation(rule, f.qual, "general", "the general case calls `%s`: the two segments handed over are not (%s,%s) and (%s,%s)" % (canon(c)[:70], p[0], p[1], p[2], p[3]),
                              where(c), cfg=cfg)
    if n < 5:
        raise AnalysisBroken("POLY.intersect: only %d touching cases / general calls recognised in GetSegmentIntersection" % n)
    return n


# ---------------------------------------------------------------------------
# POLY.multiply: the 64x64 -> 128 bit product recombines its partial products correctly
# ---------------------------------------------------------------------------

class _BitEval(PolyEval):
    """Normal forms over the integers with the two bit-slicing operations of Multiply: hi_K(x) = x >> K is an uninterpreted symbol of
    x's normal form, lo_K(x) = x & (2^K - 1) is *defined* as x - 2^K hi_K(x); x << K is x 2^K; `(x << K) | lo_J(y)` with J <= K is a sum
    (disjoint bits).  Valid as long as no intermediate wraps - which is what P.multiply-no-wrap decides."""

    def __init__(self, db, lambdas):
        PolyEval.__init__(self, db, extended=True)
        self.lambdas = lambdas

    def _slice(self, kind, K, arg):
        v = self.ev(arg)
        from ..poly import UFUNCS
        sym = "hi%d(%r)" % (K, v)
        UFUNCS[sym] = ("hi", [v])
        h = Rat.var(sym)
        return h if kind == "hi" else v - Rat.const(1 << K) * h

    def _lam(self, e):
        e0 = _skip(e)
        if e0.get("kind") == "CXXOperatorCallExpr" and len(kids(e0)) == 3:
            nm = _skip(kids(e0)[1]).get("referencedDecl", {}).get("name")
            if nm in self.lambdas:
                return self.lambdas[nm] + (kids(e0)[2],)
        if e0.get("kind") == "BinaryOperator" and e0.get("opcode") in (">>", "&"):
            r = _skip(kids(e0)[1])
            if r.get("kind") == "IntegerLiteral":
                c = int(r.get("value"))
                if e0.get("opcode") == ">>":
                    return ("hi", c, kids(e0)[0])
                if c & (c + 1) == 0:
                    return ("lo", c.bit_length(), kids(e0)[0])
        return None

    def ev(self, e):
        e0 = _skip(e)
        sl = self._lam(e0)
        if sl is not None:
            return self._slice(sl[0], sl[1], sl[2])
        if e0.get("kind") == "BinaryOperator" and e0.get("opcode") == "<<":
            r = _skip(kids(e0)[1])
            if r.get("kind") == "IntegerLiteral":
                return self.ev(kids(e0)[0]) * Rat.const(1 << int(r.get("value")))
        if e0.get("kind") == "BinaryOperator" and e0.get("opcode") == "|":
            l, r = _skip(kids(e0)[0]), _skip(kids(e0)[1])
            for x, y in ((l, r), (r, l)):
                sy = self._lam(y)
                if x.get("kind") == "BinaryOperator" and x.get("opcode") == "<<" and _skip(kids(x)[1]).get("kind") == "IntegerLiteral" and \
                        sy is not None and sy[0] == "lo" and sy[1] <= int(_skip(kids(x)[1]).get("value")):
                    return self.ev(x) + self.ev(y)
            raise Unsupported("`|` of operands that are not provably bit-disjoint")
        return PolyEval.ev(self, e0)


def rule_multiply(db, chk, cfg, rule="POLY.multiply"):
    """Multiply(a, b) returns {lo, hi} with hi 2^64 + lo == a b, as an identity over the integers in a, b and the (uninterpreted) upper
    halves of the intermediates - every return of the function, fast paths included."""
    f = db.one("Multiply")
    a, b = _pname(f, 0), _pname(f, 1)
    rec = None
    for r in db.records.values() if hasattr(db, "records") else []:
        pass
    lambdas = {}
    for d in [d for s in walk(f.body) if s.get("kind") == "DeclStmt" for d in kids(s) if d.get("kind") == "VarDecl"]:
        lam = [x for x in walk(d) if x.get("kind") == "LambdaExpr"]
        if not lam:
            continue
        meth = [x for x in walk(lam[0]) if x.get("kind") == "CXXMethodDecl" and x.get("name") == "operator()"]
        if not meth:
            continue
        prm = [c for c in kids(meth[0]) if c.get("kind") == "ParmVarDecl"]
        body = [c for c in kids(meth[0]) if c.get("kind") == "CompoundStmt"]
        rets = [x for x in walk(body[0]) if x.get("kind") == "ReturnStmt"] if body else []
        if len(prm) != 1 or len(rets) != 1:
            continue
        r0 = _skip(kids(rets[0])[0])
        if r0.get("kind") == "BinaryOperator" and _skip(kids(r0)[0]).get("kind") == "DeclRefExpr" and _skip(kids(r0)[1]).get("kind") == "IntegerLiteral":
            c = int(_skip(kids(r0)[1]).get("value"))
            if r0.get("opcode") == ">>":
                lambdas[d.get("name")] = ("hi", c)
            elif r0.get("opcode") == "&" and c & (c + 1) == 0:
                lambdas[d.get("name")] = ("lo", c.bit_length())
    n = 0
    pe = _BitEval(db, lambdas)
    rets = []

    def on_return(ev, v, s):
        v0 = _skip(v)
        while v0.get("kind") in ("CXXConstructExpr", "CXXTemporaryObjectExpr", "CXXFunctionalCastExpr") and len([k for k in kids(v0) if isinstance(k, dict) and k.get("kind")]) == 1:
            v0 = _skip([k for k in kids(v0) if isinstance(k, dict) and k.get("kind")][0])
        args = [k for k in kids(v0) if isinstance(k, dict) and k.get("kind")]
        if v0.get("kind") not in ("InitListExpr", "CXXConstructExpr", "CXXTemporaryObjectExpr") or len(args) != 2:
            rets.append((None, "return value is not a {lo, hi} pair", s))
            return
        try:
            rets.append(((ev.ev(args[0]), ev.ev(args[1])), None, s))
        except Unsupported as e:
            rets.append((None, str(e), s))
    pe.on_return = on_return
    pe.bind_block(f.body)
    if not rets:
        raise AnalysisBroken("POLY.multiply: Multiply has no return")
    # field order of the result type: lo first
    rt = [r for r in (db.find_record("UInt128Struct") if hasattr(db, "find_record") else [])]
    try:
        fields = [fd.get("name") for fd in db.record("UInt128Struct").fields]
    except Exception:
        fields = ["lo", "hi"]
    if fields[:2] not in (["lo", "hi"], ["hi", "lo"]):
        raise AnalysisBroken("POLY.multiply: UInt128Struct is no longer {lo, hi}")
    for val, err, node in rets:
        n += 1
        if val is None:
            raise AnalysisBroken("POLY.multiply: a return of Multiply is not bit-arithmetic this rule can normalise: %s" % err)
        lo, hi = (val[0], val[1]) if fields[0] == "lo" else (val[1], val[0])
        d = hi * Rat.const(1 << 64) + lo - V(a) * V(b)
        ok = d.is_zero()
        chk.instance(rule, {"function": f.qual, "return": where(node), "obligation": "hi * 2^64 + lo == a * b", "cfg": cfg}, ok=ok)
        if not ok:
            chk.violation(rule, f.qual, "recombine@%s" % node.get("line"), "Multiply returns {lo, hi} with hi 2^64 + lo - a b == %s (must vanish identically): the partial products are "
                          "recombined wrongly" % _short(d, 140), where(node), cfg=cfg)
    return n


# ---------------------------------------------------------------------------
# POLY.area: the terms Area accumulates
# ---------------------------------------------------------------------------

def rule_area_terms(db, chk, cfg, rule="POLY.area"):
    """Area(path) accumulates, for consecutive vertices (prev, cur), the trapezoid term (prev.y + cur.y)(prev.x - cur.x) - whose sum over the
    ring is twice the shoelace area, the products x_i y_i telescoping away - and returns half the sum.  Every `a += E` of the function:
    E's normal form over the two vertices it reads is that term (for the pair in the order the iterator arithmetic puts them: after
    `q = p + 1` q follows p, after `p += 2` p follows q, initially the first vertex follows the last); the return is a / 2.  A loop
    written in another style is not judged (reported as such in the evidence), never a violation."""
    n = 0
    for f in [g for g in db.find("Area") if not g.is_pattern and g.body is not None and len(g.params) == 1 and "Paths" not in g.sig and "vector<vector" not in (dqt(g.params[0]) or "")]:
        accs = [x for x in walk(f.body) if x.get("kind") == "CompoundAssignOperator" and x.get("opcode") == "+="]
        if not accs:
            chk.instance(rule, {"function": f.qual, "sig": f.sig[:50], "judged": "no accumulation of the form `a += E` found", "cfg": cfg}, ok=True)
            continue
        # iterator order tracker over the statements of the function in source order
        order = None                       # (prev, cur) names
        decl_txt = " ; ".join(canon(s) for s in kids(f.body) if s.get("kind") == "DeclStmt")
        m_last = re.search(r"(\w+) = \(?\w+\.c?end\(\) - 1\)?", decl_txt)
        seq = []
        for x in walk(f.body):
            if x.get("kind") in ("BinaryOperator", "CompoundAssignOperator", "CXXOperatorCallExpr"):
                t = canon(x)
                m = re.match(r"^\((\w+) = \w+\.c?begin\(\)\)$", t)
                if m and m_last and m.group(1) != m_last.group(1):
                    seq.append(("init", m_last.group(1), m.group(1), x))
                m = re.match(r"^\((\w+) = \((\w+) \+ 1\)\)$", t)
                if m:
                    seq.append(("succ", m.group(2), m.group(1), x))
                m = re.match(r"^\((\w+) \+= 2\)$", t)
                if m:
                    seq.append(("skip", m.group(1), None, x))
            if x.get("kind") == "CompoundAssignOperator" and x.get("opcode") == "+=" and x in accs:
                seq.append(("acc", None, None, x))
        pe = PolyEval(db, extended=True)
        judged = 0
        for kind, p1, p2, node in seq:
            if kind == "init":
                order = (p1, p2)
            elif kind == "succ":
                order = (p1, p2)
            elif kind == "skip":
                order = (order[1], order[0]) if order and order[0] == p1 else None
            elif kind == "acc":
                if canon(kids(node)[1]) in ("2", "1"):
                    continue
                try:
                    E = pe.ev(kids(node)[1])
                except Unsupported:
                    chk.instance(rule, {"function": f.qual, "term": canon(node)[:60], "judged": "not arithmetic over two vertices", "cfg": cfg}, ok=True)
                    continue
                bases = sorted({v.rsplit(".", 1)[0] for v in E.vars() if v.endswith((".x", ".y"))})
                if len(bases) != 2 or any(not v.endswith((".x", ".y")) for v in E.vars()):
                    chk.instance(rule, {"function": f.qual, "term": canon(node)[:60], "judged": "does not read exactly two vertices", "cfg": cfg}, ok=True)
                    continue
                def term(P, Q):
                    return (V(P + ".y") + V(Q + ".y")) * (V(P + ".x") - V(Q + ".x"))
                if order is not None and set(order) == set(bases):
                    want, how = term(order[0], order[1]), "(%s.y + %s.y)(%s.x - %s.x), %s being the vertex before %s" % (order[0], order[1], order[0], order[1], order[0], order[1])
                    ok = E.same(want)
                else:
                    how = "the trapezoid term of its two vertices (order not derived)"
                    ok = E.same(term(bases[0], bases[1])) or E.same(term(bases[1], bases[0]))
                n += 1
                judged += 1
                chk.instance(rule, {"function": f.qual, "sig": f.sig[:50], "term": canon(node)[:70], "cfg": cfg}, ok=ok)
                if not ok:
                    chk.violation(rule, f.qual, "%s|%s" % (f.sig[:30], canon(node)[:30]), "Area accumulates %s; the shoelace sum needs %s" % (_short(E, 80), how), where(node), cfg=cfg)
        # the result is half the accumulated sum
        rets = [r for r in kids(f.body) if r.get("kind") == "ReturnStmt" and kids(r)]
        if rets and judged:
            acc_var = _skip(kids(accs[0])[0])
            pr = PolyEval(db, extended=True)
            if acc_var.get("kind") == "DeclRefExpr":
                pr.env[acc_var["referencedDecl"]["id"]] = V("<sum>")
                try:
                    r = pr.ev(kids(rets[-1])[0])
                    n += 1
                    ok = r.same(V("<sum>") * Rat.const(Fraction(1, 2)))
                    chk.instance(rule, {"function": f.qual, "sig": f.sig[:50], "obligation": "returns half the accumulated sum", "cfg": cfg}, ok=ok)
                    if not ok:
                        chk.violation(rule, f.qual, "%s|half" % f.sig[:30], "Area returns %s of the accumulated trapezoid sum; the shoelace area is half of it" % _short(r, 40), where(rets[-1]), cfg=cfg)
                except Unsupported:
                    pass
    return n


# ---------------------------------------------------------------------------
# AXIS.homogeneous: x quantities are only added to / compared with x quantities (GetSegmentIntersectPt)
# ---------------------------------------------------------------------------

_CASTS = ("ImplicitCastExpr", "ParenExpr", "CStyleCastExpr", "CXXStaticCastExpr", "CXXFunctionalCastExpr", "ExprWithCleanups", "MaterializeTemporaryExpr")


def rule_axis(db, chk, cfg, rule="AXIS.homogeneous", names=("GetSegmentIntersectPt",)):
    """A units check with the two axes as the units: a value read from an `.x` member is an x quantity, one from `.y` a y quantity;
    sums, differences, comparisons, min / max and the two arms of a conditional must not mix them, an assignment to `.x` takes an x
    quantity; products and quotients are free.  In the high-precision intersection the local origin is the middle of the overlap of
    the two bounding boxes, per axis: as a real-number formula the result does not depend on the origin at all (POLY.intersect
    cannot see a wrong one), but an origin taken from the other axis is 2^39 away for a rectangle far out on one axis and the
    doubles lose the low bits of the crossing."""
    n = 0
    for name in names:
        for f in _insts(db, name):
            env = {}
            bad = []

            def ax(e):
                while isinstance(e, dict) and e.get("kind") in _CASTS and kids(e):
                    e = kids(e)[0]
                if not isinstance(e, dict):
                    return None
                k = e.get("kind")
                if k == "MemberExpr":
                    nm = e.get("name")
                    if nm in ("x", "y"):
                        return nm
                    return None
                if k == "DeclRefExpr":
                    return env.get(e.get("referencedDecl", {}).get("id"))
                if k == "BinaryOperator":
                    op = e.get("opcode")
                    a, b = ax(kids(e)[0]), ax(kids(e)[1])
                    if op in ("+", "-", "<", ">", "<=", ">=", "==", "!="):
                        if a in ("x", "y") and b in ("x", "y") and a != b:
                            bad.append((e, "`%s` combines an %s quantity with a %s quantity" % (canon(e)[:70], a, b)))
                        return (a or b) if op in ("+", "-") else None
                    if op == "=":
                        if a in ("x", "y") and b in ("x", "y") and a != b:
                            bad.append((e, "`%s` stores a %s quantity into a %s coordinate" % (canon(e)[:70], b, a)))
                        l = kids(e)[0]
                        while isinstance(l, dict) and l.get("kind") in _CASTS and kids(l):
                            l = kids(l)[0]
                        if l.get("kind") == "DeclRefExpr":
                            env[l.get("referencedDecl", {}).get("id")] = b
                        return a or b
                    if op in (">>", "<<"):
                        return a
                    return None
                if k == "ConditionalOperator":
                    ax(kids(e)[0])
                    a, b = ax(kids(e)[1]), ax(kids(e)[2])
                    if a in ("x", "y") and b in ("x", "y") and a != b:
                        bad.append((e, "the arms of `%s` are an %s and a %s quantity" % (canon(e)[:70], a, b)))
                    return a or b
                if k == "UnaryOperator":
                    return ax(kids(e)[0]) if e.get("opcode") in ("-", "+") else None
                if k in ("CallExpr", "CXXMemberCallExpr"):
                    nm = db.callee(e)[0]
                    args = [ax(a) for a in db.call_args(e)]
                    if nm in ("min", "max") and len(args) == 2:
                        if args[0] in ("x", "y") and args[1] in ("x", "y") and args[0] != args[1]:
                            bad.append((e, "`%s` compares an %s quantity with a %s quantity" % (canon(e)[:70], args[0], args[1])))
                        return args[0] or args[1]
                    return None
                for c in kids(e):
                    ax(c)
                return None

            def stmts(node):
                for s0 in kids(node):
                    if not isinstance(s0, dict):
                        continue
                    k = s0.get("kind")
                    if k == "DeclStmt":
                        for d in kids(s0):
                            if d.get("kind") == "VarDecl":
                                init = [c for c in kids(d) if isinstance(c, dict) and c.get("kind")]
                                env[d.get("id")] = ax(init[-1]) if init else None
                    elif k in ("CompoundStmt", "IfStmt", "WhileStmt", "ForStmt", "DoStmt", "SwitchStmt", "CaseStmt", "DefaultStmt"):
                        if k == "IfStmt":
                            ax(if_parts(s0)[0])
                            for br in if_parts(s0)[1:]:
                                if br is not None:
                                    stmts({"inner": [br]}) if br.get("kind") != "CompoundStmt" else stmts(br)
                        else:
                            stmts(s0)
                    elif k == "ReturnStmt":
                        for c in kids(s0):
                            ax(c)
                    else:
                        ax(s0)
            stmts(f.body)
            n += 1
            chk.instance(rule, {"function": f.qual, "sig": f.sig[:60], "cfg": cfg}, ok=not bad)
            if bad:
                e, why = bad[0]
                chk.violation(rule, f.qual, "%s|%s" % (f.sig[:30], e.get("line")), "%s: %s - the two axes are mixed (as a real-number formula the result may even be unchanged: a local origin "
                              "taken from the other axis only costs precision, thousands of units for coordinates near 2^39)" % (f.qual, why), where(e), cfg=cfg)
    return n


# ---------------------------------------------------------------------------
# ORIGIN.convex: what is subtracted from a coordinate before the conversion to double lies among the coordinates
# ---------------------------------------------------------------------------

def rule_origin_convex(db, chk, cfg, rule="ORIGIN.convex", names=("GetSegmentIntersectPt",)):
    """The intersection routines convert *differences* of int64 coordinates to double, so that only small numbers are rounded.  That
    works when the subtrahend lies among the input coordinates: another coordinate, a min / max / conditional choice of such, or the
    mean of two of them (the high-precision variant's local origin: the middle of the overlap of the two bounding boxes).  A
    subtrahend built any other way - half the *width* of the overlap, say - is algebraically harmless (the origin cancels, so
    POLY.intersect is silent) but can be 2^58 away from the data, and the doubles then carry the error into the crossing."""
    n = 0
    for name in names:
        for f in _insts(db, name):
            par = {}
            for x in walk(f.body):
                for c in kids(x):
                    if isinstance(c, dict):
                        par[id(c)] = x
            env = {}
            pids = {p.get("id") for p in f.params}

            def cls(e):
                while isinstance(e, dict) and e.get("kind") in _CASTS and kids(e):
                    e = kids(e)[0]
                if not isinstance(e, dict):
                    return False
                k = e.get("kind")
                if k == "MemberExpr" and e.get("name") in ("x", "y"):
                    b = kids(e)[0] if kids(e) else {}
                    while isinstance(b, dict) and b.get("kind") in _CASTS and kids(b):
                        b = kids(b)[0]
                    return b.get("kind") == "DeclRefExpr" and b.get("referencedDecl", {}).get("id") in pids
                if k == "DeclRefExpr":
                    return env.get(e.get("referencedDecl", {}).get("id"), False)
                if k == "ConditionalOperator":
                    return cls(kids(e)[1]) and cls(kids(e)[2])
                if k in ("CallExpr",) and db.callee(e)[0] in ("min", "max"):
                    a = db.call_args(e)
                    return len(a) == 2 and cls(a[0]) and cls(a[1])
                if k == "BinaryOperator" and e.get("opcode") in (">>", "/"):
                    l, r = kids(e)
                    rr = r
                    while isinstance(rr, dict) and rr.get("kind") in _CASTS and kids(rr):
                        rr = kids(rr)[0]
                    half = (e["opcode"] == ">>" and rr.get("kind") == "IntegerLiteral" and str(rr.get("value")) == "1") or \
                           (e["opcode"] == "/" and rr.get("kind") in ("IntegerLiteral", "FloatingLiteral") and float(rr.get("value")) == 2.0)
                    ll = l
                    while isinstance(ll, dict) and ll.get("kind") in _CASTS and kids(ll):
                        ll = kids(ll)[0]
                    return bool(half and ll.get("kind") == "BinaryOperator" and ll.get("opcode") == "+" and cls(kids(ll)[0]) and cls(kids(ll)[1]))
                return False
            for x in walk(f.body):
                if x.get("kind") == "VarDecl" and x.get("id") not in pids:
                    init = [c for c in kids(x) if isinstance(c, dict) and c.get("kind")]
                    env[x.get("id")] = cls(init[-1]) if init else False
            sites = bad = 0
            first = None
            for x in walk(f.body):
                if x.get("kind") == "BinaryOperator" and x.get("opcode") == "-":
                    l, r = kids(x)
                    ll = l
                    while isinstance(ll, dict) and ll.get("kind") in _CASTS and kids(ll):
                        ll = kids(ll)[0]
                    if not (ll.get("kind") == "MemberExpr" and ll.get("name") in ("x", "y") and cls(ll)):
                        continue
                    # converted to double?
                    p = par.get(id(x))
                    to_double = False
                    while p is not None and p.get("kind") in _CASTS:
                        if "double" in (qt(p) or ""):
                            to_double = True
                            break
                        p = par.get(id(p))
                    if not to_double:
                        continue
                    sites += 1
                    if not cls(r):
                        bad += 1
                        first = first or x
            n += 1
            chk.instance(rule, {"function": f.qual, "sig": f.sig[:60], "differences_converted_to_double": sites, "cfg": cfg}, ok=not bad)
            if bad:
                chk.violation(rule, f.qual, "%s|%s" % (f.sig[:30], first.get("line")), "%s: `%s` is converted to double, but its subtrahend is not one of the input coordinates, a min / max "
                              "choice or the mean of two of them - it need not lie anywhere near the data, and for far-away coordinates the double loses the crossing's low bits "
                              "(the formula stays algebraically right: the origin cancels)" % (f.qual, canon(first)[:70]), where(first), cfg=cfg)
    return n


# ---------------------------------------------------------------------------
# CLAMP.endpoint: a segment that ends (or starts) exactly on the other one meets it in that end point
# ---------------------------------------------------------------------------

def rule_clamp_endpoint(db, chk, cfg, rule="CLAMP.endpoint"):
    """GetSegmentIntersectPt(a, b, c, d, ip) with the first segment ending exactly on the second (parameter t == 1) or starting on it
    (t == 0): the crossing *is* that end point, whatever branch the function takes for the boundary value of t (a clamp that stores a
    whole point, or the general formula).  Every instantiated variant is executed on exact small-integer scenarios - four directions of
    the first segment, horizontal and vertical second segment, both ends - and must leave ip equal to the end point."""
    from ..evalx import Interp, Unsupported
    fs = [f for f in db.funcs if f.name == "GetSegmentIntersectPt" and not f.is_pattern and f.body is not None and len(f.params) == 5]
    if not fs:
        raise AnalysisBroken("CLAMP.endpoint: GetSegmentIntersectPt not found (%s)" % cfg)
    n = 0
    for f in fs:
        P = [p.get("name") for p in f.params]
        bad = None
        for horizontal in (True, False):
            for far in ((0, 0), (20, 0), (0, 20), (20, 20), (4, 0), (0, 16)):      # the other end of the first segment, off the second one's line
                for touch_is_b in (True, False):
                    touch = (10, 10)
                    c, d = ((0, 10), (40, 10)) if horizontal else ((10, 0), (10, 40))
                    if (horizontal and far[1] == 10) or (not horizontal and far[0] == 10):
                        continue
                    a, b = (far, touch) if touch_is_b else (touch, far)
                    pts = dict(zip(P[:4], (a, b, c, d)))
                    env = {}
                    for k, (x, y) in pts.items():
                        env[k + ".x"], env[k + ".y"] = x, y
                    stored = []
                    def hook(name, argv, nd):
                        if name == "operator=" and nd.get("kind") == "CXXOperatorCallExpr":
                            stored.append(nd)
                            return None
                        return NotImplemented
                    it = Interp(db, env, [], call_hook=hook)
                    try:
                        ret = it.run_function(f)
                    except Unsupported as e:
                        raise AnalysisBroken("CLAMP.endpoint: cannot interpret GetSegmentIntersectPt (%s): %s" % (cfg, e))
                    got = None
                    if stored:
                        rhs = strip(kids(stored[-1])[2]) if len(kids(stored[-1])) == 3 else None
                        nm = rhs.get("referencedDecl", {}).get("name") if rhs is not None and rhs.get("kind") == "DeclRefExpr" else None
                        got = pts.get(nm)
                    elif "%s.x" % P[4] in it.env:
                        got = (it.env["%s.x" % P[4]], it.env["%s.y" % P[4]])
                    n += 1
                    ok = bool(ret) and got is not None and tuple(got) == touch
                    chk.instance(rule, {"variant": f.sig[:40], "first_segment": "%s-%s" % (a, b), "second_segment": "%s-%s" % (c, d), "ip": got, "cfg": cfg}
                                 if (not ok or n % 8 == 1) else None, ok=ok)
                    if not ok and bad is None:
                        bad = (a, b, c, d, got, ret)
        if bad:
            a, b, c, d, got, ret = bad
            chk.violation(rule, f.qual, f.sig[:40], "GetSegmentIntersectPt(%s, %s, %s, %s): the first segment %s exactly on the second one, so the crossing is (10, 10); the "
                          "function returns %s with ip = %s - a point that is not on the first segment" % (a, b, c, d, "ends" if b == (10, 10) else "starts", ret, got), f.where, cfg=cfg)
    return n
