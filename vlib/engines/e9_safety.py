"""E9 - memory-safety clauses that are visible in the shape of the code (C10).

GUARD.nonempty  every first/last-element access on an input container (c[0], c[1], c.front(), c.back(), *c.begin(),
                c.end()-1, c[c.size()-1], c[h] with h = c.size()-1) is dominated by a size fact that makes it valid;
                a site in a private helper becomes a precondition that every call site must establish, up to the public
                entry points where it must be proved outright
ALLOC.noexcept  no allocating operation is reachable from a destructor or a noexcept function (IR call graph over library
                code with std:: calls classified by a frozen model); no catch handler; no nothrow-new
INT64.product   no product is formed in a signed 64-bit integer type (coordinate products overflow far below 2^62)
"""
import re

from ..astq import walk, kids, strip, qt, dqt, where, canon, if_parts, short_file
from ..flow import Walker, Client
from ..evalx import Interp, Unsupported
from ..extract import AnalysisBroken

CONTAINER_T = re.compile(r'(vector<|Path<|Paths<|Path64|PathD|Paths64|PathsD|deque<|basic_string)')
INF = 10 ** 9


def _u(n):
    from .e6_siblings import _u as u
    return u(n)


def _root(e):
    """(root DeclRefExpr node, key string) of a container expression: path, *it, it->, paths[i] ..."""
    e = _u(e)
    k = e.get("kind")
    if k == "DeclRefExpr":
        return e, e.get("referencedDecl", {}).get("name")
    if k == "UnaryOperator" and e.get("opcode") == "*":
        return _root(kids(e)[0])
    if k == "CXXOperatorCallExpr":
        ks = kids(e)
        op = _u(ks[0]).get("referencedDecl", {}).get("name", "")
        if op in ("operator*", "operator->") and len(ks) == 2:
            return _root(ks[1])
    if k == "MemberExpr" and e.get("isArrow") is not None and "<bound member function type>" not in qt(e):
        return None, None
    return None, None


def _size_call(e):
    """If e is X.size() / X->size() return (root node, key)."""
    e = _u(e)
    if e.get("kind") == "CXXMemberCallExpr":
        callee = _u(kids(e)[0])
        if callee.get("name") == "size" and kids(callee):
            return _root(kids(callee)[0])
    return None, None


class _Facts(Client):
    """state: tuple of sorted (key, lo) lower bounds on container sizes."""

    def __init__(self, eng, f):
        self.eng, self.db, self.f = eng, eng.db, f
        self.alias = {}          # var decl id -> (key, offset)   value == size(key) + offset
        self.alias0 = {}         # the same for variables modified later: holds from the declaration until the first modification on the path
        self._st = tuple()
        self.sites = []          # (node, key, need, proved)
        self.calls = []          # (node, callee Func, arg index, key or None, lo)
        self._collect_aliases()

    def _collect_aliases(self):
        assigns = {}
        for x in walk(self.f.body):
            if x.get("kind") == "VarDecl" and "id" in x:
                init = [c for c in kids(x) if c.get("kind")]
                if init:
                    assigns.setdefault(x["id"], []).append(init[-1])
            elif x.get("kind") == "BinaryOperator" and x.get("opcode") == "=":
                l = _u(kids(x)[0])
                if l.get("kind") == "DeclRefExpr":
                    assigns.setdefault(l["referencedDecl"]["id"], []).append(kids(x)[1])
            elif x.get("kind") in ("UnaryOperator",) and x.get("opcode") in ("++", "--"):
                l = _u(kids(x)[0])
                if l.get("kind") == "DeclRefExpr":
                    assigns.setdefault(l["referencedDecl"]["id"], []).append(None)
            elif x.get("kind") == "CompoundAssignOperator":
                l = _u(kids(x)[0])
                if l.get("kind") == "DeclRefExpr":
                    assigns.setdefault(l["referencedDecl"]["id"], []).append(None)
        for vid, vals in assigns.items():
            if len(vals) != 1 or vals[0] is None:
                continue
            a = self._affine(vals[0], {})
            if a is not None:
                self.alias[vid] = a
        # second round for aliases of aliases (highI = len - 1)
        for vid, vals in assigns.items():
            if vid in self.alias or len(vals) != 1 or vals[0] is None:
                continue
            a = self._affine(vals[0], self.alias)
            if a is not None:
                self.alias[vid] = a
        # declared as size()+c and modified later (`--len` after the guards): an alias until the modification (flow-sensitive, see stmt)
        decl_ids = {x["id"] for x in walk(self.f.body) if x.get("kind") == "VarDecl" and "id" in x}
        for vid, vals in assigns.items():
            if vid in self.alias or vid not in decl_ids or len(vals) < 2 or vals[0] is None:
                continue
            a = self._affine(vals[0], self.alias)
            if a is not None:
                self.alias0[vid] = a

    def _affine(self, e, alias):
        """(key, offset) if e == size(key) + offset."""
        e = _u(e)
        k = e.get("kind")
        if k in ("CXXStaticCastExpr", "CStyleCastExpr", "CXXFunctionalCastExpr") and kids(e):
            return self._affine(kids(e)[0], alias)
        r, key = _size_call(e)
        if key:
            return (key, 0)
        if k == "DeclRefExpr" and e.get("referencedDecl", {}).get("id") in alias:
            return alias[e["referencedDecl"]["id"]]
        if k == "DeclRefExpr" and alias is self.alias and e.get("referencedDecl", {}).get("id") in self.alias0:
            vid = e["referencedDecl"]["id"]
            if ("!k%s" % vid) not in dict(self._st):
                return self.alias0[vid]
        if k == "BinaryOperator" and e.get("opcode") in ("-", "+"):
            a = self._affine(kids(e)[0], alias)
            c = _u(kids(e)[1])
            if a and c.get("kind") == "IntegerLiteral":
                v = int(c["value"])
                return (a[0], a[1] - v if e.get("opcode") == "-" else a[1] + v)
        return None

    # -- lattice -------------------------------------------------------------
    def join(self, a, b):
        da, db_ = dict(a), dict(b)
        out = [(k, min(da[k], db_[k])) for k in da if k in db_ and not k.startswith("!k")]
        out += [(k, 1) for k in set(da) | set(db_) if k.startswith("!k")]          # "modified on some path" is a may-fact: union
        return tuple(sorted(out))

    @staticmethod
    def _set(st, key, lo):
        d = dict(st)
        if lo > d.get(key, 0):
            d[key] = lo
        return tuple(sorted(d.items()))

    def lo(self, st, key):
        return dict(st).get(key, 0)

    # -- conditions ---------------------------------------------------------------
    def cond_atom(self, e, st):
        st = self.stmt(e, st)
        self._st = st
        e0 = _u(e)
        k = e0.get("kind")
        # X.empty()
        if k == "CXXMemberCallExpr":
            callee = _u(kids(e0)[0])
            if callee.get("name") == "empty" and kids(callee):
                r, key = _root(kids(callee)[0])
                if key:
                    return st, self._set(st, key, 1)
            a = self._affine(e0, self.alias)
            if a and a[1] == 0:
                return self._set(st, a[0], 1), st
        if k == "DeclRefExpr":
            a = self._affine(e0, self.alias)
            if a:
                # truthiness of size()+off : nonzero
                if a[1] == 0:
                    return self._set(st, a[0], 1), st
        if k == "BinaryOperator" and e0.get("opcode") in ("<", ">", "<=", ">=", "==", "!="):
            l, r = kids(e0)
            op = e0.get("opcode")
            al, ar = self._affine(l, self.alias), self._affine(r, self.alias)
            cl, cr = _u(l), _u(r)
            if al and cr.get("kind") == "IntegerLiteral":
                return self._cmp(st, al, op, int(cr["value"]))
            if ar and cl.get("kind") == "IntegerLiteral":
                flip = {"<": ">", ">": "<", "<=": ">=", ">=": "<=", "==": "==", "!=": "!="}[op]
                return self._cmp(st, ar, flip, int(cl["value"]))
        return st, st

    def _cmp(self, st, a, op, c):
        key, off = a
        c = c - off                      # size(key) op c
        cur = self.lo(st, key)
        t = f = st
        if op == "<":
            f = self._set(st, key, c)                       # !(size < c)  => size >= c
        elif op == "<=":
            f = self._set(st, key, c + 1)
        elif op == ">":
            t = self._set(st, key, c + 1)
        elif op == ">=":
            t = self._set(st, key, c)
        elif op == "==":
            t = self._set(st, key, c)
            if cur >= c:
                f = self._set(st, key, c + 1)               # size >= c and size != c  => size >= c+1
        elif op == "!=":
            f = self._set(st, key, c)
            if cur >= c:
                t = self._set(st, key, c + 1)
        return t, f

    # -- sites -----------------------------------------------------------------------
    def _tracked_root(self, node):
        """Only containers that come from outside: parameters, references, iterators / loop variables over them."""
        if node is None:
            return False
        decl = self.db.by_id.get(node.get("referencedDecl", {}).get("id"))
        if decl is None:
            return False
        t = qt(decl)
        if decl.get("kind") == "ParmVarDecl":
            return bool(CONTAINER_T.search(dqt(decl)) or CONTAINER_T.search(t) or "iterator" in dqt(decl))
        if decl.get("kind") == "VarDecl":
            # references and iterators alias caller data; by-value locals are the function's own containers
            return ("&" in t or "iterator" in dqt(decl) or "iterator" in t) and (CONTAINER_T.search(dqt(decl)) is not None or "iterator" in dqt(decl))
        return False

    def _need(self, x):
        """If x is a first/last element access: (root node, key, required size)."""
        k = x.get("kind")
        if k == "CXXOperatorCallExpr":
            ks = kids(x)
            op = _u(ks[0]).get("referencedDecl", {}).get("name", "")
            if op == "operator[]" and len(ks) == 3:
                r, key = _root(ks[1])
                if not key:
                    return None
                idx = _u(ks[2])
                if idx.get("kind") == "IntegerLiteral":
                    return r, key, int(idx["value"]) + 1
                a = self._affine(idx, self.alias)
                if a and a[0] == key and a[1] < 0:
                    return r, key, -a[1]           # c[size-1] needs size >= 1
                return None
            if op == "operator*" and len(ks) == 2:
                inner = _u(ks[1])
                # *c.begin()
                if inner.get("kind") == "CXXMemberCallExpr" and _u(kids(inner)[0]).get("name") in ("begin", "cbegin"):
                    r, key = _root(kids(_u(kids(inner)[0]))[0])
                    if key:
                        return r, key, 1
            if op in ("operator-",) and len(ks) == 3:
                a = _u(ks[1])
                c = _u(ks[2])
                if a.get("kind") == "CXXMemberCallExpr" and _u(kids(a)[0]).get("name") in ("end", "cend") and c.get("kind") == "IntegerLiteral":
                    r, key = _root(kids(_u(kids(a)[0]))[0])
                    if key:
                        return r, key, int(c["value"])
            if op in ("operator--",) and len(ks) >= 2:
                a = _u(ks[1])
                if a.get("kind") == "CXXMemberCallExpr" and _u(kids(a)[0]).get("name") in ("end", "cend"):
                    r, key = _root(kids(_u(kids(a)[0]))[0])
                    if key:
                        return r, key, 1
        if k == "CXXMemberCallExpr":
            callee = _u(kids(x)[0])
            if callee.get("name") in ("front", "back") and kids(callee):
                r, key = _root(kids(callee)[0])
                if key:
                    return r, key, 1
        return None

    def stmt(self, node, st):
        self._st = st
        if self.alias0:
            for x in walk(node):
                tgt = None
                if x.get("kind") == "VarDecl" and x.get("id") in self.alias0:
                    st = tuple(kv for kv in st if kv[0] != "!k%s" % x["id"])          # (re-)declared: the alias holds again
                    self._st = st
                elif x.get("kind") in ("BinaryOperator", "CompoundAssignOperator") and x.get("opcode", "").endswith("=") and \
                        x.get("opcode") not in ("==", "!=", "<=", ">="):
                    tgt = _u(kids(x)[0])
                elif x.get("kind") == "UnaryOperator" and x.get("opcode") in ("++", "--"):
                    tgt = _u(kids(x)[0])
                if tgt is not None and tgt.get("kind") == "DeclRefExpr" and tgt.get("referencedDecl", {}).get("id") in self.alias0:
                    kill = "!k%s" % tgt["referencedDecl"]["id"]
                    after = tuple(sorted(set(st) | {(kill, 1)}))
                    # sites of this very statement are judged with the alias still in force; the kill applies from the next one on
                    return self._stmt_sites(node, st) and after or after
        return self._stmt_sites(node, st)

    def _stmt_sites(self, node, st):
        for x in walk(node):
            nd = self._need(x)
            if nd:
                r, key, need = nd
                if self._tracked_root(r):
                    self.sites.append((x, key, need, self.lo(st, key) >= need, r))
            if x.get("kind") in ("CallExpr", "CXXMemberCallExpr", "CXXConstructExpr"):
                g = self.db.callee_func(x) if x.get("kind") != "CXXConstructExpr" else None
                if g is not None and g.body is not None and g.file and ("/clipper2/" in g.file or "/Clipper2Lib/" in g.file):
                    for i, a in enumerate(self.db.call_args(x)):
                        r, key = _root(a)
                        self.calls.append((x, g, i, key, self.lo(st, key) if key else 0, r))
        return st


class E9:
    def __init__(self, db, chk, cfg):
        self.db, self.chk, self.cfg = db, chk, cfg
        self._pre = {}
        self._busy = set()

    def analyse(self, f):
        cl = _Facts(self, f)
        # short-circuit operators are handled by the walker for conditions; for plain expressions
        # (a || b[0]) inside an `if` the walker refines too.
        Walker(cl).function(f.body, tuple())
        return cl

    def preconditions(self, f):
        """[(param index, required size, witness node, chain)] that callers of f must establish."""
        if f.id in self._pre:
            return self._pre[f.id]
        if any(x.get("kind") == "CXXTryStmt" for x in walk(f.body)):
            return []
        if f.id in self._busy:
            return []
        self._busy.add(f.id)
        cl = self.analyse(f)
        pnames = {p.get("name"): i for i, p in enumerate(f.params)}
        pre = {}
        self._unproved_local = getattr(self, "_unproved_local", {})
        for x, key, need, ok, r in cl.sites:
            if ok:
                continue
            if key in pnames:
                i = pnames[key]
                if need > pre.get(i, (0,))[0]:
                    pre[i] = (need, x, [f.qual])
            else:
                self._unproved_local.setdefault(f.id, []).append((x, key, need))
        for x, g, i, key, lo, r in cl.calls:
            if key is None:
                continue
            for (pi, need, wit, chain) in self.preconditions(g):
                if pi != i or lo >= need:
                    continue
                if key in pnames:
                    j = pnames[key]
                    if need > pre.get(j, (0,))[0]:
                        pre[j] = (need, wit, [f.qual] + chain)
                elif cl._tracked_root(r):
                    self._unproved_local.setdefault(f.id, []).append((x, key, need, wit, chain))
        out = [(i, v[0], v[1], v[2]) for i, v in pre.items()]
        self._busy.discard(f.id)
        self._pre[f.id] = out
        return out


def _is_public(db, f):
    if f.cls:
        from ..checks.c12 import _is_public as pub
        try:
            return pub(db, f)
        except Exception:
            return False
    if not f.file:
        return False
    if f.node.get("storageClass") == "static" and f.file.endswith(".cpp"):
        return False
    if f.qual.startswith("detail::") or f.qual.startswith("details::"):
        return False
    if f.file.endswith(".cpp"):
        # a free function defined in a .cpp is part of the API only if a header declares it
        prev = f.node.get("previousDecl")
        pn = db.by_id.get(prev) if prev else None
        return bool(pn is not None and str(pn.get("file", "")).endswith(".h")) or "/controls/" in f.file
    return f.file.endswith(".h")


def rule_nonempty(db, chk, cfg, rule="GUARD.nonempty", lib_only=True):
    eng = E9(db, chk, cfg)
    nsites = 0
    reported = set()
    for f in db.funcs:
        if f.is_pattern or not f.file or f.file.endswith("clipper.export.h"):
            continue
        if lib_only and not ("/clipper2/" in f.file or "/Clipper2Lib/src/" in f.file):
            continue
        if any(x.get("kind") == "CXXTryStmt" for x in walk(f.body)):
            continue   # reported by ALLOC.noexcept (handlers are forbidden); the structured walker does not model try
        cl = eng.analyse(f)
        pre = eng.preconditions(f)
        seen = set()
        for x, key, need, ok, r in cl.sites:
            k2 = (x.get("line"), key, need)
            if k2 in seen:
                continue
            seen.add(k2)
            nsites += 1
            chk.instance(rule, {"function": f.qual, "site": canon(x)[:40], "needs": "size(%s) >= %d" % (key, need), "proved_locally": ok,
                                "where": where(x), "cfg": cfg} if (not ok or nsites % 9 == 1) else None, ok=True)
        public = _is_public(db, f)
        if public:
            for (pi, need, wit, chain) in pre:
                pname = f.params[pi].get("name")
                k3 = (f.qual, pname, chain[-1])
                if k3 in reported:
                    continue
                reported.add(k3)
                chk.violation(rule, f.qual, "%s>=%d@%s" % (pname, need, chain[-1]),
                              "public function can be called with size(%s) < %d, and %s is then evaluated at %s (call chain %s): "
                              "out-of-bounds access on an input the caller is allowed to pass"
                              % (pname, need, canon(wit)[:40], where(wit), " -> ".join(chain)), where(wit), cfg=cfg)
        for item in getattr(eng, "_unproved_local", {}).get(f.id, []):
            x, key, need = item[0], item[1], item[2]
            chain = item[4] if len(item) > 4 else [f.qual]
            wit = item[3] if len(item) > 3 else x
            k3 = (f.qual, key, where(wit))
            if k3 in reported:
                continue
            reported.add(k3)
            chk.violation(rule, f.qual, "%s>=%d@%s" % (key, need, chain[-1]),
                          "no dominating size test establishes size(%s) >= %d before %s at %s (reached through %s)"
                          % (key, need, canon(wit)[:40], where(wit), " -> ".join([f.qual] + (chain if chain[0] != f.qual else chain[1:]))),
                          where(x), cfg=cfg)
    return nsites


# ---------------------------------------------------------------------------
# allocation in noexcept contexts
# ---------------------------------------------------------------------------

STD_NOALLOC = re.compile(
    r'::(clear|size|empty|begin|end|cbegin|cend|rbegin|rend|operator\[\]|front|back|top|pop|pop_back|data|get|release|operator bool|'
    r'operator\*|operator->|operator\+\+|operator--|operator==|operator!=|operator-|operator\+|base|swap|capacity|max_size|'
    r'_M_erase_at_end|_M_deallocate|deallocate|destroy|_Destroy|~\w+|_M_range_check|_M_get_Tp_allocator|_M_ptr|_M_head|_M_t|'
    r'__niter_base|__niter_wrap|addressof|__addressof|move|forward|__get_helper|_M_access|_M_pointer|_M_manager|_M_empty|'
    r'has_value|value|reset|_M_reset|_M_is_engaged|_M_get|_M_destroy|_M_destroy_data_aux|_M_destroy_data|_M_destroy_nodes|_M_deallocate_node|'
    r'_M_deallocate_map|_M_set_node|_S_buffer_size|__deque_buf_size|_M_dispose|_M_is_local|_M_data|_M_local_data|c_str|what)\b')
STD_ALLOC = re.compile(r'::(push_back|emplace_back|emplace|insert|reserve|_M_realloc_insert|_M_default_append|_M_allocate|allocate|'
                       r'_M_create_storage|_M_initialize_map|_M_create_nodes|_M_allocate_node|_M_allocate_map|make_unique|make_shared|'
                       r'_M_create|_M_construct|_M_assign|_M_mutate|append|assign|_M_fill_insert|_M_range_insert|_M_reallocate_map|'
                       r'_M_push_back_aux|_M_new_elements_at_back|stable_sort|get_temporary_buffer)\b')


def rule_alloc_noexcept(mod, db, chk, cfg, rule="ALLOC.noexcept", min_ctx=5, lib_only=True):
    from .e1_globals import _resolve_alias
    # contexts: destructors of library classes and functions declared noexcept
    ctx = []
    for n, f in mod.funcs.items():
        d = f.demangled
        if not d.startswith("Clipper2Lib::"):
            continue
        name = d.split("(")[0]
        last = name.split("::")[-1]
        if last.startswith("~"):
            ctx.append(n)
        elif re.search(r'\bnounwind\b', f.attrs or "") and False:
            pass
    for g in db.funcs:
        t = g.sig
        if re.search(r'\bnoexcept\b', t) and g.mangled and g.mangled in mod.funcs and not g.name.startswith("~"):
            ctx.append(g.mangled)
    if len(ctx) < min_ctx:
        raise AnalysisBroken("only %d destructor / noexcept contexts found in the IR" % len(ctx))
    n = 0
    NEW = ("_Znwm", "_Znam", "_ZnwmRKSt9nothrow_t", "_ZnamRKSt9nothrow_t", "_ZnwmSt11align_val_t", "_ZnamSt11align_val_t")
    for c in sorted(set(ctx)):
        # reachability in the IR call graph, libstdc++ bodies included (they are all present as linkonce definitions);
        # the only call that is cut is container.resize(0), whose growing branch is dead for a zero argument
        seen = {}
        stack = [(c, (c,))]
        bad = None
        while stack and bad is None:
            cur, path = stack.pop()
            if cur in seen:
                continue
            seen[cur] = path
            f = mod.funcs.get(cur)
            if f is None:
                continue
            for call in f.calls():
                if not call.callee:
                    continue
                cal = _resolve_alias(mod, call.callee)
                if cal in NEW:
                    bad = (path, mod.decls.get(cal, (None, cal))[1], call.line)
                    break
                if cal in mod.funcs:
                    dem = mod.funcs[cal].demangled
                    if dem.split("(")[0].endswith("::resize") and call.args and len(call.args) > 1 and call.args[1][0] == "0":
                        continue
                    if cal not in seen:
                        stack.append((cal, path + (cal,)))
        n += 1
        cname = mod.funcs[c].short
        ok = bad is None
        chk.instance(rule, {"context": cname, "functions_reached": len(seen), "cfg": cfg}, ok=ok)
        if bad:
            path, dem, line = bad
            chain = " -> ".join(mod.funcs[p].short.split("<")[0] for p in path[-7:])
            lib = [p for p in path if mod.funcs[p].demangled.startswith("Clipper2Lib::")]
            chk.violation(rule, cname, mod.funcs[lib[-1]].short.split("::")[-1] if lib else "new",
                          "an allocation (%s, line %s) is reachable from the noexcept context %s: a failed allocation there calls "
                          "std::terminate instead of reaching the caller; chain: %s" % (dem[:60], line, cname, chain), "IR", cfg=cfg)
    # no handlers, no nothrow new in library code
    handlers = 0
    nothrow = 0
    for f in db.funcs:
        if f.is_pattern or not f.file or (lib_only and not ("/clipper2/" in f.file or "/Clipper2Lib/src/" in f.file)):
            continue
        for x in walk(f.body):
            if x.get("kind") in ("CXXCatchStmt", "CXXTryStmt"):
                handlers += 1
                chk.violation(rule, f.qual, "catch", "exception handler in library code: a std::bad_alloc could be swallowed before it reaches the caller",
                              where(x), cfg=cfg)
            if x.get("kind") == "CXXNewExpr" and "nothrow" in canon(x):
                nothrow += 1
                chk.violation(rule, f.qual, "nothrow-new", "new (std::nothrow) returns null on failure instead of throwing std::bad_alloc", where(x), cfg=cfg)
    chk.instance(rule, {"catch_handlers": handlers, "nothrow_new": nothrow, "cfg": cfg}, ok=not handlers and not nothrow)
    return n


# ---------------------------------------------------------------------------
# products in signed 64-bit arithmetic
# ---------------------------------------------------------------------------

def rule_int64_product(db, chk, cfg, rule="INT64.product", lib_only=True):
    n = 0
    for f in db.funcs:
        if f.is_pattern or not f.file:
            continue
        if lib_only and not ("/clipper2/" in f.file or "/Clipper2Lib/src/" in f.file):
            continue
        for x in walk(f.body):
            if x.get("kind") in ("BinaryOperator", "CompoundAssignOperator") and x.get("opcode") in ("*", "*="):
                n += 1
                t = dqt(x).replace("const ", "")
                if t in ("long", "long long", "int64_t", "__int64"):
                    a, b = [_u(k) for k in kids(x)]
                    if a.get("kind") == "IntegerLiteral" or b.get("kind") == "IntegerLiteral":
                        continue
                    chk.violation(rule, f.qual, canon(x)[:50],
                                  "product %s is formed in the signed 64-bit type %s: with coordinates (or their differences) as operands it "
                                  "overflows for magnitudes far below the supported range (undefined behaviour and scale-dependent results); "
                                  "the library forms such products in double or __int128" % (canon(x)[:60], t), where(x), cfg=cfg)
    chk.instance(rule, {"multiplications_inspected": n, "cfg": cfg}, n=max(n, 1))
    return n


WIDE = re.compile(r'__int128|__uint128_t|__int128_t')


def rule_wide_kept(db, chk, cfg, rule="TYPE.wide-kept", lib_only=True):
    """A product formed in a 128-bit integer is compared as such: no conversion (implicit at a call or an initialisation, or explicit)
    takes a 128-bit value to a narrower arithmetic type - the exact predicates are only exact while every bit of the product takes
    part in the comparison."""
    n = 0
    for f in db.funcs:
        if f.is_pattern or not f.file or f.body is None:
            continue
        if lib_only and not ("/clipper2/" in f.file or "/Clipper2Lib/src/" in f.file):
            continue
        for x in walk(f.body):
            if not x.get("castKind"):
                continue
            ks = kids(x)
            if not ks:
                continue
            src = dqt(ks[0]) or ""
            if not WIDE.search(src):
                continue
            n += 1
            dst = dqt(x) or ""
            ck = x.get("castKind")
            ok = WIDE.search(dst) is not None or ck in ("LValueToRValue", "NoOp", "IntegralToBoolean")
            chk.instance(rule, {"function": f.qual, "expr": canon(x)[:60], "from": src, "to": dst, "cast": ck, "cfg": cfg} if not ok else None, ok=ok)
            if not ok:
                chk.violation(rule, f.qual, canon(ks[0])[:40],
                              "`%s` of the 128-bit type %s is converted to %s (%s): the upper bits of the product are dropped, so the comparison is "
                              "wrong as soon as the value leaves the narrower range" % (canon(ks[0])[:60], src, dst, ck), where(x), cfg=cfg)
    return n


OUT_ALGOS = {"transform": 2, "copy": 2, "copy_if": 2, "move": 2, "copy_n": 2, "replace_copy": 2, "reverse_copy": 2, "rotate_copy": 3,
             "unique_copy": 2, "partial_sum": 2, "adjacent_difference": 2}


def rule_dest_sized(db, chk, cfg, rule="DEST.sized", lib_only=True):
    """Standard algorithms that write through an output iterator do not grow their destination.  Every such call in the library either
    appends (back_inserter / inserter), or writes to `X.begin()` of a local X that was constructed with the *source range's own size*:
    X(S.size()), or X(n) with n a never-reassigned local initialised from S.size(), S being the container whose begin()/end() delimit
    the input.  Anything else writes past the end of X as soon as the source is the longer one."""
    n = 0
    for f in db.funcs:
        if f.is_pattern or not f.file or f.body is None:
            continue
        if lib_only and not ("/clipper2/" in f.file or "/Clipper2Lib/src/" in f.file):
            continue
        for c in walk(f.body):
            if c.get("kind") != "CallExpr":
                continue
            name = db.callee(c)[0]
            if name not in OUT_ALGOS:
                continue
            args = db.call_args(c)
            di = OUT_ALGOS[name]
            if len(args) <= di:
                continue
            first = canon(args[0])
            m0 = re.match(r'^(.*)\.c?r?begin\(\)$', first)
            if name == "move" and m0 is None:
                continue                       # std::move(x), the cast
            n += 1
            dest = strip(args[di])
            dtxt = canon(dest)
            ok, why = False, ""
            if re.match(r'^(std::)?(back_inserter|inserter|front_inserter)\(', dtxt) or "insert_iterator" in (dqt(dest) or ""):
                ok = True
            else:
                m = re.match(r'^(\w+)\.begin\(\)$', dtxt)
                src = m0.group(1) if m0 else None
                if m and src:
                    decl = None
                    ids = [y.get("referencedDecl", {}).get("id") for y in walk(dest) if y.get("kind") == "DeclRefExpr"
                           and y.get("referencedDecl", {}).get("name") == m.group(1)]
                    for x in walk(f.body):
                        if x.get("kind") == "VarDecl" and x.get("id") in ids:
                            decl = x
                    if decl is not None:
                        init = [k for k in kids(decl) if isinstance(k, dict) and k.get("kind")]
                        ctor = None
                        for k in (walk(init[-1]) if init else ()):
                            if k.get("kind") in ("CXXConstructExpr", "CXXTemporaryObjectExpr"):
                                ctor = k
                                break
                        cargs = [a for a in (kids(ctor) if ctor else []) if isinstance(a, dict) and a.get("kind") and a.get("kind") != "CXXDefaultArgExpr"]
                        # ... or default-constructed and then given its size by X.resize(n) / X.assign(n, v) (the last one before the call)
                        for y in walk(f.body):
                            if y is c:
                                break
                            if y.get("kind") == "CXXMemberCallExpr" and db.callee(y)[0] in ("resize", "assign"):
                                mb = db.member_base(y)
                                mb0 = _u(mb) if mb else {}
                                if mb0.get("kind") == "DeclRefExpr" and mb0.get("referencedDecl", {}).get("id") in ids and db.call_args(y):
                                    cargs = [db.call_args(y)[0]]
                        if len(cargs) >= 1:
                            sz = canon(cargs[0])
                            want = "%s.size()" % src
                            if sz == want:
                                ok = True
                            else:
                                # a local never written after its initialisation from S.size()
                                v = strip(cargs[0])
                                if v.get("kind") == "DeclRefExpr":
                                    vid = v.get("referencedDecl", {}).get("id")
                                    vd = db.by_id.get(vid)
                                    vinit = [k for k in kids(vd) if isinstance(k, dict) and k.get("kind")] if vd else []
                                    written = any((y.get("kind") in ("BinaryOperator", "CompoundAssignOperator") and y.get("opcode", "").endswith("=")
                                                   and y.get("opcode") not in ("==", "!=", "<=", ">=")
                                                   and strip(kids(y)[0]).get("referencedDecl", {}).get("id") == vid) or
                                                  (y.get("kind") == "UnaryOperator" and y.get("opcode") in ("++", "--")
                                                   and strip(kids(y)[0]).get("referencedDecl", {}).get("id") == vid) for y in walk(f.body))
                                    if vinit and canon(vinit[-1]) == want and not written:
                                        ok = True
                                    else:
                                        why = "its size `%s` is %s, not %s" % (sz, ("`%s`" % canon(vinit[-1])[:40]) if vinit else "unknown",
                                                                               want) + (" (and is modified later)" if written else "")
                                else:
                                    why = "it is constructed with size `%s`, not `%s`" % (sz[:40], want)
                        else:
                            why = "it is not constructed with a size"
                    else:
                        why = "its declaration is not a local of this function"
                else:
                    why = "the destination is neither an inserter nor begin() of a local container"
            chk.instance(rule, {"function": f.qual, "call": canon(c)[:70], "cfg": cfg}, ok=ok)
            if not ok:
                chk.violation(rule, f.qual, "%s|%s" % (name, dtxt[:30]),
                              "std::%s writes %s element(s) of `%s` to `%s`, but %s: the write runs past the end of the destination when the "
                              "source is longer" % (name, "the", first[:40].replace(".cbegin()", "").replace(".begin()", ""), dtxt[:40], why),
                              where(c), cfg=cfg)
    return n


def rule_unsigned_decrement(db, chk, cfg, rule="GUARD.unsigned-decrement", lib_only=True):
    """A loop that counts an unsigned index down is guarded strictly: `v > e` keeps v above e before every `v--`, whereas `v >= e` lets v
    reach e and then step to e - 1 - which wraps to the largest value when e is 0 (RDP is called with begin == 0) and is then used as
    an index.  Every loop that decrements an unsigned local / parameter and tests it relationally: the test is strict, or the bound
    is a literal of at least 1."""
    n = 0
    for f in db.funcs:
        if f.is_pattern or not f.file or f.body is None:
            continue
        if lib_only and not ("/clipper2/" in f.file or "/Clipper2Lib/src/" in f.file):
            continue
        seen = set()
        for lp in walk(f.body):
            if lp.get("kind") not in ("WhileStmt", "ForStmt", "DoStmt"):
                continue
            ks = kids(lp)
            if lp.get("kind") == "ForStmt":
                cond = ks[2] if len(ks) >= 4 else None
            elif lp.get("kind") == "DoStmt":
                cond = ks[-1]
            else:
                cs = [c for c in ks[:-1] if isinstance(c, dict) and c.get("kind")]
                cond = cs[-1] if cs else None
            if not isinstance(cond, dict) or not cond.get("kind"):
                continue
            decs = {}
            for y in walk(lp):
                if y.get("kind") == "UnaryOperator" and y.get("opcode") == "--":
                    o = strip(kids(y)[0])
                    if o.get("kind") == "DeclRefExpr" and "unsigned" in (dqt(o) or ""):
                        decs[o["referencedDecl"].get("id")] = o["referencedDecl"].get("name")
            if not decs:
                continue
            for a in walk(cond):
                if a.get("kind") != "BinaryOperator" or a.get("opcode") not in ("<", ">", "<=", ">="):
                    continue
                l, r = strip(kids(a)[0]), strip(kids(a)[1])
                op = a.get("opcode")
                v = e = None
                if l.get("kind") == "DeclRefExpr" and l["referencedDecl"].get("id") in decs and op in (">", ">="):
                    v, e, strict = l, r, op == ">"
                elif r.get("kind") == "DeclRefExpr" and r["referencedDecl"].get("id") in decs and op in ("<", "<="):
                    v, e, strict = r, l, op == "<"
                if v is None:
                    continue
                key = (lp.get("line"), canon(a))
                if key in seen:
                    continue
                seen.add(key)
                n += 1
                lit_ok = e.get("kind") == "IntegerLiteral" and int(e.get("value", "0")) >= 1
                ok = strict or lit_ok
                chk.instance(rule, {"function": f.qual, "loop": where(lp), "guard": canon(a)[:40], "cfg": cfg}, ok=ok)
                if not ok:
                    chk.violation(rule, f.qual, "%s|%s" % (canon(v), canon(a)[:30]),
                                  "the loop at %s decrements the unsigned `%s` under the guard `%s`: when `%s` is 0 the index steps below it and wraps to the largest "
                                  "value, which the loop then uses (out-of-bounds access)" % (where(lp), canon(v), canon(a)[:40], canon(e)[:20]), where(a), cfg=cfg)
    return n


# ---------------------------------------------------------------------------
# HOT.guard: functions that dereference e.outrec are only called on edges known to carry output
# ---------------------------------------------------------------------------

NEEDS_HOT = {"AddOutPt": (0,), "AddLocalMaxPoly": (0,), "GetLastOp": (0,), "IsFront": (0,), "OutrecIsAscending": (0,), "JoinOutrecPaths": (0, 1)}
MAKES_HOT = {"AddLocalMinPoly": (0, 1), "StartOpenPath": (0,)}
HOT_ALLOW = {
    ("ClipperBase::AddLocalMaxPoly", "IsFront", "e2"): "second edge of a local maximum: the maxima pair of a hot edge is hot (sweep invariant the "
                                                        "code itself relies on, see the commented-out check in DoHorizontal)",
    ("ClipperBase::AddLocalMaxPoly", "IsFront", "e1"): "precondition of AddLocalMaxPoly: callers pass a hot first edge (checked at every call site by this rule)",
    ("ClipperBase::AddLocalMaxPoly", "AddOutPt", "e1"): "precondition of AddLocalMaxPoly (hot first edge), checked at its call sites",
    ("ClipperBase::AddLocalMaxPoly", "JoinOutrecPaths", "e1"): "precondition of AddLocalMaxPoly (hot first edge)",
    ("ClipperBase::AddLocalMaxPoly", "JoinOutrecPaths", "e2"): "maxima pair of a hot edge is hot (sweep invariant)",
    ("ClipperBase::JoinOutrecPaths", "IsFront", "e1"): "precondition of JoinOutrecPaths: both edges hot, checked at its call sites",
    ("ClipperBase::AddOutPt", "IsFront", "e"): "precondition of AddOutPt (hot edge), checked at its call sites",
    ("ClipperBase::AddLocalMinPoly", "OutrecIsAscending", "prevHotEdge"): "GetPrevHotEdge only returns null or an edge with IsHotEdge (its loop skips every "
                                                                           "other edge); the call is inside `if (prevHotEdge)`",
    ("ClipperBase::DoHorizontal", "AddLocalMaxPoly", "e"): "right-to-left case: *e is the maxima pair of the hot horizontal edge; the pair of a hot edge is "
                                                            "hot (sweep invariant, see the commented-out check a few lines above)",
}


class _Hot(Client):
    """state: frozenset of canonical edge expressions known to have a non-null outrec."""

    def __init__(self, db, f):
        self.db, self.f = db, f
        self.bad = []
        self.sites = 0
        # boolean locals that hold the result of IsHotEdge(X)
        self.flags = {}
        for x in walk(f.body):
            if x.get("kind") == "VarDecl" and "id" in x:
                init = [c for c in kids(x) if c.get("kind")]
                if init:
                    i0 = _u(init[-1])
                    if i0.get("kind") == "CallExpr" and db.callee(i0)[0] == "IsHotEdge":
                        self.flags[x["id"]] = self._key(db.call_args(i0)[0])

    def join(self, a, b):
        return a & b

    @staticmethod
    def _key(e):
        s = canon(e)
        s = re.sub(r'^\(\*(.*)\)$', r'\1', s)
        return s

    def _apply(self, node, st):
        for x in walk(node):
            k = x.get("kind")
            if k in ("CallExpr", "CXXMemberCallExpr"):
                nm = self.db.callee(x)[0]
                args = self.db.call_args(x)
                if nm in NEEDS_HOT:
                    for i in NEEDS_HOT[nm]:
                        if i < len(args):
                            key = self._key(args[i])
                            self.sites += 1
                            if key not in st:
                                self.bad.append((x, nm, key))
                if nm in MAKES_HOT:
                    for i in MAKES_HOT[nm]:
                        if i < len(args):
                            st = st | {self._key(args[i])}
                if nm in ("SwapOutrecs",) and len(args) == 2:
                    a, b = self._key(args[0]), self._key(args[1])
                    if not (a in st and b in st):
                        st = st - {a, b}
                if nm in ("AddLocalMaxPoly", "JoinOutrecPaths", "UncoupleOutRec", "Split", "CheckJoinLeft", "CheckJoinRight", "UpdateEdgeIntoAEL",
                          "IntersectEdges", "DoMaxima", "DoHorizontal", "DeleteFromAEL"):
                    # these may uncouple the edges they are given (and their neighbours): forget everything
                    if nm in ("AddLocalMaxPoly", "JoinOutrecPaths", "IntersectEdges", "Split", "CheckJoinLeft", "CheckJoinRight", "DoMaxima"):
                        st = frozenset()
            if k == "BinaryOperator" and x.get("opcode") == "=":
                l = canon(kids(x)[0])
                m = re.match(r'^(.*)(\.|->)outrec$', l)
                if m:
                    key = re.sub(r'^\(\*(.*)\)$', r'\1', m.group(1))
                    if canon(kids(x)[1]) == "nullptr":
                        st = st - {key}
                    else:
                        st = st | {key}
        return st

    def stmt(self, node, st):
        return self._apply(node, st)

    def cond_atom(self, e, st):
        e0 = _u(e)
        if e0.get("kind") == "CallExpr" and self.db.callee(e0)[0] == "IsHotEdge":
            key = self._key(self.db.call_args(e0)[0])
            return st | {key}, st - {key}
        if e0.get("kind") == "DeclRefExpr" and e0.get("referencedDecl", {}).get("id") in self.flags:
            key = self.flags[e0["referencedDecl"]["id"]]
            return st | {key}, st - {key}
        s = canon(e0)
        m = re.match(r'^(.*)(\.|->)outrec$', s)
        if m:
            key = re.sub(r'^\(\*(.*)\)$', r'\1', m.group(1))
            return st | {key}, st - {key}
        st2 = self._apply(e, st)
        return st2, st2


def rule_hot_guard(db, chk, cfg, rule="HOT.guard"):
    n = 0
    for f in db.funcs:
        if f.is_pattern or f.cls not in ("ClipperBase",) and f.qual not in ("GetLastOp",):
            continue
        if not any(x.get("kind") in ("CallExpr", "CXXMemberCallExpr") and db.callee(x)[0] in NEEDS_HOT for x in walk(f.body)):
            continue
        cl = _Hot(db, f)
        # a function that itself requires a hot edge (checked at each of its call sites) may rely on it
        own = frozenset(f.params[i].get("name") for i in NEEDS_HOT.get(f.name, ()) if i < len(f.params))
        Walker(cl).function(f.body, own)
        n += cl.sites
        seen = set()
        nbad = 0
        for x, nm, key in cl.bad:
            k3 = (f.qual, nm, key)
            if k3 in seen:
                continue
            seen.add(k3)
            allow = HOT_ALLOW.get(k3)
            if allow:
                chk.allow(rule, "%s: %s(%s)" % k3, allow)
                continue
            nbad += 1
            chk.violation(rule, f.qual, "%s(%s)" % (nm, key),
                          "%s(%s) dereferences %s.outrec, but on this path nothing establishes that the edge carries output "
                          "(no dominating IsHotEdge test / AddLocalMinPoly / StartOpenPath): null-pointer dereference if it does not"
                          % (nm, key, key), where(x), cfg=cfg)
        chk.instance(rule, {"function": f.qual, "call_sites": cl.sites, "unproved": nbad, "cfg": cfg}, n=max(cl.sites, 1), ok=nbad == 0)
    return n


# ---------------------------------------------------------------------------
# RECURSION: self-recursive functions (C10: bounded time and memory)
# ---------------------------------------------------------------------------

def rule_recursion(db, chk, cfg, rule="RECURSION", lib_only=True):
    """Two clauses over every directly self-recursive library function.
    (by-value)  it takes no container by value: each level of the recursion would copy it, so memory is depth x size
                (quadratic for a recursion as deep as the container is long);
    (guard)     if the function protects itself against cyclic data with a visited mark (`if (X->m == K) continue; X->m = K;`),
                every recursive call on the data reached through X lies after the mark on every path - a recursive call made
                before the mark is not protected by it (must-precede dataflow inside the function)."""
    from ..flow import Walker, Client
    from ..astq import if_parts
    n = 0
    seen_sigs = set()
    for f in db.funcs:
        if f.body is None or f.is_pattern:
            continue
        if lib_only and "Clipper2Lib" not in (f.file or "") and "clipper2" not in (f.file or ""):
            continue
        selfcalls = [x for x in walk(f.body) if x.get("kind") in ("CallExpr", "CXXMemberCallExpr") and
                     db.callee_func(x) is not None and db.callee_func(x).id == f.id]
        if not selfcalls:
            continue
        key = (f.qual, f.sig)
        if key in seen_sigs:
            continue
        seen_sigs.add(key)
        # (by-value)
        for p in f.params:
            t = qt(p)
            d = dqt(p)
            byval = not t.rstrip().endswith(("&", "*")) and ("vector<" in d or "deque<" in d or "Path<" in t or "Paths<" in t or "Path64" in t or "PathD" in t)
            if "vector<" in d or "Path" in t:
                n += 1
                chk.instance(rule, {"function": f.qual, "sig": f.sig[:70], "clause": "by-value", "parameter": p.get("name"), "type": t, "cfg": cfg}, ok=not byval)
                if byval:
                    chk.violation(rule, f.qual, "by-value|%s|%s" % (p.get("name"), t[:40]),
                                  "the self-recursive function %s takes the container `%s` (%s) by value: every level of the recursion copies it, so the "
                                  "memory in use is (recursion depth) x (container size) - quadratic when the recursion is as deep as the path is long"
                                  % (f.qual, p.get("name"), t), f.where, cfg=cfg)
        # (guard) find a visited-mark idiom:  X->m = K  with a test  X->m == K  in the same function
        marks = []
        for x in walk(f.body):
            if x.get("kind") == "BinaryOperator" and x.get("opcode") == "=":
                l = _u(kids(x)[0])
                if l.get("kind") == "MemberExpr" and kids(l):
                    lhs, rhs = canon(l), canon(kids(x)[1])
                    tested = any(y.get("kind") == "BinaryOperator" and y.get("opcode") in ("==", "!=") and
                                 sorted([canon(kids(y)[0]), canon(kids(y)[1])]) == sorted([lhs, rhs]) for y in walk(f.body))
                    if tested:
                        marks.append((x, lhs, rhs))
        if not marks:
            n += 1
            chk.instance(rule, {"function": f.qual, "sig": f.sig[:70], "clause": "guard", "visited_mark": None, "cfg": cfg})
            continue
        mark_ids = {id(m[0]) for m in marks}
        call_ids = {id(c): c for c in selfcalls}
        results = {}

        class C(Client):
            def join(self, a, b):
                return a and b

            def _apply(self, node, st):
                for y in walk(node):
                    if id(y) in call_ids and id(y) not in results:
                        results[id(y)] = st
                    elif id(y) in call_ids:
                        results[id(y)] = results[id(y)] and st
                    if id(y) in mark_ids:
                        st = True
                return st

            def stmt(self, node, st):
                if node.get("kind") == "VarDecl" and node.get("name") and any(m[1].startswith(node.get("name") + "->") for m in marks):
                    return False           # the loop variable the mark hangs on is rebound: a new element, not yet marked
                return self._apply(node, st)

            def cond_atom(self, expr, st):
                s = self._apply(expr, st)
                return s, s

        Walker(C()).function(f.body, False)
        for cid, c in call_ids.items():
            ok = bool(results.get(cid, False))
            n += 1
            chk.instance(rule, {"function": f.qual, "clause": "guard", "call": canon(c)[:60], "at": where(c), "visited_mark": marks[0][1] + " = " + marks[0][2],
                                "after_mark_on_every_path": ok, "cfg": cfg}, ok=ok)
            if not ok:
                chk.violation(rule, f.qual, "guard|%s" % where(c).split(":")[-1] if False else "guard|" + canon(c)[:50] + "|" + ("1st" if c is selfcalls[0] else "later"),
                              "%s protects itself against cyclic data with the visited mark `%s = %s`, but the recursive call `%s` is made before the mark on "
                              "some path: a cycle through the data it descends into is followed forever (stack exhaustion)"
                              % (f.qual, marks[0][1], marks[0][2], canon(c)[:70]), where(c), cfg=cfg)
    return n


# ---------------------------------------------------------------------------
# ALLOC.owned: what a function allocates into a local pointer has an owner when the function is left (C10: no leaks)
# ---------------------------------------------------------------------------

class _Owned(Client):
    """state: frozenset of local variable ids that may hold an allocation nobody else knows about."""

    def __init__(self, db, f):
        self.db, self.f = db, f
        self.leaks = {}            # var id -> (name, exit node or None)
        self.names = {}
        self.arrays = set()
        self.sites = 0
        self.par = {}
        for x in walk(f.body):
            for c in kids(x):
                if isinstance(c, dict):
                    self.par[id(c)] = x
        self.locals = {x.get("id") for x in walk(f.body) if x.get("kind") == "VarDecl"}

    def join(self, a, b):
        return a | b

    def _new_of(self, e):
        e = strip(e) if e else {}
        return e if e.get("kind") == "CXXNewExpr" else None

    def _escapes(self, ref, is_array):
        """does this use of the variable hand the allocation to somebody (or free it)?"""
        node = ref
        deref = False
        while True:
            p = self.par.get(id(node))
            if p is None:
                return False
            k = p.get("kind")
            if k in ("ImplicitCastExpr", "ParenExpr", "ExprWithCleanups", "MaterializeTemporaryExpr", "CXXBindTemporaryExpr"):
                node = p
                continue
            if k == "UnaryOperator" and p.get("opcode") == "*":
                deref = True
                node = p
                continue
            if k in ("MemberExpr", "ArraySubscriptExpr"):
                return False
            if k == "UnaryOperator" and p.get("opcode") in ("!", "++", "--"):
                return False
            if k == "BinaryOperator" and p.get("opcode") in ("==", "!=", "<", ">", "<=", ">=", "&&", "||", "-", "+"):
                return False
            if k in ("IfStmt", "WhileStmt", "ForStmt", "DoStmt", "ConditionalOperator") and kids(p) and node is not kids(p)[-1]:
                return False if k != "ConditionalOperator" or node is kids(p)[0] else (not deref or not is_array)
            if k == "CXXDeleteExpr":
                return True
            if k in ("CallExpr", "CXXMemberCallExpr", "CXXConstructExpr", "CXXOperatorCallExpr", "CXXTemporaryObjectExpr", "InitListExpr"):
                if node is kids(p)[0] and k != "CXXConstructExpr" and k != "InitListExpr":
                    return False                       # the callee expression itself
                return not (deref and is_array)
            if k == "ReturnStmt":
                return not deref
            if k == "BinaryOperator" and p.get("opcode") == "=":
                if node is kids(p)[0]:
                    return False                       # being assigned to
                l = strip(kids(p)[0])
                if l.get("kind") == "DeclRefExpr" and l.get("referencedDecl", {}).get("id") in self.locals and "*" in (qt(l) or "") and "&" not in (qt(l) or ""):
                    return False                       # copied into another local pointer (a cursor)
                return not deref
            if k == "VarDecl":
                t = qt(p) or ""
                return not deref and not ("*" in t and "&" not in t)       # initialising another local pointer is not a hand-over
            if k in ("CompoundStmt", "DeclStmt"):
                return False
            return not deref

    def stmt(self, node, st):
        for x in walk(node):
            k = x.get("kind")
            if k == "DeclRefExpr" and x.get("referencedDecl", {}).get("id") in st:
                vid = x["referencedDecl"]["id"]
                if self._escapes(x, vid in self.arrays):
                    st = st - {vid}
            elif k == "VarDecl" and x.get("id") in self.locals:
                init = [c for c in kids(x) if isinstance(c, dict) and c.get("kind")]
                nw = self._new_of(init[-1]) if init else None
                if nw is not None:
                    self.sites += 1
                    self.names[x["id"]] = x.get("name")
                    if nw.get("isArray"):
                        self.arrays.add(x["id"])
                    st = st | {x["id"]}
            elif k == "BinaryOperator" and x.get("opcode") == "=":
                l = strip(kids(x)[0])
                nw = self._new_of(kids(x)[1])
                if nw is not None and l.get("kind") == "DeclRefExpr" and l.get("referencedDecl", {}).get("id") in self.locals:
                    vid = l["referencedDecl"]["id"]
                    self.sites += 1
                    self.names[vid] = l["referencedDecl"].get("name")
                    if nw.get("isArray"):
                        self.arrays.add(vid)
                    st = st | {vid}
        return st

    def cond_atom(self, expr, st):
        st = self.stmt(expr, st)
        e = strip(expr)
        t = f = st
        if e.get("kind") == "DeclRefExpr" and e.get("referencedDecl", {}).get("id") in st:
            f = st - {e["referencedDecl"]["id"]}
        elif e.get("kind") == "BinaryOperator" and e.get("opcode") in ("==", "!="):
            a, b = strip(kids(e)[0]), strip(kids(e)[1])
            for u, v in ((a, b), (b, a)):
                if u.get("kind") == "DeclRefExpr" and u.get("referencedDecl", {}).get("id") in st and v.get("kind") in ("CXXNullPtrLiteralExpr", "GNUNullExpr", "IntegerLiteral"):
                    if e["opcode"] == "==":
                        t = st - {u["referencedDecl"]["id"]}
                    else:
                        f = st - {u["referencedDecl"]["id"]}
        return t, f

    def on_return(self, node, st):
        for vid in st or ():
            self.leaks.setdefault(vid, node)

    def on_exit(self, st):
        for vid in st or ():
            self.leaks.setdefault(vid, None)


def rule_alloc_owned(db, chk, cfg, rule="ALLOC.owned"):
    """Every `new` whose result is kept in a local pointer: on every path from the allocation to an exit of the function the
    pointer is handed on - returned, stored in a member / container / another object, passed to a call (for an array: the pointer
    itself, not an element), or deleted - or is known to be null on that path.  An exit with the only pointer to the block still in
    a local is a leak (forward may-analysis over the structured CFG, null tests refine)."""
    n = 0
    for f in db.funcs:
        fl = f.file or ""
        if f.body is None or f.is_pattern or not ("Clipper2Lib" in fl or "clipper2" in fl):
            continue
        if not any(x.get("kind") == "CXXNewExpr" for x in walk(f.body)):
            continue
        cl = _Owned(db, f)
        Walker(cl).function(f.body, frozenset())
        if not cl.sites:
            continue
        n += cl.sites
        for vid, nm in sorted(cl.names.items(), key=lambda kv: str(kv[1])):
            bad = vid in cl.leaks
            chk.instance(rule, {"function": f.qual, "sig": f.sig[:50], "local": nm, "array": vid in cl.arrays, "cfg": cfg}, ok=not bad)
            if bad:
                at = cl.leaks[vid]
                chk.violation(rule, f.qual, "%s|%s" % (f.sig[:30], nm), "%s can leave%s with the block allocated into the local `%s` owned by nobody: it was neither stored, "
                              "handed to a call, returned nor deleted on that path - a leak" % (f.qual, (" at %s" % where(at)) if at is not None else " (at its end)", nm),
                              where(at) if at is not None else f.where, cfg=cfg)
    return n
