"""E4 - flat-array layout agreement and argument forwarding of the C export layer (C17).

LAYOUT  For every marshalling function the number of array elements produced /
        consumed / reserved is summarised as a *shape*
            c0 + sum_{paths, guard} ( c1 + c2 * N )            (paths layout)
            c0 + c2 * N + sum_{children} <recursion>           (polytree node layout)
        extracted from the AST (cursor advances per loop level for writers and
        readers, accumulated length formula for the sizing functions).  Writers,
        readers and sizing functions of one layout must have the same shape, in
        both EXPORT_VERTEX_DIMENSIONALITY configurations.
FORWARD For every exported function each parameter must reach the native
        parameter of the same meaning (resolved through declarations, constructor
        parameter names included), never one of a different meaning, and must
        not be dropped.
"""
import re

from ..astq import walk, kids, strip, qt, dqt, where, canon, if_parts
from ..evalx import Interp, Unsupported
from ..extract import AnalysisBroken

LOOPS = ("ForStmt", "WhileStmt", "CXXForRangeStmt", "DoStmt")
TREE_FAMILY = re.compile(r'^(CreateCPolyPath|GetPolyPathArrayLen)')


def _cursor_var(f):
    """The pointer variable that is advanced (++ / +=) in f."""
    cands = {}
    for x in walk(f.body):
        k = x.get("kind")
        tgt = None
        if k == "UnaryOperator" and x.get("opcode") in ("++",):
            tgt = strip(kids(x)[0])
        elif k == "CompoundAssignOperator" and x.get("opcode") == "+=":
            tgt = strip(kids(x)[0])
        if tgt is not None and tgt.get("kind") == "DeclRefExpr":
            t = dqt(tgt).replace("&", "").strip()
            if t.endswith("*"):
                cands[tgt["referencedDecl"]["id"]] = tgt["referencedDecl"].get("name")
    if len(cands) != 1:
        raise AnalysisBroken("cannot identify the cursor variable of %s (candidates %s)" % (f.qual, list(cands.values())))
    return list(cands.items())[0]


def _advances(node, cid, db):
    """Number of elements the cursor moves over in one evaluation of `node` (no control flow inside)."""
    n = 0
    for x in walk(node):
        k = x.get("kind")
        if k == "UnaryOperator" and x.get("opcode") == "++":
            t = strip(kids(x)[0])
            if t.get("kind") == "DeclRefExpr" and t["referencedDecl"]["id"] == cid:
                n += 1
        elif k == "CompoundAssignOperator" and x.get("opcode") == "+=":
            t = strip(kids(x)[0])
            if t.get("kind") == "DeclRefExpr" and t["referencedDecl"]["id"] == cid:
                try:
                    v = Interp(db, {}).ev(kids(x)[1])
                except Unsupported:
                    raise AnalysisBroken("cursor advanced by a non-constant amount at line %s" % x.get("line"))
                n += int(v)
        elif k == "UnaryOperator" and x.get("opcode") == "--":
            t = strip(kids(x)[0])
            if t.get("kind") == "DeclRefExpr" and t["referencedDecl"]["id"] == cid:
                raise AnalysisBroken("cursor moved backwards at line %s" % x.get("line"))
        elif (k == "VarDecl" and x.get("id") == cid) or (k == "BinaryOperator" and x.get("opcode") == "=" and strip(kids(x)[0]).get("kind") == "DeclRefExpr"
                                                         and strip(kids(x)[0])["referencedDecl"]["id"] == cid):
            # the cursor starts (or is re-based) K elements into the array:  T* v = base + K
            init = [c for c in kids(x) if isinstance(c, dict) and c.get("kind")]
            e = strip(init[-1]) if init else None
            if e is not None and e.get("kind") == "BinaryOperator" and e.get("opcode") == "+":
                a, b = strip(kids(e)[0]), strip(kids(e)[1])
                lit = b if b.get("kind") == "IntegerLiteral" else (a if a.get("kind") == "IntegerLiteral" else None)
                if lit is not None:
                    n += int(lit.get("value"))
    return n


def _is_size_test(e, negated):
    """`!x.size()` (negated) or `x.size()` / `x.size() > 0` ..."""
    e = strip(e)
    if negated:
        if e.get("kind") == "UnaryOperator" and e.get("opcode") == "!":
            return ".size()" in canon(kids(e)[0]) or ".empty()" in canon(kids(e)[0])
        return canon(e).endswith(".empty()")
    return canon(e).endswith(".size()") or re.search(r'\.size\(\) (>|!=) 0', canon(e)) is not None


def _loop_body(l):
    return kids(l)[0] if l.get("kind") == "DoStmt" else kids(l)[-1]


def _calls_family(node, db):
    for x in walk(node):
        if x.get("kind") in ("CallExpr",):
            nm = db.callee(x)[0] or ""
            if TREE_FAMILY.match(nm):
                return True
    return False


class Shape:
    def __init__(self):
        self.c0 = 0
        self.P = None      # {"guard": bool, "c1": int, "V": int}
        self.V0 = None     # vertex loop directly at the top level (single path / polytree node)
        self.C = False     # recursion over children
        self.notes = []

    def key(self):
        return (self.c0, (self.P["guard"], self.P["c1"], self.P["V"]) if self.P else None, self.V0, self.C)

    def per_path(self):
        """(header elements, elements per vertex) of one path record."""
        if self.P:
            return (self.P["c1"], self.P["V"])
        return (self.c0, self.V0)

    def __repr__(self):
        s = "%d" % self.c0
        if self.P:
            s += " + SUM_paths%s(%d + %d*N)" % ("[non-empty]" if self.P["guard"] else "", self.P["c1"], self.P["V"])
        if self.V0 is not None:
            s += " + %d*N" % self.V0
        if self.C:
            s += " + SUM_children(rec)"
        return s


def cursor_shape(db, f):
    """Shape of a writer / reader from its cursor advances."""
    cid, cname = _cursor_var(f)
    sh = Shape()

    def level(stmts, depth, in_tree):
        c = 0
        res = {"c": 0, "loops": []}
        for s in stmts:
            k = s.get("kind")
            if k in LOOPS:
                body = _loop_body(s)
                bst = kids(body) if body.get("kind") == "CompoundStmt" else [body]
                guard = False
                if bst and bst[0].get("kind") == "IfStmt":
                    cond, then, els = if_parts(bst[0])
                    t = then
                    while t.get("kind") == "CompoundStmt" and len(kids(t)) == 1:
                        t = kids(t)[0]
                    if t.get("kind") == "ContinueStmt" and els is None and _is_size_test(cond, True):
                        guard = True
                        bst = bst[1:]
                    elif els is None and _is_size_test(cond, False) and len(bst) == 1:
                        guard = True
                        bst = kids(then) if then.get("kind") == "CompoundStmt" else [then]
                # header advances (for-inc) are not used by this code base
                hdr = [x for x in kids(s)[:-1] if x]
                if any(_advances(h, cid, db) for h in hdr):
                    raise AnalysisBroken("cursor advanced in a loop header in %s" % f.qual)
                is_c = _calls_family(body, db) or any(db.callee(x)[0] == f.name for x in walk(body) if x.get("kind") == "CallExpr")
                sub = level(bst, depth + 1, in_tree)
                res["loops"].append({"guard": guard, "children": is_c, "sub": sub, "node": s})
            elif k == "IfStmt":
                cond, then, els = if_parts(s)
                a = _advances(then, cid, db) + (_advances(els, cid, db) if els else 0)
                if a:
                    raise AnalysisBroken("cursor advanced under a condition in %s line %s (unsupported shape)" % (f.qual, s.get("line")))
            elif k in ("ReturnStmt", "ContinueStmt", "BreakStmt", "NullStmt"):
                pass
            else:
                res["c"] += _advances(s, cid, db)
        return res

    top = level(kids(f.body), 0, False)
    sh.c0 = top["c"]
    for l in top["loops"]:
        sub = l["sub"]
        if l["children"]:
            sh.C = True
            if sub["c"] or sub["loops"]:
                # recursion passes the cursor by reference: the call itself advances nothing here
                if sub["c"]:
                    raise AnalysisBroken("cursor advanced inside the children loop of %s" % f.qual)
            continue
        if sub["loops"]:
            if len(sub["loops"]) != 1 or sub["loops"][0]["sub"]["loops"]:
                raise AnalysisBroken("unsupported loop nest in %s" % f.qual)
            inner = sub["loops"][0]
            if sh.P is not None:
                raise AnalysisBroken("two path loops in %s" % f.qual)
            sh.P = {"guard": l["guard"], "c1": sub["c"], "V": inner["sub"]["c"]}
        else:
            if sub["c"] == 0:
                continue
            if sh.V0 is not None:
                raise AnalysisBroken("two vertex loops in %s" % f.qual)
            sh.V0 = sub["c"]
    return sh


def length_shape(db, f, acc_name):
    """Shape of a sizing function from the formula accumulated into `acc_name`."""
    sh = Shape()

    def linear(expr):
        """(const, coefficient of .size()) of an integer expression."""
        vals = []
        for n in (0, 1, 2):
            hook = lambda name, args, node, n=n: n if name == "size" else NotImplemented
            try:
                vals.append(Interp(db, {}, call_hook=hook).ev(expr))
            except Unsupported as e:
                raise AnalysisBroken("cannot evaluate the length formula %s in %s: %s" % (canon(expr), f.qual, e))
        c, k = vals[0], vals[1] - vals[0]
        if vals[2] != c + 2 * k:
            raise AnalysisBroken("length formula %s is not linear in the vertex count" % canon(expr))
        return int(c), int(k)

    def is_acc(e):
        e = strip(e)
        return e.get("kind") == "DeclRefExpr" and e["referencedDecl"].get("name") == acc_name

    def scan(stmts, depth, target):
        for s in stmts:
            k = s.get("kind")
            s0 = strip(s)
            if k == "DeclStmt":
                for d in kids(s):
                    if d.get("kind") == "VarDecl" and d.get("name") == acc_name:
                        init = [c for c in kids(d) if c.get("kind")]
                        if init:
                            c, kk = linear(init[-1])
                            target["c"] += c
            elif s0.get("kind") == "BinaryOperator" and s0.get("opcode") == "=" and is_acc(kids(s0)[0]):
                rhs = kids(s0)[1]
                if any(x.get("kind") == "CallExpr" and TREE_FAMILY.match(db.callee(x)[0] or "") for x in walk(rhs)):
                    target["delegates"] = [db.callee(x)[0] for x in walk(rhs) if x.get("kind") == "CallExpr"][0]
                else:
                    c, kk = linear(rhs)
                    target["c"] += c
                    target["k"] += kk
            elif s0.get("kind") == "UnaryOperator" and s0.get("opcode") == "++" and is_acc(kids(s0)[0]):
                target["c"] += 1
            elif s0.get("kind") == "CompoundAssignOperator" and s0.get("opcode") == "+=" and is_acc(kids(s0)[0]):
                rhs = kids(s0)[1]
                if any(x.get("kind") == "CallExpr" and (TREE_FAMILY.match(db.callee(x)[0] or "") or db.callee(x)[0] == f.name) for x in walk(rhs)):
                    target["rec"] = True
                else:
                    c, kk = linear(rhs)
                    target["c"] += c
                    target["k"] += kk
            elif k in LOOPS:
                body = _loop_body(s)
                bst = kids(body) if body.get("kind") == "CompoundStmt" else [body]
                g_part = {"c": 0, "k": 0, "rec": False}
                u_part = {"c": 0, "k": 0, "rec": False}
                rest_guarded = False
                for st in bst:
                    if st.get("kind") == "IfStmt":
                        cond, then, els = if_parts(st)
                        t = then
                        while t.get("kind") == "CompoundStmt" and len(kids(t)) == 1:
                            t = kids(t)[0]
                        if t.get("kind") == "ContinueStmt" and els is None and _is_size_test(cond, True):
                            rest_guarded = True
                            continue
                        if els is None and _is_size_test(cond, False):
                            scan(kids(then) if then.get("kind") == "CompoundStmt" else [then], depth + 1, g_part)
                            continue
                    scan([st], depth + 1, g_part if rest_guarded else u_part)
                gz = not (g_part["c"] or g_part["k"] or g_part["rec"])
                uz = not (u_part["c"] or u_part["k"] or u_part["rec"])
                if uz:
                    guard, sub = (not gz), g_part
                elif gz:
                    guard, sub = False, u_part
                else:
                    guard = "mixed"
                    sub = {"c": g_part["c"] + u_part["c"], "k": g_part["k"] + u_part["k"], "rec": g_part["rec"] or u_part["rec"],
                           "mixed": "guarded part %d+%d*N, unguarded part %d+%d*N" % (g_part["c"], g_part["k"], u_part["c"], u_part["k"])}
                target.setdefault("loops", []).append({"guard": guard, "sub": sub})
            elif k == "IfStmt":
                cond, then, els = if_parts(s)
                inner = {"c": 0, "k": 0, "rec": False}
                scan(kids(then) if then.get("kind") == "CompoundStmt" else [then], depth, inner)
                if inner["c"] or inner["k"] or inner.get("loops"):
                    raise AnalysisBroken("length accumulated under a condition in %s (unsupported shape)" % f.qual)

    top = {"c": 0, "k": 0, "rec": False}
    scan(kids(f.body), 0, top)
    sh.c0 = top["c"]
    if top["k"]:
        sh.V0 = top["k"]
    for l in top.get("loops", []):
        sub = l["sub"]
        if sub.get("rec"):
            sh.C = True
            continue
        if sub["c"] or sub["k"]:
            sh.P = {"guard": l["guard"], "c1": sub["c"], "V": sub["k"]}
            if sub.get("mixed"):
                sh.notes.append(sub["mixed"])
    sh.delegates = top.get("delegates")
    return sh


# ---------------------------------------------------------------------------
# the layout rule
# ---------------------------------------------------------------------------

def rule_layout(db, chk, cfg):
    dim_decl = [n for n, q, c in db.globals if n.get("name") == "EXPORT_VERTEX_DIMENSIONALITY"]
    if not dim_decl:
        raise AnalysisBroken("EXPORT_VERTEX_DIMENSIONALITY not found")
    dim = int([x for x in walk(dim_decl[0]) if x.get("kind") == "IntegerLiteral"][0]["value"])
    funcs = {}

    def get(q, inst=None):
        fs = db.find(q, inst=inst)
        return fs

    shapes = {}
    # ---- paths layout -----------------------------------------------------------
    writers = [("CreateCPathsFromPathsT", f) for f in get("CreateCPathsFromPathsT")] + \
              [("CreateCPathsDFromPathsD", db.one("CreateCPathsDFromPathsD")), ("CreateCPathsDFromPaths64", db.one("CreateCPathsDFromPaths64"))]
    readers = [("ConvertCPathsToPathsT", f) for f in get("ConvertCPathsToPathsT")] + [("ConvertCPathsDToPaths64", db.one("ConvertCPathsDToPaths64"))]
    sizers = [("GetPathCountAndCPathsArrayLen", f) for f in get("GetPathCountAndCPathsArrayLen")]
    single_readers = [("ConvertCPathToPathT", f) for f in get("ConvertCPathToPathT")] + \
                     [("ConvertCPathDToPath64WithScale", db.one("ConvertCPathDToPath64WithScale"))]
    ref = None
    for role, lst in (("sizer", sizers), ("writer", writers), ("reader", readers)):
        for name, f in lst:
            sh = length_shape(db, f, "array_len") if role == "sizer" else cursor_shape(db, f)
            shapes[(name, f.sig)] = sh
            problems = []
            if sh.P is None:
                problems.append("no per-path record found")
            else:
                if sh.c0 != 2:
                    problems.append("array header has %d elements, the layout documents 2 (A, C)" % sh.c0)
                if sh.P["c1"] != 2:
                    problems.append("path header has %d elements, the layout documents 2 (N, 0)" % sh.P["c1"])
                if sh.P["V"] != dim:
                    problems.append("%d elements per vertex, EXPORT_VERTEX_DIMENSIONALITY is %d" % (sh.P["V"], dim))
                if sh.P["guard"] == "mixed":
                    problems.append("part of the per-path length is counted for empty paths and part is not (%s)" % "; ".join(sh.notes))
                elif role in ("sizer", "writer") and not sh.P["guard"]:
                    problems.append("empty paths are not skipped (the count C and the length A are computed for non-empty paths only)")
                if role == "reader" and sh.P["guard"]:
                    problems.append("reader skips records conditionally")
            ok = not problems
            chk.instance("LAYOUT.paths", {"function": name, "sig": f.sig[:70], "role": role, "shape": repr(sh), "dim": dim, "cfg": cfg}, ok=ok)
            if not ok:
                chk.violation("LAYOUT.paths", name, role, "%s of the CPaths layout has shape [%s]: %s" % (role, sh, "; ".join(problems)),
                              f.where, cfg=cfg)
    # the stored path count C must count exactly the records that are written (same guard)
    for name, f in sizers:
        shc = length_shape(db, f, "cnt")
        problems = []
        if shc.c0 != 0 or shc.P is None or shc.P["c1"] != 1 or shc.P["V"] != 0:
            problems.append("count has shape [%s], expected SUM_paths[non-empty](1)" % shc)
        elif shc.P["guard"] is not True:
            problems.append("the count includes empty paths, but writers and the array length skip them: readers would walk past the end")
        chk.instance("LAYOUT.count", {"function": name, "sig": f.sig[:70], "shape": repr(shc), "cfg": cfg}, ok=not problems)
        if problems:
            chk.violation("LAYOUT.count", name, "C", "; ".join(problems), f.where, cfg=cfg)
    for name, f in single_readers:
        sh = cursor_shape(db, f)
        problems = []
        if sh.c0 != 2:
            problems.append("skips %d header elements, a CPath record has 2 (N, 0)" % sh.c0)
        if sh.V0 != dim:
            problems.append("%s elements per vertex, EXPORT_VERTEX_DIMENSIONALITY is %d" % (sh.V0, dim))
        chk.instance("LAYOUT.path", {"function": name, "sig": f.sig[:70], "shape": repr(sh), "dim": dim, "cfg": cfg}, ok=not problems)
        if problems:
            chk.violation("LAYOUT.path", name, "reader", "reader of the CPath layout has shape [%s]: %s" % (sh, "; ".join(problems)), f.where, cfg=cfg)
    # ---- polytree layout ------------------------------------------------------------
    for suffix in ("64", "D"):
        w = db.one("CreateCPolyPath" + suffix)
        s = db.one("GetPolyPathArrayLen" + suffix)
        t = db.one("CreateCPolyTree" + suffix)
        g = db.one("GetPolytreeCountAndCStorageSize" + suffix)
        shw, shs, sht = cursor_shape(db, w), length_shape(db, s, "result"), cursor_shape(db, t)
        shg = length_shape(db, g, "array_len")
        for name, f, sh, role in (("CreateCPolyPath" + suffix, w, shw, "writer"), ("GetPolyPathArrayLen" + suffix, s, shs, "sizer")):
            problems = []
            if sh.c0 != 2:
                problems.append("node header has %d elements, the layout documents 2 (N, C)" % sh.c0)
            if sh.V0 != dim:
                problems.append("%s elements per vertex, EXPORT_VERTEX_DIMENSIONALITY is %d" % (sh.V0, dim))
            if not sh.C:
                problems.append("children are not included")
            chk.instance("LAYOUT.polytree", {"function": name, "role": role, "shape": repr(sh), "dim": dim, "cfg": cfg}, ok=not problems)
            if problems:
                chk.violation("LAYOUT.polytree", name, role, "%s of the CPolyPath layout has shape [%s]: %s" % (role, sh, "; ".join(problems)),
                              f.where, cfg=cfg)
        problems = []
        if sht.c0 != 2 or not sht.C:
            problems.append("tree writer has shape [%s], expected 2 + children" % sht)
        if getattr(shg, "delegates", None) != "GetPolyPathArrayLen" + suffix:
            problems.append("array length is not computed by GetPolyPathArrayLen%s (got %s)" % (suffix, getattr(shg, "delegates", None)))
        chk.instance("LAYOUT.polytree", {"function": t.qual, "role": "tree writer", "shape": repr(sht), "sized_by": getattr(shg, "delegates", None),
                                         "cfg": cfg}, ok=not problems)
        if problems:
            chk.violation("LAYOUT.polytree", t.qual, "tree", "; ".join(problems), t.where, cfg=cfg)
    # ---- header slots: first element = allocated length, second = count --------------------
    for name, f in writers + [("CreateCPolyTree64", db.one("CreateCPolyTree64")), ("CreateCPolyTreeD", db.one("CreateCPolyTreeD"))]:
        cid, cname = _cursor_var(f)
        news = [x for x in walk(f.body) if x.get("kind") == "CXXNewExpr" and x.get("isArray")]
        stores = []
        for s in kids(f.body):
            s0 = strip(s)
            if s0.get("kind") == "BinaryOperator" and s0.get("opcode") == "=" and _advances(kids(s0)[0], cid, db) == 1:
                stores.append(kids(s0)[1])
        problems = []
        if len(news) != 1:
            problems.append("expected exactly one array allocation")
        else:
            size_expr = [c for c in kids(news[0]) if c.get("kind")]
            sz = canon(size_expr[0]) if size_expr else "?"
            if len(stores) < 2:
                problems.append("fewer than two header stores at the top level")
            else:
                s0 = re.sub(r'^cast<[^>]*>\((.*)\)$', r'\1', canon(stores[0]))
                if s0 != sz:
                    problems.append("first element stores %s but the array is allocated with %s elements" % (s0, sz))
        chk.instance("LAYOUT.header", {"function": name, "alloc": sz if len(news) == 1 else None, "cfg": cfg}, ok=not problems)
        if problems:
            chk.violation("LAYOUT.header", name, "A", "; ".join(problems), f.where, cfg=cfg)
    return dim


# ---------------------------------------------------------------------------
# forwarding
# ---------------------------------------------------------------------------

# meaning classes: exported parameter name -> native parameter names (by declaration) it must reach
MEANING = {
    "cliptype": {"clip_type"}, "fillrule": {"fill_rule"},
    "subjects": {"subjects"}, "subjects_open": {"open_subjects"}, "clips": {"clips"},
    "preserve_collinear": {"preserve_collinear", "val@PreserveCollinear"},
    "reverse_solution": {"reverse_solution", "val@ReverseSolution"},
    "precision": {"precision", "__y@pow", "y@pow"},
    "delta": {"delta"}, "arc_tolerance": {"arc_tolerance"}, "miter_limit": {"miter_limit"},
    "jointype": {"jt_"}, "endtype": {"et_"},
    # a list of paths is handed over as a list (AddPaths: one group, orientation decided for the whole set), a single path as a path
    "rect": {"rect"}, "paths": {"paths"}, "path": {"path"},
    "is_closed": {"isClosed"}, "cpattern": {"pattern"}, "cpath": {"path"},
}
OUTPUTS = {"solution", "solution_open", "sol_tree"}
# native parameter names that carry a meaning (a parameter arriving at one of these must be of the same class)
ALL_SLOTS = set()
for _k, _v in MEANING.items():
    ALL_SLOTS |= _v
GEOM_SLOTS = {"subjects", "open_subjects", "clips", "paths", "path", "pattern", "rect"}
PASS_THROUGH = re.compile(r'^(ConvertC|CRectToRect|ScaleRect|ScalePath|ScalePaths|CreateC|move|forward)')


def rule_forward(db, chk, cfg, exported):
    n = 0
    for f in exported:
        if f.name in ("Version", "DisposeArray64", "DisposeArrayD", "SetZCallback64", "SetZCallbackD"):
            continue
        pnames = {p["id"]: p.get("name") for p in f.params}
        origin = {pid: {nm} for pid, nm in pnames.items()}     # decl id -> set of exported params flowing in

        def orig(e):
            s = set()
            skip = set()
            for x in walk(e):
                if x.get("kind") == "CallExpr" and db.callee(x)[0] == "pow":
                    # pow(10, precision) yields the scale, a new quantity: precision is consumed here
                    for y in walk(x):
                        skip.add(id(y))
                if id(x) in skip:
                    continue
                if x.get("kind") == "DeclRefExpr":
                    did = x.get("referencedDecl", {}).get("id")
                    if did in origin:
                        s |= origin[did]
            return s

        reached = {nm: set() for nm in pnames.values()}
        out_assigned = {}
        # walk statements in order, propagate origins through locals, record sinks
        for s in walk(f.body):
            k = s.get("kind")
            if k == "VarDecl" and "id" in s:
                init = [c for c in kids(s) if c.get("kind")]
                o = set()
                for c in init:
                    o |= orig(c)
                origin[s["id"]] = o
            elif k == "BinaryOperator" and s.get("opcode") == "=" or (k == "CXXOperatorCallExpr" and canon(s).find(" = ") > 0 and len(kids(s)) == 3):
                ks = kids(s)
                lhs, rhs = (ks[0], ks[1]) if k == "BinaryOperator" else (ks[1], ks[2])
                l0 = strip(lhs)
                if l0.get("kind") == "DeclRefExpr":
                    did = l0["referencedDecl"]["id"]
                    if did in pnames and pnames[did] in OUTPUTS:
                        out_assigned[pnames[did]] = canon(rhs)
                    else:
                        origin[did] = origin.get(did, set()) | orig(rhs)
        for c in walk(f.body):
            k = c.get("kind")
            if k not in ("CallExpr", "CXXMemberCallExpr", "CXXConstructExpr", "CXXTemporaryObjectExpr"):
                continue
            name = db.callee(c)[0] or ""
            if k in ("CXXConstructExpr", "CXXTemporaryObjectExpr"):
                from .e5_errors import _ctor_func
                g = _ctor_func(db, c)
                name = dqt(c).replace("Clipper2Lib::", "")
            else:
                g = db.callee_func(c)
            args = db.call_args(c)
            if g is None:
                # std / libm: only pow matters
                if name == "pow" and len(args) == 2:
                    for o in orig(args[1]):
                        reached[o].add("y@pow")
                continue
            if g.file and "/clipper2/" not in g.file and "/Clipper2Lib/" not in g.file:
                continue
            if PASS_THROUGH.match(g.name):
                continue
            for i, a in enumerate(args):
                if i >= len(g.params):
                    break
                pn = g.params[i].get("name") or ""
                slot = pn
                if g.name in ("PreserveCollinear", "ReverseSolution"):
                    slot = "val@" + g.name
                for o in orig(a):
                    reached[o].add(slot)
        # FORWARD.unconditional: whether a geometry input is handed to the native object may depend on that input only (`if (clp.size() > 0)
        # AddClip(clp)`), not on the other inputs - the native operation defines what an empty subject or clip means
        par = {}
        for x in walk(f.body):
            for c0 in kids(x):
                if isinstance(c0, dict):
                    par[id(c0)] = x
        for c in walk(f.body):
            if c.get("kind") != "CXXMemberCallExpr" or db.callee(c)[0] not in ("AddSubject", "AddOpenSubject", "AddClip", "AddPaths", "AddPath"):
                continue
            args = db.call_args(c)
            if not args:
                continue
            own = orig(args[0])
            p0 = par.get(id(c))
            foreign = set()
            guard = None
            while p0 is not None:
                if p0.get("kind") == "IfStmt":
                    from ..astq import if_parts
                    cond = if_parts(p0)[0]
                    extra = {o for o in orig(cond) if o not in own and MEANING.get(o, set()) & GEOM_SLOTS}
                    if extra:
                        foreign |= extra
                        guard = cond
                p0 = par.get(id(p0))
            n += 1
            ok = not foreign
            chk.instance("FORWARD.param", {"function": f.qual, "call": canon(c)[:50], "forwards": sorted(own), "guarded_by_other_inputs": sorted(foreign), "cfg": cfg}, ok=ok)
            if not ok:
                chk.violation("FORWARD.param", f.qual, "%s|guard" % db.callee(c)[0],
                              "`%s` is only reached when `%s` holds, a condition on another input (%s): the exported function no longer hands %s to the native "
                              "operation in every case in which the native API would take it" % (canon(c)[:50], canon(guard)[:70], ", ".join(sorted(foreign)), ", ".join(sorted(own))),
                              where(c), cfg=cfg)
        for p in f.params:
            nm = p.get("name")
            if nm in OUTPUTS:
                n += 1
                ok = nm in out_assigned and "Create" in out_assigned[nm]
                chk.instance("FORWARD.output", {"function": f.qual, "output": nm, "assigned": out_assigned.get(nm), "cfg": cfg}, ok=ok)
                if not ok:
                    chk.violation("FORWARD.output", f.qual, nm, "output parameter '%s' is not assigned a marshalled result" % nm, f.where, cfg=cfg)
                continue
            if nm not in MEANING:
                raise AnalysisBroken("exported parameter '%s' of %s has no entry in the forwarding table" % (nm, f.qual))
            n += 1
            want = MEANING[nm]
            got = reached.get(nm, set())
            wrong = sorted(s for s in got if s in ALL_SLOTS and s not in want)
            hit = sorted(s for s in got if s in want)
            ok = bool(hit) and not wrong
            chk.instance("FORWARD.param", {"function": f.qual, "param": nm, "reaches": sorted(got), "cfg": cfg}, ok=ok)
            if wrong:
                chk.violation("FORWARD.param", f.qual, nm,
                              "exported parameter '%s' is passed to the native parameter '%s', which has a different meaning%s"
                              % (nm, wrong[0], "" if hit else " (and it never reaches '%s')" % "/".join(sorted(want))), f.where, cfg=cfg)
            elif not hit:
                chk.violation("FORWARD.param", f.qual, nm,
                              "exported parameter '%s' never reaches a native parameter of its meaning (%s); it reaches %s"
                              % (nm, "/".join(sorted(want)), sorted(got) or "nothing"), f.where, cfg=cfg)
    return n


def rule_z_codec(db, chk, cfg, rule="LAYOUT.z-codec"):
    """USINGZ builds: the third slot of a vertex carries the 64-bit Z value *bit for bit* (the array's element type may be double).
    Every writer must store it through Reinterpret<element type>(pt.z) and every reader must load it through Reinterpret<z_type>(slot)
    (or a plain copy when both sides have the same type): a value conversion on one side and a bit copy on the other do not round-trip."""
    n = 0
    for f in db.funcs:
        if f.body is None or f.is_pattern or not (f.file or "").endswith("clipper.export.h"):
            continue
        for x in walk(f.body):
            # writers: <slot> = <expr with .z>
            if x.get("kind") == "BinaryOperator" and x.get("opcode") == "=":
                l, r = kids(x)
                ls = strip(l)
                if not (ls.get("kind") == "UnaryOperator" and ls.get("opcode") == "*"):
                    continue
                zs = [y for y in walk(r) if y.get("kind") == "MemberExpr" and y.get("name") == "z"]
                if not zs:
                    continue
                rs = strip(r)
                ok = False
                how = canon(r)
                if rs.get("kind") == "CallExpr" and db.callee(rs)[0] == "Reinterpret":
                    a = db.call_args(rs)
                    ok = len(a) == 1 and strip(a[0]).get("kind") == "MemberExpr" and strip(a[0]).get("name") == "z" and dqt(rs) == dqt(ls)
                elif rs.get("kind") == "MemberExpr" and rs.get("name") == "z":
                    ok = dqt(rs).replace("const ", "") == dqt(ls).replace("const ", "")      # same type: a plain copy keeps the bits
                n += 1
                chk.instance(rule, {"function": f.qual, "sig": f.sig[:60], "side": "writer", "store": canon(x)[:70], "cfg": cfg}, ok=ok)
                if not ok:
                    chk.violation(rule, f.qual, "%s|writer|%s" % (f.sig[:40], how[:40]),
                                  "the Z slot is written as `%s`: not a bit copy of pt.z into the element type %s (the readers decode the slot with "
                                  "Reinterpret<z_type>), so Z does not survive the round trip" % (canon(x)[:80], dqt(ls)), where(x), cfg=cfg)
            # readers: z_type z = <expr reading a slot>
            if x.get("kind") == "VarDecl" and x.get("name") == "z":
                init = [c for c in kids(x) if isinstance(c, dict) and c.get("kind")]
                if not init:
                    continue
                r = strip(init[-1])
                derefs = [y for y in walk(r) if y.get("kind") == "UnaryOperator" and y.get("opcode") == "*"]
                if not derefs:
                    continue
                ok = False
                if r.get("kind") == "CallExpr" and db.callee(r)[0] == "Reinterpret":
                    ok = dqt(r) == dqt(x) or qt(r) == qt(x)
                elif r.get("kind") == "UnaryOperator" and r.get("opcode") == "*":
                    ok = dqt(r).replace("const ", "") == dqt(x).replace("const ", "")
                n += 1
                chk.instance(rule, {"function": f.qual, "sig": f.sig[:60], "side": "reader", "load": canon(x)[:70], "cfg": cfg}, ok=ok)
                if not ok:
                    chk.violation(rule, f.qual, "%s|reader" % f.sig[:40], "the Z slot is read as `%s`: not a bit copy into z_type (the writers store "
                                  "the slot with Reinterpret), so Z does not survive the round trip" % canon(x)[:80], where(x), cfg=cfg)
    return n


def _advanced_in(body, vid):
    for y in walk(body):
        if y.get("kind") == "UnaryOperator" and y.get("opcode") in ("++", "--"):
            o = strip(kids(y)[0])
        elif y.get("kind") == "CompoundAssignOperator" and y.get("opcode") in ("+=", "-="):
            o = strip(kids(y)[0])
        else:
            continue
        if o.get("kind") == "DeclRefExpr" and o.get("referencedDecl", {}).get("id") == vid:
            return True
    return False


def _in_loop(body, call):
    for y in walk(body):
        if y.get("kind") in ("ForStmt", "WhileStmt", "DoStmt", "CXXForRangeStmt"):
            if any(z is call for z in walk(y)):
                return True
    return False


def rule_cursor_threaded(db, chk, cfg, rule="LAYOUT.cursor"):
    """The writers share one cursor into the flat array.  A writer either takes it by reference (then every call advances the caller's
    cursor by construction), or takes it by value and hands the next position back - then every call must store the returned position
    into the very cursor it passed, otherwise the next record overwrites the one just written.  Decided for every function of
    clipper.export.h that has a pointer-to-element parameter and is called from the file."""
    n = 0
    fns = [f for f in db.funcs if f.body is not None and not f.is_pattern and (f.file or "").endswith("clipper.export.h")]
    for g in fns:
        ret_t = g.sig.split("(")[0].strip()
        cur_idx = None
        for i, p0 in enumerate(g.params):
            t = qt(p0).strip()
            if t.endswith("*&"):
                cur_idx = ("ref", i)
            elif t.endswith("*") and t.replace("const ", "") == ret_t.replace("const ", "") and any(
                    y.get("kind") == "ReturnStmt" and kids(y) and canon(kids(y)[0]) == p0.get("name") for y in walk(g.body)):
                cur_idx = ("val", i)
        if cur_idx is None:
            # a writer that advances a by-value pointer to mutable elements and does not hand the position back: its caller's
            # cursor stays where it was
            for i, p0 in enumerate(g.params):
                t = qt(p0).strip()
                if t.endswith("*") and not t.startswith("const ") and _advanced_in(g.body, p0.get("id")):
                    cur_idx = ("lost", i)
        if cur_idx is None:
            continue
        for f in fns:
            for c in walk(f.body):
                if c.get("kind") != "CallExpr" or db.callee_func(c) is None or db.callee_func(c).id != g.id:
                    continue
                n += 1
                ok = True
                why = ""
                if cur_idx[0] == "val":
                    arg = canon(db.call_args(c)[cur_idx[1]])
                    # find the assignment this call is the right-hand side of
                    ok = False
                    for y in walk(f.body):
                        if y.get("kind") == "BinaryOperator" and y.get("opcode") == "=" and strip(kids(y)[1]) is c and canon(kids(y)[0]) == arg:
                            ok = True
                        if y.get("kind") == "ReturnStmt" and kids(y) and strip(kids(y)[0]) is c:
                            ok = True
                    why = "the next write position it returns is not stored back into `%s`" % arg
                elif cur_idx[0] == "lost":
                    a = strip(db.call_args(c)[cur_idx[1]])
                    vid = a.get("referencedDecl", {}).get("id") if a.get("kind") == "DeclRefExpr" else None
                    # the caller goes on using the cursor it passed (advances it, or passes it to a writer again - the recursion
                    # and a call in a loop included)
                    again = vid is not None and (_advanced_in(f.body, vid) or _in_loop(f.body, c) or sum(
                        1 for y in walk(f.body) if y.get("kind") == "CallExpr" and y is not c and any(
                            strip(z).get("kind") == "DeclRefExpr" and strip(z)["referencedDecl"].get("id") == vid for z in db.call_args(y))) > 0)
                    ok = not again
                    why = "does not hand the next position back, while the caller goes on writing at `%s`" % canon(a)
                chk.instance(rule, {"writer": g.qual, "caller": f.qual, "cursor_passed": cur_idx[0], "call": canon(c)[:60], "cfg": cfg}, ok=ok)
                if not ok:
                    chk.violation(rule, f.qual, "%s|%s" % (g.name, canon(c)[:40]), "`%s` in %s: %s takes the write cursor by value and %s: the following record is "
                                  "written over this one" % (canon(c)[:70], f.qual, g.name, why), where(c), cfg=cfg)
    if n < 2:
        raise AnalysisBroken("LAYOUT.cursor: only %d calls of cursor-taking writers found" % n)
    return n


# ---------------------------------------------------------------------------
# FORWARD.native: an exported twin calls its own native operation, not its sibling's
# ---------------------------------------------------------------------------

TWINS = [("RectClip", "RectClipLines"), ("MinkowskiSum", "MinkowskiDiff")]


def rule_native_twin(db, chk, cfg, exported, rule="FORWARD.native"):
    """The export header offers pairs of operations with identical signatures (RectClip / RectClipLines, MinkowskiSum /
    MinkowskiDiff).  Parameter forwarding cannot tell the members of a pair apart, so the callee is checked: the exported function
    named X64 / XD uses the native X (a function X or a class X64) and does not use its twin."""
    n = 0
    for f in exported:
        base = re.sub(r"(64|D)$", "", f.name)
        twin = None
        for a, b in TWINS:
            if base == a:
                twin = b
            elif base == b:
                twin = a
        if twin is None:
            continue
        used = set()
        for x in walk(f.body):
            k = x.get("kind")
            if k in ("CallExpr", "CXXMemberCallExpr"):
                used.add(db.callee(x)[0])
            if k in ("CXXConstructExpr", "CXXTemporaryObjectExpr", "VarDecl"):
                t = (dqt(x) or qt(x) or "").replace("class ", "").replace("Clipper2Lib::", "").replace("const ", "").strip()
                used.add(t)
        own = {base, base + "64"} & used
        other = {twin, twin + "64"} & used
        n += 1
        ok = bool(own) and not other
        chk.instance(rule, {"export": f.name, "native_used": sorted(own), "twin_used": sorted(other), "cfg": cfg}, ok=ok)
        if not ok:
            chk.violation(rule, f.qual, f.name, "exported %s %s: the caller gets the result of the other operation of the pair"
                          % (f.name, ("uses %s" % ", ".join(sorted(other))) if other else ("does not use the native %s / %s64" % (base, base))), f.where, cfg=cfg)
    if n < 6:
        raise AnalysisBroken("%s: only %d exported twin operations found (configuration %s)" % (rule, n, cfg))
    return n
