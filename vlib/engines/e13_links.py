"""E13 - link consistency of the output rings at every point where an exception can leave the engine (C10).

The engine owns its output vertices (OutPt) through OutRec::pts; each OutRec's vertices form a circular doubly linked
list.  ~ClipperBase -> CleanUp -> DisposeAllOutRecs -> DisposeOutPts walks `pts->next->next...` after cutting
`pts->prev->next`, deleting every node once.  That walk is memory-safe iff the nodes reachable from every OutRec::pts are
*locally consistent*: n->next->prev == n and n->prev->next == n.  (On a finite heap where this holds for every reachable
node, `next` is injective on the reachable set, so the walk from pts returns to pts and meets every node once.)

The sweep re-links rings in a handful of functions.  Inside such a function the invariant is broken for a few statements;
what matters for the allocation-failure clause of C10 is that it holds again at every statement that can throw
(operator new, a growing container, a user callback) and when the function returns.  This engine decides exactly that:

  * a small symbolic heap: node terms are parameters / entry values of fields (`splitOp`, `splitOp->next@entry`) and the
    objects created by `new` in the function; a store holds the fields written so far; a field never written reads as its
    entry value, and the entry heap satisfies the invariant (E(E(x,next),prev) = x, E(E(x,prev),next) = x);
  * every path of the function is executed over that heap (conditions fork; small loop-free callees that re-link rings
    are inlined; loops are cut at their head and at their back edges / exits, where the invariant is checked and then
    assumed: it is the loop invariant);
  * at every throw point and at every exit, each node that is not *provably orphaned* (no OutRec::pts written in the function
    points to it, and every node whose `next` points to it is itself orphaned) must be consistent and not deleted;
    `delete x` requires x to be provably orphaned at that point.

Assumption (stated in the evidence): distinct access paths denote distinct nodes, i.e. the rings are large enough for
`op->prev`, `op`, `op->next`, `op->next->next` to be four different vertices.  Under it a reported inconsistency is a
real one on every input that reaches the path with such a ring.  NOT decided: that two OutRecs never own the same ring
(disjointness), termination of the ring walks, anything about the Active/Vertex/LocalMinima graphs.
"""
from ..astq import walk, kids, strip, canon, qt, where, if_parts
from ..extract import AnalysisBroken

RING_FIELDS = ("next", "prev")
ALLOC_METHODS = ("emplace_back", "push_back", "resize", "reserve", "insert", "push", "emplace", "assign")
# functions that tear a whole ring down: they legitimately leave `prev->next == nullptr` while they run.  They must not
# contain a throw point (checked), and a call to one is modelled as "pts of the argument becomes null".
DISPOSERS = {"DisposeOutPts": "cuts the ring at pts->prev and deletes every vertex, then nulls pts",
             "ReverseOutPts": "exchanges next and prev of every vertex of one ring (half-reversed while it runs; no caller at present)"}
MAX_PATHS = 20000
MAX_INLINE_DEPTH = 3

NULL = ("null",)


def is_node(t):
    return isinstance(t, tuple) and t[0] in ("var", "E", "fresh")


def norm(t):
    if isinstance(t, tuple) and t[0] == "E":
        b = t[1]
        f = t[2]
        if isinstance(b, tuple) and b[0] == "E" and f in RING_FIELDS and b[2] in RING_FIELDS and b[2] != f:
            return b[1]
    return t


def show(t):
    if not isinstance(t, tuple):
        return str(t)
    if t[0] == "var":
        return t[1]
    if t[0] == "E":
        return "%s->%s@entry" % (show(t[1]).replace("@entry", ""), t[2])
    if t[0] == "fresh":
        return "new@%s(%s)" % (t[1], t[2])
    if t[0] == "null":
        return "nullptr"
    return "?"


class State:
    __slots__ = ("env", "store", "dead", "trace", "ringtyped")

    def __init__(self):
        self.env = {}
        self.store = {}
        self.dead = frozenset()
        self.trace = ()
        self.ringtyped = frozenset()     # nodes whose next/prev were written through an OutPt-typed expression

    def copy(self):
        s = State()
        s.env = dict(self.env)
        s.store = dict(self.store)
        s.dead = self.dead
        s.trace = self.trace
        s.ringtyped = self.ringtyped
        return s

    def key(self):
        return (tuple(sorted(self.env.items(), key=repr)), tuple(sorted(self.store.items(), key=repr)), self.dead)

    def read(self, node, f):
        if (node, f) in self.store:
            return self.store[(node, f)]
        if is_node(node) and node[0] != "fresh":
            return norm(("E", node, f))
        return ("opq",)


class Analyzer:
    def __init__(self, db, chk, cfg, rule, lib_files=("clipper.engine.cpp",)):
        self.db = db
        self.chk = chk
        self.cfg = cfg
        self.rule = rule
        self.ctx = []
        self.loopn = 0
        self.lib_files = lib_files
        self._direct = {}
        self._trans = {}
        self._alloc = {}
        self.root = None
        self.ncheck = 0
        self.npaths = 0
        self.reported = set()
        self.checkpoints = set()

    # ---- classification of functions ------------------------------------------------------------
    @staticmethod
    def _ring_write(x):
        """(field, base expr) if x assigns OutPt::next / OutPt::prev / OutRec::pts."""
        if x.get("kind") != "BinaryOperator" or x.get("opcode") != "=":
            return None
        l = strip(kids(x)[0])
        if l.get("kind") != "MemberExpr" or not kids(l):
            return None
        bt = qt(strip(kids(l)[0])) or qt(kids(l)[0])
        nm = l.get("name")
        if nm in RING_FIELDS and "OutPt" in bt and "OutPt2" not in bt:
            return nm
        if nm == "pts" and "OutRec" in bt:
            return nm
        return None

    def direct_writer(self, f):
        if f.id not in self._direct:
            self._direct[f.id] = bool(f.body) and any(self._ring_write(x) for x in walk(f.body))
        return self._direct[f.id]

    def _callees(self, f):
        out = []
        for x in walk(f.body):
            if x.get("kind") in ("CallExpr", "CXXMemberCallExpr", "CXXOperatorCallExpr"):
                g = self.db.callee_func(x)
                if g is not None and g.body is not None:
                    out.append(g)
        return out

    def writer(self, f, seen=None):
        """f writes ring links, directly or through callees."""
        if f.id in self._trans:
            return self._trans[f.id]
        seen = seen or set()
        if f.id in seen:
            return False
        seen.add(f.id)
        r = self.direct_writer(f) or any(self.writer(g, seen) for g in self._callees(f))
        self._trans[f.id] = r
        return r

    def may_alloc(self, f, seen=None):
        if f.id in self._alloc:
            return self._alloc[f.id]
        seen = seen or set()
        if f.id in seen:
            return False
        seen.add(f.id)
        r = False
        for x in walk(f.body):
            k = x.get("kind")
            if k == "CXXNewExpr":
                r = True
            elif k in ("CallExpr", "CXXMemberCallExpr", "CXXOperatorCallExpr"):
                if self._throwing_leaf(x):
                    r = True
                else:
                    g = self.db.callee_func(x)
                    if g is not None and g.body is not None and self._is_lib(g) and self.may_alloc(g, seen):
                        r = True
            if r:
                break
        self._alloc[f.id] = r
        return r

    def _is_lib(self, f):
        return "clipper2" in (f.file or "").lower() or "Clipper2Lib" in (f.file or "")

    def _throwing_leaf(self, call):
        """A call that can throw by itself: a growing std container, or a std::function (user callback)."""
        name, did, kind = self.db.callee(call)
        if call.get("kind") == "CXXMemberCallExpr" and name in ALLOC_METHODS:
            base = self.db.member_base(call)
            bt = qt(strip(base)) if base is not None else ""
            if "std::" in bt or "vector" in bt or "List" in bt or "deque" in bt or "queue" in bt or "Paths" in bt or "Path" in bt:
                return "container %s()" % name
        if call.get("kind") == "CXXOperatorCallExpr" and name == "operator()":
            args = self.db.call_args(call)
            if args and "function" in (qt(strip(args[0])) + qt(args[0])):
                return "user callback"
        return None

    @staticmethod
    def has_loop(f):
        return any(x.get("kind") in ("ForStmt", "WhileStmt", "DoStmt", "CXXForRangeStmt") for x in walk(f.body))

    # ---- values ---------------------------------------------------------------------------------
    def new_opq(self, why=""):
        return ("opq",)

    def new_fresh(self, label, node):
        # identified by the allocation site and the chain of inlined calls leading to it, so that equal states on different
        # paths are recognised as equal
        site = "/".join(self.ctx + ["%s.%s" % (node.get("line") or node.get("l0") or "", node.get("col") or "")])
        return ("fresh", site, label)

    # ---- the check ------------------------------------------------------------------------------
    def _orphan(self, st, n, roots, preds, visiting, depth=0):
        """True iff n is provably unreachable from every OutRec::pts: it is no root, and every node whose `next` points to it
        (its entry predecessor unless that one's next was overwritten, and every node given a next pointing here) is itself
        unreachable.  A backward chain that leaves the nodes the function has named is an untouched part of a live ring."""
        if n in roots:
            return False
        if n in visiting:
            return True
        if depth > 6:
            return False
        visiting = visiting | {n}
        ps = list(preds.get(n, ()))
        if n[0] != "fresh":
            if n[0] == "E" and n[2] == "pts" and (n[1], "pts") not in st.store:
                return False             # still the pts of its OutRec
            p = norm(("E", n, "prev"))
            if (p, "next") not in st.store:
                ps.append(p)
        for p in ps:
            if not self._orphan(st, p, roots, preds, visiting, depth + 1):
                return False
        return True

    def _touched(self, st, n):
        """n occurs in the store (as a written node or as a written link target) - otherwise it is part of the opaque ring."""
        for (m, f), v in st.store.items():
            if f in RING_FIELDS and (m == n or v == n):
                return True
        return False

    def check(self, st, node, what):
        self.ncheck += 1
        self.checkpoints.add((self.root.qual, where(node) if node is not None else "exit", what))
        roots = set()
        preds = {}
        for (m, f), v in st.store.items():
            if f == "pts" and is_node(v):
                roots.add(v)
            if f == "next" and is_node(v):
                preds.setdefault(v, []).append(m)
        cand = set()
        for (m, f), v in st.store.items():
            if f in RING_FIELDS and m in st.ringtyped:
                cand.add(m)
                if is_node(v):
                    cand.add(v)
                if m[0] != "fresh":
                    cand.add(norm(("E", m, f)))
            elif f == "pts" and is_node(v):
                cand.add(v)
        cand |= set(st.dead)
        problems = []
        for n in sorted(cand, key=repr):
            if not is_node(n):
                continue
            if self._orphan(st, n, roots, preds, frozenset()):
                continue
            if n in st.dead:
                problems.append((n, "has been deleted but is still reachable from an OutRec::pts / a live ring"))
                continue
            if not self._touched(st, n) and n not in roots:
                continue
            a = st.read(n, "next")
            b = st.read(n, "prev")
            if not is_node(a):
                problems.append((n, "its next is %s" % show(a)))
            elif st.read(a, "prev") != n:
                problems.append((n, "next is %s but %s->prev is %s" % (show(a), show(a), show(st.read(a, "prev")))))
            if not is_node(b):
                problems.append((n, "its prev is %s" % show(b)))
            elif st.read(b, "next") != n:
                problems.append((n, "prev is %s but %s->next is %s" % (show(b), show(b), show(st.read(b, "next")))))
        for n, msg in problems:
            key = "%s|%s" % (what, show(n))
            if (self.root.qual, key) in self.reported:
                continue
            if sum(1 for r in self.reported if r[0] == self.root.qual) >= 3:
                continue                 # three reports per analysed function are enough to diagnose it
            self.reported.add((self.root.qual, key))
            self.chk.violation(self.rule, self.root.qual, key,
                               "at %s (%s) the output vertex %s is reachable from an OutRec but its ring links are inconsistent: %s. If an exception "
                               "leaves the engine here (std::bad_alloc), ~ClipperBase -> DisposeAllOutRecs walks this ring: invalid access / double delete. "
                               "Path: %s" % (what, where(node) if node is not None else "function exit", show(n), msg, " ; ".join(st.trace[-14:])),
                               where(node) if node is not None else self.root.where, cfg=self.cfg)
        return not problems

    def check_delete(self, st, node, target):
        self.ncheck += 1
        roots = set()
        preds = {}
        for (m, f), v in st.store.items():
            if f == "pts" and is_node(v):
                roots.add(v)
            if f == "next" and is_node(v):
                preds.setdefault(v, []).append(m)
        if not is_node(target):
            return
        if not self._orphan(st, target, roots, preds, frozenset()):
            key = "delete|%s" % show(target)
            if (self.root.qual, key) in self.reported:
                return
            self.reported.add((self.root.qual, key))
            self.chk.violation(self.rule, self.root.qual, key,
                               "`%s` at %s deletes the output vertex %s while it is still linked into a live ring (its predecessor's next or an "
                               "OutRec::pts written in this function still points to it). Path: %s" %
                               (canon(node), where(node), show(target), " ; ".join(st.trace[-14:])), where(node), cfg=self.cfg)

    # ---- interpretation -------------------------------------------------------------------------
    def lvalue(self, e, st, depth):
        """-> list of (state, (node, field) | ("local", name) | None)"""
        e = strip(e)
        k = e.get("kind")
        if k == "DeclRefExpr":
            return [(st, ("local", e.get("referencedDecl", {}).get("name")))]
        if k == "MemberExpr":
            ks = kids(e)
            if not ks:
                return [(st, (("var", "this"), e.get("name")))]
            out = []
            for s2, b in self.ev(ks[0], st, depth):
                out.append((s2, (b, e.get("name")) if is_node(b) else None))
            return out
        if k == "UnaryOperator" and e.get("opcode") == "*":
            return [(s2, None) for s2, v in self.ev(kids(e)[0], st, depth)]
        out = []
        for s2, v in self.ev(e, st, depth):
            out.append((s2, None))
        return out

    def ev(self, e, st, depth=0):
        """Evaluate an expression: list of (state, value)."""
        e = strip(e)
        k = e.get("kind")
        ks = kids(e)
        if k == "DeclRefExpr":
            rd = e.get("referencedDecl", {})
            nm = rd.get("name")
            if rd.get("kind") in ("VarDecl", "ParmVarDecl", "BindingDecl"):
                if nm in st.env:
                    return [(st, st.env[nm])]
                return [(st, ("var", nm))]
            return [(st, self.new_opq())]
        if k == "CXXThisExpr":
            return [(st, ("var", "this"))]
        if k in ("CXXNullPtrLiteralExpr", "GNUNullExpr"):
            return [(st, NULL)]
        if k == "MemberExpr":
            if not ks:
                return [(st, st.read(("var", "this"), e.get("name")))]
            out = []
            for s2, b in self.ev(ks[0], st, depth):
                out.append((s2, s2.read(b, e.get("name")) if is_node(b) else self.new_opq()))
            return out
        if k == "UnaryOperator":
            op = e.get("opcode")
            if op in ("*", "&"):
                return self.ev(ks[0], st, depth)           # objects are identified with pointers to them
            if op == "!":
                out = []
                for s2, v in self.ev(ks[0], st, depth):
                    if v == NULL:
                        out.append((s2, True))
                    elif isinstance(v, bool):
                        out.append((s2, not v))
                    elif isinstance(v, tuple) and v[0] == "fresh":
                        out.append((s2, False))
                    else:
                        out.append((s2, self.new_opq()))
                return out
            return [(s2, self.new_opq()) for s2, v in self.ev(ks[0], st, depth)]
        if k == "BinaryOperator":
            op = e.get("opcode")
            if op == "=":
                return self.assign(e, st, depth)
            if op == ",":
                out = []
                for s2, _ in self.ev(ks[0], st, depth):
                    out.extend(self.ev(ks[1], s2, depth))
                return out
            out = []
            for s2, a in self.ev(ks[0], st, depth):
                for s3, b in self.ev(ks[1], s2, depth):
                    v = self.new_opq()
                    if op in ("==", "!=") and (is_node(a) or a == NULL) and (is_node(b) or b == NULL):
                        same = None
                        if a == b:
                            same = True
                        elif (a == NULL and b[0] == "fresh") or (b == NULL and a[0] == "fresh"):
                            same = False
                        elif a[0] == "fresh" and b[0] == "fresh":
                            same = False
                        if same is not None:
                            v = same if op == "==" else (not same)
                    out.append((s3, v))
            return out
        if k == "CompoundAssignOperator":
            out = []
            for s2, _ in self.ev(ks[1], st, depth):
                out.append((s2, self.new_opq()))
            return out
        if k == "ConditionalOperator":
            out = []
            for s2, c in self.ev(ks[0], st, depth):
                if c is not False:
                    out.extend(self.ev(ks[1], s2.copy(), depth))
                if c is not True:
                    out.extend(self.ev(ks[2], s2.copy(), depth))
            return out
        if k == "CXXNewExpr":
            return self.new_expr(e, st, depth)
        if k == "CXXDeleteExpr":
            out = []
            is_outpt = "OutPt" in qt(strip(ks[0])) and "OutPt2" not in qt(strip(ks[0]))
            for s2, v in self.ev(ks[0], st, depth):
                if is_outpt:
                    self.check_delete(s2, e, v)
                if is_node(v) and is_outpt:
                    s2 = s2.copy()
                    s2.dead = s2.dead | {v}
                    s2.trace = s2.trace + ("%s: delete %s" % (e.get("line") or "", show(v)),)
                out.append((s2, self.new_opq()))
            return out
        if k in ("CallExpr", "CXXMemberCallExpr", "CXXOperatorCallExpr"):
            return self.call(e, st, depth)
        if k in ("CXXConstructExpr", "CXXTemporaryObjectExpr", "InitListExpr", "CXXStaticCastExpr", "CStyleCastExpr",
                 "CXXFunctionalCastExpr", "ArraySubscriptExpr", "CXXStdInitializerListExpr"):
            # evaluate the operands for their effects; a cast / copy of a pointer keeps its value
            states = [(st, None)]
            vals = []
            for a in ks:
                nxt = []
                for s2, _ in states:
                    for s3, v in self.ev(a, s2, depth):
                        nxt.append((s3, v))
                states = nxt or states
            if k in ("CXXStaticCastExpr", "CStyleCastExpr", "CXXFunctionalCastExpr") and len(ks) == 1:
                return states
            if k == "CXXConstructExpr" and len(ks) == 1 and "*" in qt(e):
                return states
            return [(s2, self.new_opq()) for s2, _ in states]
        # literals and everything else: evaluate children for effects
        states = [st]
        for a in ks:
            if not isinstance(a, dict) or not a.get("kind") or a.get("kind").endswith("Decl"):
                continue
            nxt = []
            for s2 in states:
                nxt.extend(s3 for s3, _ in self.ev(a, s2, depth))
            states = nxt or states
        return [(s2, self.new_opq()) for s2 in states]

    def assign(self, e, st, depth):
        ks = kids(e)
        out = []
        ringf = self._ring_write(e)
        for s2, v in self.ev(ks[1], st, depth):
            for s3, lv in self.lvalue(ks[0], s2, depth):
                s3 = s3.copy()
                if lv is None:
                    pass
                elif lv[0] == "local":
                    s3.env[lv[1]] = v
                else:
                    node, f = lv
                    s3.store[(node, f)] = v
                    if ringf in RING_FIELDS:
                        s3.ringtyped = s3.ringtyped | {node}
                    if ringf:
                        s3.trace = s3.trace + ("%s: %s->%s = %s" % (e.get("line") or "", show(node), f, show(v)),)
                out.append((s3, v))
        return out

    def new_expr(self, e, st, depth):
        t = qt(e)
        self.check(st, e, "new %s" % t.replace("Clipper2Lib::", "").rstrip(" *"))
        ks = kids(e)
        ctor = None
        for c in ks:
            if strip(c).get("kind") == "CXXConstructExpr":
                ctor = strip(c)
        states = [st]
        args = []
        if ctor is not None:
            cur = [(st, [])]
            for a in kids(ctor):
                nxt = []
                for s2, vs in cur:
                    for s3, v in self.ev(a, s2, depth):
                        nxt.append((s3, vs + [v]))
                cur = nxt
            states = [s for s, _ in cur]
            args = cur
        obj = self.new_fresh(t.replace("Clipper2Lib::", "").rstrip(" *"), e)
        out = []
        for s2 in states:
            s2 = s2.copy()
            s2.trace = s2.trace + ("%s: %s = new %s" % (e.get("line") or "", show(obj), obj[2]),)
            if "OutPt" in t and "OutPt2" not in t:
                self._run_outpt_ctor(s2, obj)
            out.append((s2, obj))
        return out

    def _run_outpt_ctor(self, st, obj):
        """OutPt's constructor body: the fields it sets to `this`."""
        rec = self.db.records.get("OutPt")
        if rec is None:
            raise AnalysisBroken("record OutPt not found")
        ctors = [m for m in rec.methods if m.kind == "CXXConstructorDecl" and m.body is not None and len(m.params) == 2]
        if len(ctors) != 1:
            raise AnalysisBroken("OutPt: expected one two-argument constructor with a body, found %d" % len(ctors))
        for x in walk(ctors[0].body):
            if x.get("kind") == "BinaryOperator" and x.get("opcode") == "=":
                l = strip(kids(x)[0])
                r = strip(kids(x)[1])
                if l.get("kind") == "MemberExpr" and l.get("name") in RING_FIELDS and r.get("kind") == "CXXThisExpr":
                    st.store[(obj, l.get("name"))] = obj
                    st.ringtyped = st.ringtyped | {obj}

    def call(self, e, st, depth):
        db = self.db
        name, did, kind = db.callee(e)
        g = db.callee_func(e)
        args = db.call_args(e)
        base = db.member_base(e) if e.get("kind") == "CXXMemberCallExpr" else None
        # evaluate the object and the arguments
        cur = [(st, [])]
        if base is not None:
            nxt = []
            for s2, vs in cur:
                for s3, v in self.ev(base, s2, depth):
                    nxt.append((s3, vs))
            cur = nxt
        for a in args:
            if strip(a).get("kind") == "CXXDefaultArgExpr":
                cur = [(s2, vs + [self.new_opq()]) for s2, vs in cur]
                continue
            nxt = []
            for s2, vs in cur:
                for s3, v in self.ev(a, s2, depth):
                    nxt.append((s3, vs + [v]))
            cur = nxt
        out = []
        for s2, vs in cur:
            if name in DISPOSERS and g is not None:
                s3 = s2.copy()
                if vs and is_node(vs[0]) and name == "DisposeOutPts":
                    s3.store[(vs[0], "pts")] = NULL
                    s3.trace = s3.trace + ("%s: %s(%s)" % (e.get("line") or "", name, show(vs[0])),)
                out.append((s3, self.new_opq()))
                continue
            leaf = self._throwing_leaf(e)
            if leaf:
                self.check(s2, e, leaf)
                out.append((s2, self.new_opq()))
                continue
            if g is not None and g.body is not None and self._is_lib(g) and self.writer(g):
                if not self.has_loop(g) and depth < MAX_INLINE_DEPTH and len(g.params) == len(vs):
                    out.extend(self.inline(g, vs, s2, depth + 1, e))
                else:
                    # a ring-writing callee that is analysed on its own: the invariant must hold when it is entered, and holds when it returns
                    self.check(s2, e, "call of %s" % g.name)
                    out.append((self.havoc(s2, "after %s" % g.name), self.new_opq()))
                continue
            if g is not None and g.body is not None and self._is_lib(g) and self.may_alloc(g):
                self.check(s2, e, "call of %s (allocates)" % g.name)
                out.append((s2, self.new_opq()))
                continue
            out.append((s2, self.new_opq()))
        return out

    def inline(self, g, argv, st, depth, callnode):
        saved = st.env
        s0 = st.copy()
        s0.env = {}
        for p, v in zip(g.params, argv):
            s0.env[p.get("name")] = v
        s0.trace = s0.trace + ("%s: -> %s" % (callnode.get("line") or "", g.name),)
        res = []
        self.ctx.append(str(callnode.get("line") or ""))
        try:
            paths = self.block(g.body, s0, depth)
        finally:
            self.ctx.pop()
        for s2, status, rv in paths:
            s2 = s2.copy()
            s2.env = dict(saved)
            s2.trace = s2.trace + ("<- %s" % g.name,)
            res.append((s2, rv if rv is not None else self.new_opq()))
        return self.dedup_vals(res)

    def havoc(self, st, why):
        s = State()
        for k in st.env:
            s.env[k] = ("var", "%s@%s" % (k, why.replace(" ", "_")))
        s.trace = st.trace + ("[%s: invariant assumed]" % why,)
        return s

    @staticmethod
    def dedup_vals(res):
        seen = {}
        for s, v in res:
            seen.setdefault((s.key(), repr(v)), (s, v))
        return list(seen.values())

    @staticmethod
    def dedup(res):
        seen = {}
        for item in res:
            s = item[0]
            seen.setdefault((s.key(),) + tuple(repr(x) for x in item[1:]), item)
        return list(seen.values())

    def block(self, node, st, depth):
        """Execute a statement: list of (state, status, return value); status in fall/return/break/continue."""
        k = node.get("kind")
        if k == "CompoundStmt":
            cur = [(st, "fall", None)]
            for s in kids(node):
                nxt = []
                for s2, status, rv in cur:
                    if status != "fall":
                        nxt.append((s2, status, rv))
                    else:
                        nxt.extend(self.block(s, s2, depth))
                cur = self.dedup(nxt)
                if len(cur) > MAX_PATHS:
                    raise AnalysisBroken("%s: more than %d symbolic paths" % (self.root.qual, MAX_PATHS))
            return cur
        if k == "DeclStmt":
            cur = [st]
            for d in kids(node):
                if d.get("kind") != "VarDecl":
                    continue
                init = [c for c in kids(d) if isinstance(c, dict) and c.get("kind") and not c.get("kind").endswith("Comment")]
                nxt = []
                for s2 in cur:
                    if init:
                        for s3, v in self.ev(init[-1], s2, depth):
                            s3 = s3.copy()
                            s3.env[d.get("name")] = v
                            nxt.append(s3)
                    else:
                        s3 = s2.copy()
                        s3.env[d.get("name")] = self.new_opq()
                        nxt.append(s3)
                cur = nxt
            return [(s, "fall", None) for s in cur]
        if k == "IfStmt":
            cond, then, els = if_parts(node)
            out = []
            pre = [st]
            if node.get("hasInit"):
                pre = [s for s, _, _ in self.block(kids(node)[0], st, depth)]
            for s1 in pre:
                for s2, c in self.ev(cond, s1, depth):
                    if c is not False:
                        out.extend(self.block(then, s2.copy(), depth))
                    if c is not True:
                        if els is not None:
                            out.extend(self.block(els, s2.copy(), depth))
                        else:
                            out.append((s2, "fall", None))
            return self.dedup(out)
        if k == "ReturnStmt":
            ks = kids(node)
            if ks:
                return [(s2, "return", v) for s2, v in self.ev(ks[0], st, depth)]
            return [(st, "return", None)]
        if k == "BreakStmt":
            return [(st, "break", None)]
        if k == "ContinueStmt":
            return [(st, "continue", None)]
        if k == "NullStmt":
            return [(st, "fall", None)]
        if k in ("ForStmt", "WhileStmt", "DoStmt", "CXXForRangeStmt"):
            return self.loop(node, st, depth)
        if k == "SwitchStmt":
            # every case body from the state before the switch (fallthrough ignored: bodies here end in break/return)
            ks = kids(node)
            out = []
            for s2, _ in self.ev(ks[0], st, depth):
                body = ks[-1]
                for c in kids(body):
                    if c.get("kind") in ("CaseStmt", "DefaultStmt"):
                        stmts = [x for x in kids(c) if x.get("kind") not in ("ConstantExpr", "IntegerLiteral")]
                        cur = [(s2.copy(), "fall", None)]
                        for s in stmts[-1:]:
                            nxt = []
                            for s3, status, rv in cur:
                                nxt.extend(self.block(s, s3, depth) if status == "fall" else [(s3, status, rv)])
                            cur = nxt
                        for s3, status, rv in cur:
                            out.append((s3, "fall" if status == "break" else status, rv))
                out.append((s2, "fall", None))
            return self.dedup(out)
        if k in ("GotoStmt", "CXXTryStmt", "LabelStmt"):
            raise AnalysisBroken("%s: %s is not modelled by the ring-link analysis" % (self.root.qual, k))
        # expression statement
        return [(s2, "fall", None) for s2, _ in self.ev(node, st, depth)]

    def loop(self, node, st, depth):
        k = node.get("kind")
        ks = kids(node)
        body = ks[0] if k == "DoStmt" else ks[-1]
        self.check(st, node, "loop entry")
        heads = []
        if k == "ForStmt":
            heads = [x for x in ks[:-1] if isinstance(x, dict) and x.get("kind")]
        elif k == "WhileStmt":
            heads = [ks[0]]
        elif k == "DoStmt":
            heads = [ks[1]]
        h = self.havoc(st, "loop@%s" % (node.get("line") or ""))
        if k == "CXXForRangeStmt":
            for d in walk(ks[-2]) if len(ks) >= 2 else []:
                if d.get("kind") == "VarDecl":
                    h.env[d.get("name")] = ("var", d.get("name"))
        cur = [h]
        for x in heads:
            nxt = []
            for s2 in cur:
                if x.get("kind") == "DeclStmt":
                    nxt.extend(s3 for s3, _, _ in self.block(x, s2, depth))
                else:
                    nxt.extend(s3 for s3, _ in self.ev(x, s2, depth))
            cur = nxt
        out = []
        exits = False
        for s2 in cur:
            for s3, status, rv in self.block(body, s2, depth):
                if status == "return":
                    out.append((s3, status, rv))
                else:
                    self.check(s3, node, "loop back edge / exit")
                    exits = True
        after = self.havoc(st, "afterloop@%s" % (node.get("line") or ""))
        out.append((after, "fall", None))
        return out

    # ---- driver ---------------------------------------------------------------------------------
    def analyse(self, f):
        self.root = f
        st = State()
        n0 = self.ncheck
        paths = self.block(f.body, st, 0)
        for s2, status, rv in paths:
            self.check(s2, None, "function exit")
        self.npaths += len(paths)
        return len(paths), self.ncheck - n0


def rule_links(db, chk, cfg, rule="LINK.consistent-at-throw"):
    an = Analyzer(db, chk, cfg, rule)
    roots = []
    for f in db.funcs:
        if f.body is None or f.is_pattern or not (f.file or "").endswith(an.lib_files):
            continue
        if an.direct_writer(f):
            roots.append(f)
    names = sorted(set(f.qual for f in roots))
    for must in ("ClipperBase::AddOutPt", "ClipperBase::DoSplitOp", "ClipperBase::JoinOutrecPaths", "ClipperBase::ProcessHorzJoins",
                 "DuplicateOp", "DisposeOutPt"):
        if must not in names:
            raise AnalysisBroken("ring-writing function %s not found among the analysed functions" % must)
    n = 0
    for f in roots:
        short = f.qual.split("::")[-1]
        if short in DISPOSERS:
            # a disposer must not contain a throw point
            bad = [x for x in walk(f.body) if x.get("kind") == "CXXNewExpr" or
                   (x.get("kind") in ("CallExpr", "CXXMemberCallExpr", "CXXOperatorCallExpr") and
                    (an._throwing_leaf(x) or (db.callee_func(x) is not None and db.callee_func(x).body is not None and an._is_lib(db.callee_func(x)) and an.may_alloc(db.callee_func(x)))))]
            chk.instance(rule, {"function": f.qual, "kind": "disposer without throw point", "cfg": cfg}, ok=not bad)
            for x in bad:
                chk.violation(rule, f.qual, "disposer-throws", "%s tears a ring down (%s) and must not contain a statement that can throw; found `%s`"
                              % (f.qual, DISPOSERS[short], canon(x)[:80]), where(x), cfg=cfg)
            n += 1
            continue
        npaths, nchecks = an.analyse(f)
        chk.instance(rule, {"function": f.qual, "paths": npaths, "check_points_evaluated": nchecks, "cfg": cfg})
        n += 1
    for cp in sorted(an.checkpoints):
        chk.instance(rule, {"function": cp[0], "check_point": cp[2], "at": cp[1], "cfg": cfg})
    return n, len(an.checkpoints), an.npaths
