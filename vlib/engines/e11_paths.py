"""Small AST rules for the path utilities (C20).

MEMBER   every element appended to the result of TrimCollinear / SimplifyPath / RamerDouglasPeucker / StripNearEqual is an
         element of the input path (a dereferenced iterator or an indexed element of the parameter, possibly through a
         local copy) - no vertex is computed
FORWARD  inside loops, the cursor that feeds an append only moves forward (++), so the loop emits input elements in order
MONO     keep/remove flags are monotone: within one function every assignment to flags[..] stores the same literal
ERASE    StripDuplicates only erases elements
"""
import re

from ..astq import walk, kids, strip, qt, dqt, where, canon
from ..extract import AnalysisBroken

TARGETS = [("TrimCollinear", "Path64 (const"), ("SimplifyPath", None), ("RamerDouglasPeucker", "Path<"), ("StripNearEqual", "Path<")]


def _u(n):
    from .e6_siblings import _u as u
    return u(n)


def rule_membership(db, chk, cfg, rule="MEMBER"):
    n = 0
    for q, sigpart in TARGETS:
        fs = [f for f in db.find(q) if (sigpart is None or sigpart in f.sig) and "Paths<" not in f.sig.split("(")[0] and "PathD (" not in f.sig
              and "vector<vector" not in dqt(f.params[0])]
        if not fs:
            raise AnalysisBroken("path utility %s not found" % q)
        for f in fs:
            inp = f.params[0]
            iname = inp.get("name")
            # cursors: iterators / indices; copies: locals assigned from *cursor
            loops = [x for x in walk(f.body) if x.get("kind") in ("ForStmt", "WhileStmt", "DoStmt", "CXXForRangeStmt")]
            in_loop = set()
            for l in loops:
                for x in walk(l):
                    in_loop.add(id(x))
            moves = {}   # var name -> set of ops
            copies = {}  # var -> source canon
            for x in walk(f.body):
                k = x.get("kind")
                if k == "UnaryOperator" and x.get("opcode") in ("++", "--"):
                    t = _u(kids(x)[0])
                    if t.get("kind") == "DeclRefExpr":
                        moves.setdefault(t["referencedDecl"]["name"], set()).add(x.get("opcode"))
                elif k == "CXXOperatorCallExpr":
                    op = _u(kids(x)[0]).get("referencedDecl", {}).get("name", "")
                    if op in ("operator++", "operator--", "operator+=", "operator-=") and len(kids(x)) >= 2:
                        t = _u(kids(x)[1])
                        if t.get("kind") == "DeclRefExpr":
                            moves.setdefault(t["referencedDecl"]["name"], set()).add(op.replace("operator", ""))
                elif k == "CompoundAssignOperator":
                    t = _u(kids(x)[0])
                    if t.get("kind") == "DeclRefExpr":
                        moves.setdefault(t["referencedDecl"]["name"], set()).add(x.get("opcode"))
            # result container: the returned local
            rets = [canon(kids(x)[0]) for x in walk(f.body) if x.get("kind") == "ReturnStmt" and kids(x)]
            appends = []
            for x in walk(f.body):
                if x.get("kind") == "CXXMemberCallExpr" and db.callee(x)[0] in ("emplace_back", "push_back"):
                    base = canon(db.member_base(x))
                    if any(base in r for r in rets):
                        appends.append(x)
            if not appends:
                raise AnalysisBroken("%s: no append to the returned container found" % f.qual)

            def is_input_elem(e, depth=0):
                e = _u(e)
                while e.get("kind") in ("CXXConstructExpr", "CXXTemporaryObjectExpr") and len(kids(e)) == 1:
                    e = _u(kids(e)[0])          # copy construction of a point
                s = canon(e)
                # path[i]
                m = re.match(r'^%s\[(\w+)\]$' % re.escape(iname), s)
                if m:
                    return ("index", m.group(1))
                # *it, *it++ , (*it)
                m = re.match(r'^\(\*\(?(\w+)( ?\+\+( 0)?)?\)?\)$', s)
                if m:
                    return ("iter", m.group(1))
                if e.get("kind") == "DeclRefExpr" and depth < 3:
                    nm = e["referencedDecl"]["name"]
                    # a local copy of an input element
                    srcs = []
                    for y in walk(f.body):
                        if y.get("kind") == "VarDecl" and y.get("name") == nm:
                            init = [c for c in kids(y) if c.get("kind")]
                            if init:
                                srcs.append(init[-1])
                        if y.get("kind") == "BinaryOperator" and y.get("opcode") == "=" and canon(kids(y)[0]) == nm:
                            srcs.append(kids(y)[1])
                        if y.get("kind") == "CXXOperatorCallExpr" and canon(y).startswith("(%s = " % nm):
                            srcs.append(kids(y)[2])
                    if srcs and all(is_input_elem(s2, depth + 1) for s2 in srcs if canon(s2) != "<>"):
                        return ("copy", nm)
                return None

            for a in appends:
                args = db.call_args(a)
                n += 1
                kind = is_input_elem(args[0]) if len(args) == 1 else None
                ok = kind is not None
                fwd_ok = True
                why = ""
                if ok and id(a) in in_loop and kind[0] in ("index", "iter"):
                    mv = moves.get(kind[1], set())
                    if any(m in ("--", "-=") for m in mv):
                        fwd_ok = False
                        why = "cursor '%s' also moves backwards (%s)" % (kind[1], sorted(mv))
                chk.instance(rule, {"function": f.qual, "append": canon(a)[:60], "source": kind, "in_loop": id(a) in in_loop, "cfg": cfg}, ok=ok and fwd_ok)
                if ok and id(a) in in_loop and kind[0] in ("index", "iter"):
                    chk.instance("FORWARD", {"function": f.qual, "cursor": kind[1], "moves": sorted(moves.get(kind[1], set())), "cfg": cfg}, ok=fwd_ok)
                if not ok:
                    chk.violation(rule, f.qual, canon(a)[:50], "the result receives %s, which is not an element of the input path: the output would "
                                  "no longer be a subsequence of the input vertices" % canon(args[0] if args else a)[:50], where(a), cfg=cfg)
                elif not fwd_ok:
                    chk.violation("FORWARD", f.qual, kind[1], "inside a loop the result receives input elements through a cursor that is not "
                                  "forward-only: %s" % why, where(a), cfg=cfg)
    return n


def rule_monotone_flags(db, chk, cfg, rule="MONO"):
    n = 0
    for q in ("RDP", "RamerDouglasPeucker", "SimplifyPath"):
        for f in db.find(q):
            if "Paths<" in f.sig.split("(")[0] or "vector<vector" in dqt(f.params[0]):
                continue
            vals = {}
            for x in walk(f.body):
                l = r = None
                if x.get("kind") == "BinaryOperator" and x.get("opcode") == "=":
                    l, r = kids(x)
                elif x.get("kind") == "CXXOperatorCallExpr" and len(kids(x)) == 3 and _u(kids(x)[0]).get("referencedDecl", {}).get("name") == "operator=":
                    l, r = kids(x)[1], kids(x)[2]
                if l is not None and canon(l).startswith("flags["):
                    vals.setdefault(canon(r), []).append(x)
            if not vals:
                continue
            n += 1
            ok = len(vals) == 1
            chk.instance(rule, {"function": f.qual, "sig": f.sig[:50], "stored_values": sorted(vals), "cfg": cfg}, ok=ok)
            if not ok:
                # the minority value is the offender
                minority = sorted(vals.items(), key=lambda kv: len(kv[1]))[0]
                x = minority[1][0]
                # keyed by what is stored (not by the statement's spelling, which a refactoring may change)
                chk.violation(rule, f.qual.split("<")[0], "flags=%s" % minority[0],
                              "keep/remove flags are not monotone in %s: %s is stored at %s although the function otherwise only stores %s; "
                              "a vertex flagged earlier (an end point set by the caller) can be un-flagged again"
                              % (f.qual, minority[0], where(x), [v for v in vals if v != minority[0]]), where(x), cfg=cfg)
    if n < 3:
        raise AnalysisBroken("flag-using utilities not found (%d)" % n)
    return n


def rule_erase_only(db, chk, cfg, rule="ERASE"):
    n = 0
    for f in db.find("StripDuplicates"):
        if "vector<vector" in dqt(f.params[0]):
            continue
        pname = f.params[0]["name"]
        muts = []
        for x in walk(f.body):
            if x.get("kind") == "CXXMemberCallExpr" and canon(db.member_base(x) or {}) == pname:
                nm = db.callee(x)[0]
                if nm not in ("erase", "pop_back", "begin", "end", "size", "back", "front", "empty", "cbegin", "cend"):
                    muts.append((nm, x))
            if x.get("kind") in ("BinaryOperator",) and x.get("opcode") == "=" and canon(kids(x)[0]).startswith(pname):
                muts.append(("=", x))
        n += 1
        chk.instance(rule, {"function": f.qual, "sig": f.sig[:60], "cfg": cfg}, ok=not muts)
        for nm, x in muts[:1]:
            chk.violation(rule, f.qual, nm, "StripDuplicates modifies its path by %s; it may only erase elements" % nm, where(x), cfg=cfg)
    return n


def rule_pinned_ends(db, chk, cfg, rule="END.pinned"):
    """SimplifyPath (open paths): the distances of the two end points are pinned to MAX_DBL and every later write
    distSqr[V] = ... is guarded by `isClosedPath || (V != 0 && V != high)` on the *same* V."""
    from ..astq import if_parts
    from ..evalx import Interp, Unsupported
    n = 0
    for f in db.find("SimplifyPath"):
        if "vector<vector" in dqt(f.params[0]) or "Paths<" in f.sig.split("(")[0]:
            continue
        # the pins
        txt = canon(f.body)
        pinned = set()
        for x in walk(f.body):
            l = r = None
            if x.get("kind") == "BinaryOperator" and x.get("opcode") == "=":
                l, r = kids(x)
            elif x.get("kind") == "CXXOperatorCallExpr" and len(kids(x)) == 3 and _u(kids(x)[0]).get("referencedDecl", {}).get("name") == "operator=":
                l, r = kids(x)[1], kids(x)[2]
            if l is None:
                continue
            # a chained assignment a = b = MAX_DBL pins both
            rr = _u(r)
            while rr.get("kind") == "BinaryOperator" and rr.get("opcode") == "=":
                rr = _u(kids(rr)[1])
            if canon(rr) in ("MAX_DBL", "numeric_limits<double>::max()", "max()") and canon(l) in ("distSqr[0]", "distSqr[high]"):
                pinned.add(canon(l))
        pins = pinned == {"distSqr[0]", "distSqr[high]"}
        n += 1
        chk.instance(rule, {"function": f.qual, "sig": f.sig[:50], "obligation": "open paths pin distSqr[0] and distSqr[high] to MAX_DBL", "cfg": cfg}, ok=pins)
        if not pins:
            chk.violation(rule, f.qual, "pins", "SimplifyPath no longer pins the end points of an open path (distSqr[0] = distSqr[high] = MAX_DBL)", f.where, cfg=cfg)
        # guarded re-computations inside the main loop
        # the main loop: the outermost loop that marks vertices as removed (assigns flags[..])
        loops = []
        for x in kids(f.body):
            if x.get("kind") in ("ForStmt", "WhileStmt", "DoStmt") and "(flags[" in canon(x) and " = true)" in canon(x):
                loops.append(x)
        if len(loops) != 1:
            raise AnalysisBroken("main loop of SimplifyPath (the one assigning flags[..]) not found uniquely (%d)" % len(loops))
        par = {}
        for x in walk(loops[0]):
            for c in kids(x):
                if isinstance(c, dict):
                    par[id(c)] = x
        for x in walk(loops[0]):
            l = None
            if x.get("kind") == "BinaryOperator" and x.get("opcode") == "=":
                l = kids(x)[0]
            elif x.get("kind") == "CXXOperatorCallExpr" and len(kids(x)) == 3 and _u(kids(x)[0]).get("referencedDecl", {}).get("name") == "operator=":
                l = kids(x)[1]
            if l is None:
                continue
            m = re.match(r'^distSqr\[(\w+)\]$', canon(l))
            if not m:
                continue
            v = m.group(1)
            # enclosing if
            p = par.get(id(x))
            guard = None
            while p is not None:
                if p.get("kind") == "IfStmt":
                    guard = if_parts(p)[0]
                    break
                if p.get("kind") in ("ForStmt", "WhileStmt", "DoStmt"):
                    break
                p = par.get(id(p))
            n += 1
            ok = False
            why = "the write is not guarded"
            if guard is not None:
                names = {y.get("referencedDecl", {}).get("name") for y in walk(guard) if y.get("kind") == "DeclRefExpr"}
                ok = True
                for val, label in ((0, "0"), (9, "high")):
                    env = {nm: 5 for nm in names if nm}
                    env.update({"isClosedPath": False, "high": 9, v: val})
                    try:
                        if Interp(db, env).ev(guard):
                            ok = False
                            why = "guard %s admits %s == %s on an open path" % (canon(guard)[:60], v, label)
                    except Unsupported as e:
                        raise AnalysisBroken("cannot interpret SimplifyPath's guard %s: %s" % (canon(guard)[:60], e))
            chk.instance(rule, {"function": f.qual, "write": canon(x)[:50], "guard": canon(guard)[:70] if guard else None, "cfg": cfg}, ok=ok)
            if not ok:
                chk.violation(rule, f.qual, "distSqr[%s]" % v, "the pinned distance of an end point can be overwritten: %s; the end point of an "
                              "open path can then be removed" % why, where(x), cfg=cfg)
    return n


def rule_trim_last_kept(db, chk, cfg, rule="TRIM.last-kept"):
    """TrimCollinear's main loop decides whether the candidate vertex is a corner of the *output*: the collinearity test must
    be made against the last vertex that was kept (the one most recently appended to the result), the candidate, and the next
    input vertex.  Testing against the raw previous input vertex instead drops real corners after a removed or repeated
    vertex (area not preserved) and leaves collinear triples in the result (not idempotent)."""
    from ..astq import if_parts
    n = 0
    for f in db.find("TrimCollinear"):
        if len(f.params) != 2:
            continue                    # the PathD wrapper (path, precision, is_open) forwards to the Path64 overload
        loops = [x for x in kids(f.body) if x.get("kind") == "ForStmt"]
        sites = []
        for lp in loops:
            for x in walk(kids(lp)[-1]):
                if x.get("kind") != "IfStmt":
                    continue
                cond, then, els = if_parts(x)
                calls = [y for y in walk(cond) if y.get("kind") == "CallExpr" and db.callee(y)[0] == "IsCollinear"]
                apps = [y for y in walk(then) if y.get("kind") == "CXXMemberCallExpr" and db.callee(y)[0] in ("emplace_back", "push_back")]
                if len(calls) == 1 and apps:
                    sites.append((lp, x, calls[0], then, apps))
        if len(sites) != 1:
            raise AnalysisBroken("main loop of TrimCollinear (`if (!IsCollinear(last kept, candidate, next)) keep`) not found uniquely (%d)" % len(sites))
        lp, node, call, then, apps = sites[0]
        args = [canon(a) for a in db.call_args(call)]
        dst = canon(db.member_base(apps[0]))
        appended = canon(db.call_args(apps[0])[0])          # e.g. (*prevIt)
        kept_iter = appended.strip("()").lstrip("*")
        # the cursor of the loop: the variable its increment advances
        inc = kids(lp)[3] if len(kids(lp)) > 3 else None
        cursor = None
        if inc:
            for y in walk(inc):
                if y.get("kind") == "DeclRefExpr" and y.get("referencedDecl", {}).get("kind") in ("VarDecl", "ParmVarDecl"):
                    cursor = y.get("referencedDecl", {}).get("name")
                    break
        if cursor is None:
            raise AnalysisBroken("TrimCollinear: loop cursor not recognised")
        accepted_first = {"(*%s)" % kept_iter, "%s.back()" % dst, "%s[(%s.size() - 1)]" % (dst, dst)}
        # the kept iterator must be re-pointed to the candidate in the keep branch (so that it *is* the last kept vertex)
        repointed = kept_iter == cursor or any(canon(y).strip("()") == "%s = %s" % (kept_iter, cursor) for y in walk(then)
                                               if y.get("kind") in ("BinaryOperator", "CXXOperatorCallExpr"))
        ok = args[0] in accepted_first and args[1] == "(*%s)" % cursor and args[2] in ("(*(%s + 1))" % cursor, "(*next(%s))" % cursor) and \
            (repointed or args[0] != "(*%s)" % kept_iter)
        n += 1
        chk.instance(rule, {"function": f.qual, "sig": f.sig[:50], "test": canon(call), "last_kept": sorted(accepted_first), "cfg": cfg}, ok=ok)
        if not ok:
            chk.violation(rule, f.qual, "main-loop", "the corner test of TrimCollinear's main loop is `%s`; it must compare the last kept vertex (%s), "
                          "the candidate (*%s) and the next input vertex - otherwise corners next to removed or repeated vertices are lost"
                          % (canon(call), " or ".join(sorted(accepted_first)), cursor), where(call), cfg=cfg)
    if n == 0:
        raise AnalysisBroken("TrimCollinear(Path64, bool) not found")
    return n


def rule_eps_threshold(db, chk, cfg, rule="EPS.threshold"):
    """The contract of the simplifiers is stated with a closed threshold: a vertex is removable iff its distance is <= epsilon, it
    survives iff the distance is > epsilon.  Every comparison between a squared distance and the squared epsilon in SimplifyPath
    and RDP must draw the line there (`d > eps` / `eps < d` to keep, `d <= eps` / `eps >= d` to remove) - two sites that disagree
    (one `>`, one `>=`) leave a removable vertex in the result or remove a vertex that is not removable."""
    n = 0
    for q, eps_names, dist_pred in (("SimplifyPath", ("epsSqr",), lambda t: t.startswith("distSqr[")), ("RDP", ("epsSqrd", "epsSqr"), lambda t: t in ("max_d", "d"))):
        for f in db.find(q):
            if "Paths<" in f.sig.split("(")[0] or "vector<vector" in dqt(f.params[0]):
                continue
            for x in walk(f.body):
                if x.get("kind") != "BinaryOperator" or x.get("opcode") not in ("<", ">", "<=", ">="):
                    continue
                a, b = canon(kids(x)[0]), canon(kids(x)[1])
                if a in eps_names and dist_pred(b):
                    a, b = b, a
                    op = {"<": ">", ">": "<", "<=": ">=", ">=": "<="}[x.get("opcode")]
                elif b in eps_names and dist_pred(a):
                    op = x.get("opcode")
                else:
                    continue
                n += 1
                ok = op in (">", "<=")
                chk.instance(rule, {"function": f.qual, "sig": f.sig[:50], "comparison": canon(x), "normalised": "distance %s epsilon" % op, "cfg": cfg}, ok=ok)
                if not ok:
                    chk.violation(rule, f.qual.split("<")[0], "%s|%s" % (a.split("[")[0], op), "`%s` compares a squared distance with the squared epsilon as `distance %s epsilon`: "
                                  "the threshold of the simplifiers is closed (removable iff distance <= epsilon, kept iff distance > epsilon), and the other "
                                  "comparisons in the function draw it there" % (canon(x), op), where(x), cfg=cfg)
    if n < 4:
        raise AnalysisBroken("EPS.threshold: only %d distance/epsilon comparisons found in SimplifyPath and RDP" % n)
    return n


def rule_simplify_neighbours(db, chk, cfg, rule="NEIGHBOURS.fresh"):
    """SimplifyPath keeps, for every surviving vertex, the squared distance from the line through its two surviving neighbours.  After
    a vertex has been removed, the two vertices next to the gap get their distance recomputed - from *their* current neighbours.  One
    iteration of the main loop is interpreted on a generic ring of surviving vertices (labels ..,-3,-2,-1,0,1,2,3,.. with GetPrior /
    GetNext answering on that ring minus the removed vertex) for both outcomes of the 'which of the two is smaller' test; every
    `distSqr[V] = PerpendicDistFromLineSqrd(path[V], path[A], path[B])` must have {A, B} = {surviving prior of V, surviving next of V}."""
    from ..astq import if_parts
    from ..evalx import Interp, Unsupported
    n = 0
    for f in db.find("SimplifyPath"):
        if "Paths<" in f.sig.split("(")[0] or "vector<vector" in dqt(f.params[0]):
            continue
        loops = [x for x in kids(f.body) if x.get("kind") in ("ForStmt", "WhileStmt", "DoStmt") and "(flags[" in canon(x) and " = true)" in canon(x)]
        if len(loops) != 1:
            raise AnalysisBroken("main loop of SimplifyPath not found uniquely (%d)" % len(loops))
        body = [x for x in kids(kids(loops[0])[-1]) if isinstance(x, dict) and x.get("kind")]
        # start after the statement that computes `next` (the scan for a removable vertex before it is a search, not part of the update)
        start = None
        for i, st in enumerate(body):
            if re.match(r"^\(next = GetNext\(curr, ", canon(st)):
                start = i + 1
        if start is None:
            raise AnalysisBroken("SimplifyPath: `next = GetNext(curr, ...)` not found in the main loop")
        for smaller_next in (False, True):
            removed = set()

            def live(p, step):
                q = p + step
                while q in removed:
                    q += step
                return q

            def hook(name, argv, nd):
                if name == "GetNext":
                    return live(it.ev(db.call_args(nd)[0]), 1)
                if name == "GetPrior":
                    return live(it.ev(db.call_args(nd)[0]), -1)
                return NotImplemented
            it = Interp(db, {"prior": -1, "curr": 0, "next": 1, "prior2": None, "high": 1000, "isClosedPath": True, "start": 0}, call_hook=hook)
            writes = []

            def run(stmts):
                for st in stmts:
                    c = canon(st)
                    k = st.get("kind")
                    if k == "CompoundStmt":
                        run(kids(st))
                        continue
                    if k == "IfStmt":
                        cond, then, els = if_parts(st)
                        cc = canon(cond)
                        if "distSqr[" in cc and "epsSqr" not in cc:
                            # the comparison of the two candidate distances: both outcomes are explored by the caller
                            br = then if smaller_next else els
                            if br is not None:
                                run([br])
                            continue
                        if "next == prior" in cc or "prior == next" in cc:
                            continue          # ring of two: not the generic case
                        try:
                            t = it._truth(it.ev(cond), st)
                        except Unsupported:
                            t = True
                        br = then if t else els
                        if br is not None:
                            run([br])
                        continue
                    m = re.match(r"^\(flags\[(\w+)\] = true\)$", c)
                    if m:
                        removed.add(it.env[m.group(1)])
                        continue
                    m = re.match(r"^\(distSqr\[(\w+)\] = PerpendicDistFromLineSqrd\(path\[(\w+)\], path\[(\w+)\], path\[(\w+)\]\)\)$", c.replace("Point<long>{", "").replace("Point<double>{", "").replace("}", ""))
                    if m:
                        v, a0, a1, a2 = [it.env[x] for x in m.groups()]
                        writes.append((st, v, a0, a1, a2))
                        continue
                    if k in ("BreakStmt", "ContinueStmt"):
                        continue
                    try:
                        it.exec(st)
                    except Unsupported as e:
                        raise AnalysisBroken("cannot interpret SimplifyPath's update step `%s`: %s" % (c[:60], e))
            run(body[start:])
            if len(removed) != 1 or len(writes) < 2:
                raise AnalysisBroken("SimplifyPath: one iteration removes %d vertices and recomputes %d distances (expected 1 and 2)" % (len(removed), len(writes)))
            for st, v, a0, a1, a2 in writes:
                want = {live(v, -1), live(v, 1)}
                ok = a0 == v and {a1, a2} == want and v not in removed
                n += 1
                chk.instance(rule, {"function": f.qual, "sig": f.sig[:50], "smaller_is_next": smaller_next, "removed": sorted(removed), "vertex": v, "line_through": [a1, a2],
                                    "surviving_neighbours": sorted(want), "cfg": cfg}, ok=ok)
                if not ok:
                    chk.violation(rule, f.qual.split("<")[0], "%s|%s" % ("next-smaller" if smaller_next else "curr-smaller", canon(st)[9:20]),
                                  "after removing vertex %s (ring labels relative to the candidate, %s branch) `%s` recomputes the distance of vertex %s from the "
                                  "line through %s; its surviving neighbours are %s - a stale distance lets a removable vertex survive (or removes one that is not)"
                                  % (sorted(removed), "next-is-smaller" if smaller_next else "curr-is-smaller", canon(st)[:70], v, sorted([a1, a2]), sorted(want)),
                                  where(st), cfg=cfg)
    if n < 8:
        raise AnalysisBroken("NEIGHBOURS.fresh: only %d distance recomputations examined" % n)
    return n


# ---------------------------------------------------------------------------
# EPS.degree: an epsilon is a length, a squared epsilon a squared length
# ---------------------------------------------------------------------------

_SQ = re.compile(r'(sqr|sqrd|squared|_sq$|Sq$|2$)', re.I)
_EPS = re.compile(r'(eps|epsilon|tolerance|max_dist|dist)', re.I)


def _name_degree(nm):
    if not nm or not _EPS.search(nm):
        return None
    return 2 if _SQ.search(nm) else 1


def rule_eps_degree(db, chk, cfg, rule="EPS.degree"):
    """Dimension of the tolerance handed from one path utility to the next: a parameter called epsilon is a length (degree 1), one
    called epsSqrd / max_dist_sqrd a squared length (degree 2).  The degree of every argument bound to such a parameter is derived
    from its definition - Sqr(x) and x*x double the degree, DistanceSqr / PerpendicDistFromLineSqrd are squared lengths, a local
    has the degree of its initialiser - and must be the parameter's: squaring twice (or not at all) changes the threshold from
    epsilon to epsilon^2 (or its root)."""
    n = 0

    def deg(e, depth=0):
        e0 = strip(e)
        k = e0.get("kind")
        if depth > 6:
            return None
        if k == "DeclRefExpr":
            rd = e0.get("referencedDecl", {})
            d = db.by_id.get(rd.get("id"))
            if d is not None and d.get("kind") == "VarDecl":
                init = [c for c in kids(d) if isinstance(c, dict) and c.get("kind")]
                if init:
                    r = deg(init[-1], depth + 1)
                    if r is not None:
                        return r
            return _name_degree(rd.get("name"))
        if k in ("CXXStaticCastExpr", "CStyleCastExpr", "CXXFunctionalCastExpr") and kids(e0):
            return deg(kids(e0)[-1], depth + 1)
        if k in ("CallExpr", "CXXMemberCallExpr"):
            nm = db.callee(e0)[0]
            a = db.call_args(e0)
            if nm == "Sqr" and a:
                r = deg(a[0], depth + 1)
                return 2 * r if r is not None else None
            if nm in ("DistanceSqr", "PerpendicDistFromLineSqrd", "DistanceFromLineSqrd"):
                return 2
            if nm in ("Distance", "Length"):
                return 1
            if nm in ("sqrt",) and a:
                r = deg(a[0], depth + 1)
                return r // 2 if r is not None and r % 2 == 0 else None
            return None
        if k == "BinaryOperator" and e0.get("opcode") == "*":
            a, b = deg(kids(e0)[0], depth + 1), deg(kids(e0)[1], depth + 1)
            if a is not None and b is not None:
                return a + b
            return a if b is None and strip(kids(e0)[1]).get("kind") in ("FloatingLiteral", "IntegerLiteral") else (
                b if a is None and strip(kids(e0)[0]).get("kind") in ("FloatingLiteral", "IntegerLiteral") else None)
        return None

    for f in db.funcs:
        if f.is_pattern or f.body is None or not f.file or not ("/clipper2/" in f.file or "/Clipper2Lib/src/" in f.file):
            continue
        for c in walk(f.body):
            if c.get("kind") not in ("CallExpr", "CXXMemberCallExpr"):
                continue
            g = db.callee_func(c)
            if g is None or not g.file or not ("/clipper2/" in g.file or "/Clipper2Lib/src/" in g.file):
                continue
            args = db.call_args(c)
            for i, p0 in enumerate(g.params):
                want = _name_degree(p0.get("name"))
                if want is None or i >= len(args) or "double" not in (qt(p0) or ""):
                    continue
                got = deg(args[i])
                if got is None:
                    continue
                n += 1
                ok = got == want
                chk.instance(rule, {"caller": f.qual, "callee": g.qual, "parameter": p0.get("name"), "argument": canon(args[i])[:40], "degree": got, "cfg": cfg}, ok=ok)
                if not ok:
                    chk.violation(rule, f.qual, "%s|%s" % (g.name, p0.get("name")),
                                  "`%s`: parameter '%s' of %s is a %s, but the argument `%s` is a %s (degree %d): the threshold applied is not the caller's epsilon"
                                  % (canon(c)[:70], p0.get("name"), g.name, "squared length" if want == 2 else "length", canon(args[i])[:40],
                                     {1: "length", 2: "squared length"}.get(got, "length to the power %d" % got), got), where(c), cfg=cfg)
    return n


# ---------------------------------------------------------------------------
# RDP.spans: both halves are examined whenever they have an interior vertex
# ---------------------------------------------------------------------------

def rule_rdp_spans(db, chk, cfg, rule="RDP.spans"):
    """After keeping the farthest vertex idx of the span (begin, end), RDP must examine the two sub-spans (begin, idx) and (idx, end)
    whenever they contain a vertex of their own: a sub-span that is skipped keeps none of its vertices, however far they are from
    the chord.  The guards of the two recursive calls are interpreted for sub-span lengths 1..4: the call is made iff the sub-span
    has at least one interior vertex (length >= 2), and it is handed exactly that sub-span."""
    from ..evalx import Interp, Unsupported
    from ..astq import if_parts
    n = 0
    for f in db.find("RDP"):
        if f.is_pattern or f.body is None or len(f.params) < 5:
            continue
        pn = [p.get("name") for p in f.params]
        b, e = pn[1], pn[2]
        par = {}
        for x in walk(f.body):
            for c in kids(x):
                if isinstance(c, dict):
                    par[id(c)] = x
        calls = [c for c in walk(f.body) if c.get("kind") == "CallExpr" and db.callee_func(c) is not None and db.callee(c)[0] == "RDP"]
        sides = {}
        for c in calls:
            a = [canon(z) for z in db.call_args(c)]
            if len(a) < 3:
                continue
            lo, hi = a[1], a[2]
            side = "left" if lo == b else ("right" if hi == e else None)
            idxv = hi if side == "left" else (lo if side == "right" else None)
            if side is None:
                chk.instance(rule, {"function": f.qual, "call": canon(c)[:60], "cfg": cfg}, ok=False)
                chk.violation(rule, f.qual, "span|%s" % canon(c)[:30], "the recursive call `%s` is handed neither (begin, idx) nor (idx, end)" % canon(c)[:70], where(c), cfg=cfg)
                n += 1
                continue
            conds = []
            p = par.get(id(c))
            child = c
            while p is not None:
                if p.get("kind") == "IfStmt":
                    cond, then, els = if_parts(p)
                    inthen = any(y is child or y is c for y in walk(then))
                    conds.append((cond, inthen))
                child, p = p, par.get(id(p))
            sides[side] = (c, idxv, conds)
        if set(sides) != {"left", "right"}:
            raise AnalysisBroken("RDP.spans: the two recursive calls (begin, idx) / (idx, end) of RDP were not both found")
        for side, (c, idxv, conds) in sides.items():
            for length in (1, 2, 3, 4):
                for other in (1, 3):
                    if side == "left":
                        env = {b: 10, idxv: 10 + length, e: 10 + length + other}
                    else:
                        env = {b: 10, idxv: 10 + other, e: 10 + other + length}
                    taken = True
                    try:
                        for cond, inthen in conds:
                            v = bool(Interp(db, dict(env)).ev(cond))
                            if v != inthen:
                                taken = False
                    except Unsupported as ex:
                        raise AnalysisBroken("RDP.spans: cannot interpret the guard of `%s`: %s" % (canon(c)[:50], ex))
                    want = length >= 2
                    n += 1
                    ok = taken == want
                    chk.instance(rule, {"function": f.qual, "sig": f.sig[:40], "sub_span": side, "length": length, "examined": taken, "cfg": cfg} if (not ok or n % 8 == 1) else None, ok=ok)
                    if not ok:
                        chk.violation(rule, f.qual, "%s|len%d" % (side, length), "RDP: the %s sub-span (%s) of length %d (%d interior vert%s) is %s; a sub-span must be "
                                      "examined exactly when it has an interior vertex" % (side, "begin..idx" if side == "left" else "idx..end", length, length - 1,
                                                                                            "ex" if length == 2 else "ices", "examined" if taken else "skipped"), where(c), cfg=cfg)
                        break
    if n < 16:
        raise AnalysisBroken("RDP.spans: only %d guard cells evaluated" % n)
    return n


# ---------------------------------------------------------------------------
# TAIL.loop: trailing points equal / near-equal to the first one are removed until none is left
# ---------------------------------------------------------------------------

def rule_tail_loop(db, chk, cfg, rule="TAIL.loop"):
    """StripDuplicates and StripNearEqual, closed paths: the result must not end with a point equal resp. near-equal to its first point.
    The tail is removed by `pop_back()`; each such call sits in a loop whose condition itself compares the last point with the first
    one - so the loop's exit condition *is* the postcondition.  (Near-equality is not transitive: one removal can expose another
    point that is near the first one.)"""
    n = 0
    for q in ("StripDuplicates", "StripNearEqual"):
        for f in db.find(q):
            if f.is_pattern or f.body is None or "Paths<" in f.sig.split("(")[1].split(",")[0] or "vector<vector" in (dqt(f.params[0]) or ""):
                continue
            par = {}
            for x in walk(f.body):
                for c in kids(x):
                    if isinstance(c, dict):
                        par[id(c)] = x
            for c in walk(f.body):
                if c.get("kind") != "CXXMemberCallExpr" or db.callee(c)[0] != "pop_back":
                    continue
                n += 1
                p = par.get(id(c))
                loop = None
                while p is not None:
                    if p.get("kind") in ("WhileStmt", "ForStmt", "DoStmt"):
                        loop = p
                        break
                    p = par.get(id(p))
                ok = False
                if loop is not None:
                    ks = kids(loop)
                    cond = ks[-1] if loop.get("kind") == "DoStmt" else (ks[2] if loop.get("kind") == "ForStmt" and len(ks) >= 4 else
                                                                         ([c0 for c0 in ks[:-1] if isinstance(c0, dict) and c0.get("kind")] or [None])[-1])
                    t = canon(cond) if isinstance(cond, dict) else ""
                    ok = ".back()" in t and ("front()" in t or "first" in t or "[0]" in t or "begin()" in t)
                chk.instance(rule, {"function": f.qual, "sig": f.sig[:50], "pop_back": where(c), "in_loop_comparing_back_with_first": ok, "cfg": cfg}, ok=ok)
                if not ok:
                    chk.violation(rule, f.qual, "%s|%s" % (f.sig[:30], c.get("line")), "%s removes a trailing point with pop_back() %s: after one removal the new last point can "
                                  "again be (near-)equal to the first one, so a closed path may still end on its start"
                                  % (f.qual, "outside any loop" if loop is None else "in a loop whose condition does not compare the last point with the first"), where(c), cfg=cfg)
    if n < 2:
        raise AnalysisBroken("TAIL.loop: only %d pop_back() calls found in StripDuplicates / StripNearEqual" % n)
    return n


# ---------------------------------------------------------------------------
# ELLIPSE.radii: the radii that enter the parametrisation are positive (C20)
# ---------------------------------------------------------------------------

def rule_ellipse_radii(db, chk, cfg, rule="ELLIPSE.radii"):
    """Ellipse(center, radiusX, radiusY, steps): the leading guards are interpreted for every sign pattern of the two radii.  A
    non-positive radiusX gives the empty path; otherwise the parametrisation that follows runs with radiusX unchanged and a positive
    radiusY - the one given, or radiusX when none (zero or a negative value) was given: a circle.  A negative radiusY that gets
    through mirrors the curve (negative area) and shrinks the step count."""
    from ..evalx import Interp, Unsupported, _Return
    n = 0
    for f in db.find("Ellipse", required=False) or []:
        if f.is_pattern or f.body is None or len(f.params) != 4 or "Rect" in (qt(f.params[0]) or ""):
            continue
        rxn, ryn, stn = f.params[1].get("name"), f.params[2].get("name"), f.params[3].get("name")
        pre = []
        for s0 in kids(f.body):
            if isinstance(s0, dict) and s0.get("kind") == "IfStmt":
                pre.append(s0)
            else:
                break
        bad = None
        for rx in (-2.0, 0.0, 5.0):
            for ry in (-3.0, 0.0, 7.0):
                def hook(name, argv, nd):
                    if name.startswith("ctor:"):
                        return ("empty",)
                    if name == "sqrt" and argv:
                        return abs(argv[0]) ** 0.5
                    return NotImplemented
                it = Interp(db, {rxn: rx, ryn: ry, stn: 100}, [], call_hook=hook)
                returned = False
                try:
                    for s0 in pre:
                        it.exec(s0)
                except _Return:
                    returned = True
                except Unsupported as e:
                    raise AnalysisBroken("%s: cannot interpret the guards of Ellipse: %s" % (rule, e))
                n += 1
                if rx <= 0:
                    okc = returned
                else:
                    gx, gy = it.env.get(rxn), it.env.get(ryn)
                    gx, gy = float(getattr(gx, "v", gx)), float(getattr(gy, "v", gy))
                    okc = (not returned) and gx == rx and gy == (ry if ry > 0 else rx)
                chk.instance(rule, {"function": f.qual, "sig": f.sig[:50], "radiusX": rx, "radiusY": ry, "cfg": cfg} if (rx, ry) in ((5.0, -3.0), (5.0, 7.0)) else None, ok=okc)
                if not okc and bad is None:
                    bad = (rx, ry, returned, it.env.get(rxn), it.env.get(ryn))
        if bad:
            chk.violation(rule, f.qual, f.sig[:40], "Ellipse with radiusX=%s, radiusY=%s: %s - a non-positive radiusX must give the empty path, otherwise the curve is drawn "
                          "with radiusX and a positive radiusY (radiusX when none was given)" % (bad[0], bad[1], "returns early" if bad[2] else "goes on with radii (%s, %s)" % (bad[3], bad[4])),
                          f.where, cfg=cfg)
    if n < 9:
        raise AnalysisBroken("%s: Ellipse(center, radiusX, radiusY, steps) is not instantiated (configuration %s)" % (rule, cfg))
    return n
