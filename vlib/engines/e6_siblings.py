"""E6 - sibling identity.

Two ASTs are aligned node by node; a difference is accepted only if it matches
one of a small set of named patterns, otherwise it is reported with both
fragments.

 * USINGZ vs. non-USINGZ, per function: the Z build must be the plain build plus
   Z-only constructs (assignments to a member `z`, calls of the Z callbacks /
   SetZ / ZCB / CheckCallback, an extra trailing Z argument, a result captured
   only for Z accounting).  Together with the fact that the plain build has no
   `z` member at all, identity modulo these patterns means `z` never flows into
   x, y or control: the two builds execute the same x/y computation.
 * 64 vs. D siblings: identical up to type renames and de-scaling.
"""
import re

from ..astq import walk, kids, strip, qt, dqt, where, canon, if_parts
from ..extract import AnalysisBroken

Z_CALLS = {"SetZ", "ZCB", "SetZCallback", "CheckCallback"}
Z_MEMBERS = {"zCallback_", "zCallbackD_", "zCallback64_", "dllCallback64", "dllCallbackD", "DefaultZ"}
PURE_CALLS = {"bind", "operator bool", "operator==", "operator!=", "GetPolyType", "size", "empty", "begin", "end", "operator*",
              "operator->", "operator[]", "PointD", "Point64", "Point", "Reinterpret", "move", "forward", "get"}
TRANSPARENT = ("ImplicitCastExpr", "ParenExpr", "ExprWithCleanups", "MaterializeTemporaryExpr", "CXXBindTemporaryExpr", "ConstantExpr")


def _u(n):
    while isinstance(n, dict) and n.get("kind") in TRANSPARENT and kids(n):
        n = kids(n)[0]
    if isinstance(n, dict) and n.get("kind") == "CXXFunctionalCastExpr" and n.get("castKind") in ("NoOp", "ConstructorConversion") and kids(n):
        return _u(kids(n)[0])
    if isinstance(n, dict) and n.get("kind") == "CXXConstructExpr" and n.get("elidable") and len(kids(n)) == 1:
        return _u(kids(n)[0])
    return n


def _is_z_member(e):
    e = _u(e)
    return (e.get("kind") == "MemberExpr" and e.get("name") == "z") or \
           (e.get("kind") == "CXXDependentScopeMemberExpr" and e.get("member") == "z")


def _is_z_expr(e):
    """An expression that only carries a Z value."""
    e = _u(e)
    k = e.get("kind")
    if _is_z_member(e):
        return True
    if k == "IntegerLiteral" and e.get("value") == "0":
        return True
    if k == "DeclRefExpr" and ("z_type" in qt(e) or e.get("referencedDecl", {}).get("name", "").startswith("z")):
        return True
    if k == "CallExpr" and "Reinterpret" in canon(kids(e)[0]):
        return True
    if k in ("CXXStaticCastExpr", "CStyleCastExpr", "CXXFunctionalCastExpr") and kids(e):
        return _is_z_expr(kids(e)[0]) or "z_type" in qt(e) or True if _mentions_only_z(e) else False
    if k == "ArraySubscriptExpr":
        return False
    if k == "CXXDefaultArgExpr":
        return True
    return False


def _mentions_only_z(e):
    for x in walk(e):
        if x.get("kind") == "MemberExpr" and x.get("name") != "z":
            return False
    return any(x.get("kind") == "MemberExpr" and x.get("name") == "z" for x in walk(e)) or False


def _callee_name(db, c):
    c0 = _u(c)
    k = c0.get("kind")
    if k == "CXXOperatorCallExpr":
        ks = kids(c0)
        op = _u(ks[0]).get("referencedDecl", {}).get("name", "")
        if op == "operator()" and len(ks) > 1:
            obj = _u(ks[1])
            return obj.get("name") or obj.get("referencedDecl", {}).get("name") or op
        return op
    if k in ("CallExpr", "CXXMemberCallExpr"):
        return db.callee(c0)[0] or ""
    return ""


def side_effect_free(db, e):
    for x in walk(e):
        k = x.get("kind")
        if k in ("CallExpr", "CXXMemberCallExpr", "CXXOperatorCallExpr"):
            nm = _callee_name(db, x)
            if nm not in PURE_CALLS and not nm.startswith("operator") and nm not in ("IsHotEdge", "IsOpen", "IsFront"):
                return False
            if nm.startswith("operator") and nm in ("operator=", "operator+=", "operator-=", "operator++", "operator--", "operator()", "operator<<"):
                if nm == "operator()" and False:
                    pass
                return False
        elif k == "BinaryOperator" and x.get("opcode") in ("=",):
            return False
        elif k == "CompoundAssignOperator":
            return False
        elif k == "UnaryOperator" and x.get("opcode") in ("++", "--"):
            return False
        elif k in ("CXXNewExpr", "CXXDeleteExpr", "CXXThrowExpr"):
            return False
    return True


class ZErase:
    """Classifies the statements of one function of the USINGZ build."""

    def __init__(self, db, f):
        self.db, self.f = db, f
        self.zvars = set()
        self._compute_zvars()

    # -- z-only statements ---------------------------------------------------
    def is_z_call(self, e):
        e = _u(e)
        k = e.get("kind")
        if k not in ("CallExpr", "CXXMemberCallExpr", "CXXOperatorCallExpr"):
            return False
        nm = _callee_name(self.db, e)
        return nm in Z_CALLS or nm in Z_MEMBERS

    def z_only(self, s):
        if not s:
            return True
        k = s.get("kind")
        if k == "CompoundStmt":
            return all(self.z_only(x) for x in kids(s))
        if k == "NullStmt":
            return True
        if k == "IfStmt":
            cond, then, els = if_parts(s)
            return side_effect_free(self.db, cond) and self.z_only(then) and (els is None or self.z_only(els)) and self._has_stmt(s)
        if k == "CXXForRangeStmt":
            body = kids(s)[-1]
            ri = Aligner._range_init(s)
            return (ri is None or side_effect_free(self.db, ri)) and self.z_only(body) and self._has_stmt(body)
        if k == "DeclStmt":
            for d in kids(s):
                if d.get("kind") != "VarDecl":
                    return False
                if d.get("id") not in self.zvars:
                    return False
                for c in kids(d):
                    if c.get("kind") and not side_effect_free(self.db, c):
                        return False
            return True
        e = _u(s)
        ek = e.get("kind")
        if self.is_z_call(e):
            return True
        if ek == "BinaryOperator" and e.get("opcode") == "=":
            l, r = kids(e)
            if _is_z_member(l):
                return side_effect_free(self.db, r)
            l0 = _u(l)
            if l0.get("kind") == "DeclRefExpr" and l0.get("referencedDecl", {}).get("id") in self.zvars:
                return side_effect_free(self.db, r)
            if l0.get("kind") == "MemberExpr" and l0.get("name") in Z_MEMBERS:
                return side_effect_free(self.db, r)
            return False
        if ek == "CXXOperatorCallExpr" and _callee_name(self.db, e) == "operator=":
            l, r = kids(e)[1], kids(e)[2]
            l0 = _u(l)
            if l0.get("kind") == "MemberExpr" and l0.get("name") in Z_MEMBERS:
                return side_effect_free(self.db, r)
            if l0.get("kind") == "DeclRefExpr" and l0.get("referencedDecl", {}).get("id") in self.zvars:
                return side_effect_free(self.db, r)
            return False
        return False

    @staticmethod
    def _has_stmt(s):
        """Does the construct contain at least one real statement (an empty if/for is not a Z-only construct)?"""
        for x in walk(s):
            k = x.get("kind", "")
            if k in ("CallExpr", "CXXMemberCallExpr", "CXXOperatorCallExpr", "ReturnStmt", "DeclStmt") or \
                    (k == "BinaryOperator" and x.get("opcode") == "="):
                return True
        return False

    def _compute_zvars(self):
        body = self.f.body
        local = {}
        for x in walk(body):
            if x.get("kind") == "VarDecl" and "id" in x:
                local[x["id"]] = x
        self.zvars = set(local)
        par = {}
        for x in walk(body):
            for c in kids(x):
                if isinstance(c, dict):
                    par[id(c)] = x
        for _ in range(6):
            changed = False
            for vid in list(self.zvars):
                ok = True
                for x in walk(body):
                    if x.get("kind") == "DeclRefExpr" and x.get("referencedDecl", {}).get("id") == vid:
                        # acceptable contexts: assignment target, or inside a Z-only statement
                        p = par.get(id(x))
                        q = x
                        while p is not None and p.get("kind") in TRANSPARENT:
                            q, p = p, par.get(id(p))
                        if p is not None and p.get("kind") == "BinaryOperator" and p.get("opcode") == "=" and _u(kids(p)[0]) is x:
                            continue
                        if p is not None and p.get("kind") == "CXXOperatorCallExpr" and len(kids(p)) == 3 and _u(kids(p)[1]) is x \
                                and _callee_name(self.db, p) == "operator=":
                            continue
                        # climb to the enclosing statement
                        s = x
                        inside = False
                        while id(s) in par:
                            s = par[id(s)]
                            if s.get("kind") in ("IfStmt", "CXXForRangeStmt") or (par.get(id(s), {}).get("kind") == "CompoundStmt"):
                                if self.z_only(s):
                                    inside = True
                                    break
                            if s.get("kind") == "CompoundStmt":
                                break
                        if not inside:
                            ok = False
                            break
                if not ok:
                    self.zvars.discard(vid)
                    changed = True
            if not changed:
                break

    # -- normalised statement list -----------------------------------------------
    def normalise(self, stmts):
        out = []
        for s in stmts:
            if not s:
                continue
            if self.z_only(s):
                continue
            k = s.get("kind")
            if k == "DeclStmt":
                ds = kids(s)
                if len(ds) == 1 and ds[0].get("kind") == "VarDecl" and ds[0].get("id") in self.zvars:
                    init = [c for c in kids(ds[0]) if c.get("kind")]
                    if init:
                        out.append(init[-1])      # `T v = f(...)`  ->  `f(...)`
                    continue
                out.append(s)
                continue
            e = _u(s)
            if e.get("kind") == "BinaryOperator" and e.get("opcode") == "=":
                l0 = _u(kids(e)[0])
                if l0.get("kind") == "DeclRefExpr" and l0.get("referencedDecl", {}).get("id") in self.zvars:
                    out.append(kids(e)[1])         # `v = f(...)`  ->  `f(...)`
                    continue
            out.append(s)
        return out


_CLEAR = re.compile(r'^[\w.>-]+\.(clear|Clear)\(\)$|^[\w.>-]+\.resize\(0\)$')


def _sort_clear_runs(stmts):
    """Adjacent `x.clear()` statements on distinct containers commute: order them canonically."""
    out, run = [], []
    for s in stmts:
        t = canon(s)
        if _CLEAR.match(t):
            run.append((t, s))
        else:
            if run:
                out += [x[1] for x in sorted(run, key=lambda r: r[0])]
                run = []
            out.append(s)
    if run:
        out += [x[1] for x in sorted(run, key=lambda r: r[0])]
    return out


def _norm_nulltest(e):
    """`p == nullptr` / `nullptr == p`  ->  `!p`   and   `p != nullptr`  ->  `p`  (same test, two spellings)."""
    if e.get("kind") == "BinaryOperator" and e.get("opcode") in ("==", "!="):
        l, r = [_u(x) for x in kids(e)]
        for p, q in ((l, r), (r, l)):
            if q.get("kind") in ("CXXNullPtrLiteralExpr", "GNUNullExpr") and qt(p).rstrip().endswith("*"):
                if e.get("opcode") == "!=":
                    return p
                return {"kind": "UnaryOperator", "opcode": "!", "inner": [p], "line": e.get("line"), "file": e.get("file")}
    return e


def _no_fall(s):
    if not s:
        return False
    k = s.get("kind")
    if k in ("ReturnStmt", "ContinueStmt", "BreakStmt"):
        return True
    if k == "CompoundStmt" and kids(s):
        return _no_fall(kids(s)[-1])
    return False


def _hoist_else(stmts):
    """`if (c) <leaves>; else S`  ==  `if (c) <leaves>; S`"""
    out = []
    for s in stmts:
        if s.get("kind") == "IfStmt" and s.get("hasElse"):
            cond, then, els = if_parts(s)
            if _no_fall(then) and els is not None:
                s2 = dict(s)
                s2["hasElse"] = False
                s2["inner"] = [x for x in kids(s) if x is not els]
                out.append(s2)
                out += _hoist_else(kids(els) if els.get("kind") == "CompoundStmt" else [els])
                continue
        out.append(s)
    return out


def _tail_else_to_continue(stmts):
    """In a loop body nothing follows the last statement, so  `...; if (c) A else R`  ==  `...; if (c) { A; continue; } R`  (the
    form `_hoist_else` produces from an early `continue`).  Applied to the tail of loop bodies on both sides."""
    if not stmts:
        return stmts
    last = stmts[-1]
    if last.get("kind") == "IfStmt" and last.get("hasElse"):
        cond, then, els = if_parts(last)
        if els is not None and not _no_fall(then):
            tst = kids(then) if then.get("kind") == "CompoundStmt" else [then]
            then2 = {"kind": "CompoundStmt", "inner": list(tst) + [{"kind": "ContinueStmt"}], "line": then.get("line"), "file": then.get("file")}
            s2 = dict(last)
            s2["hasElse"] = False
            s2["inner"] = [then2 if x is then else x for x in kids(last) if x is not els]
            rest = kids(els) if els.get("kind") == "CompoundStmt" else [els]
            return stmts[:-1] + [s2] + _tail_else_to_continue(_hoist_else(list(rest)))
    if last.get("kind") == "IfStmt" and not last.get("hasElse"):
        # `if (c) { A; continue; }` as the very last statement: the continue is redundant
        cond, then, els = if_parts(last)
        tst = kids(then) if then.get("kind") == "CompoundStmt" else [then]
        if tst and tst[-1].get("kind") == "ContinueStmt":
            pass
    return stmts


LOOP_CTX = ("for-body", "ForStmt", "WhileStmt", "DoStmt", "CXXForRangeStmt")


class Diff(Exception):
    def __init__(self, a, b, why):
        self.a, self.b, self.why = a, b, why


class Aligner:
    """same(a, b): a from the reference build, b from the variant build (after normalisation by `erase`)."""

    def __init__(self, db_a, db_b, erase=None, rename=None, drop_arg=None, drop_stmt=None, rewrite=None, equiv=None):
        self.equiv = equiv or (lambda a, b: False)
        self.da, self.db = db_a, db_b
        self.erase = erase
        self.rename = rename or (lambda s: s)
        self.drop_arg = drop_arg or (lambda call, arg, idx, n: False)
        self.drop_stmt = drop_stmt or (lambda s: False)
        self.rewrite = rewrite or (lambda e: e)

    def stmts(self, s):
        if not s:
            return []
        if s.get("kind") == "CompoundStmt":
            return [x for x in kids(s) if x]
        return [s]

    def _const_pure(self, db, e):
        """No side effect and nothing the function could have changed in between: only const-qualified objects are read, only const
        member functions (those callable on a const object) and the listed pure helpers are called."""
        for x in walk(e):
            k = x.get("kind")
            if k == "CXXMemberCallExpr":
                mb = db.member_base(x)
                if mb is None or "const" not in (qt(_u(mb)) or ""):
                    return False
            elif k in ("CallExpr", "CXXOperatorCallExpr"):
                nm = _callee_name(db, x)
                if nm not in PURE_CALLS or nm in ("move", "forward", "bind"):
                    return False
            elif k in ("BinaryOperator",) and x.get("opcode") in ("=", ","):
                return False
            elif k == "CompoundAssignOperator" or (k == "UnaryOperator" and x.get("opcode") in ("++", "--", "&")):
                return False
            elif k in ("CXXNewExpr", "CXXDeleteExpr", "CXXThrowExpr", "LambdaExpr"):
                return False
            elif k == "DeclRefExpr":
                rd = x.get("referencedDecl", {})
                if rd.get("kind") in ("VarDecl", "ParmVarDecl") and "const" not in (rd.get("type", {}).get("qualType", "") or ""):
                    return False
            elif k == "MemberExpr" and not kids(x):
                return False                      # implicit this->member of a non-const method: may change
        return True

    def _propagate_const_locals(self, stmts, db):
        """`const T v = <pure expression over const objects>;` followed by uses of v says the same as the uses of the expression
        itself: drop the declaration and substitute (both sides, so a hoisting on one side only does not matter)."""
        from ..astq import AstDB
        out, mapping = [], {}
        for s0 in stmts:
            s1 = AstDB._subst(s0, mapping) if mapping else s0
            if s1.get("kind") == "DeclStmt" and len(kids(s1)) == 1:
                d = kids(s1)[0]
                t = qt(d) or ""
                init = [c for c in kids(d) if isinstance(c, dict) and c.get("kind")]
                if d.get("kind") == "VarDecl" and init and t.startswith("const ") and "&" not in t and "*" not in t and \
                        any(w in t for w in ("size_t", "int", "long", "double", "bool", "unsigned")) and self._const_pure(db, init[-1]):
                    mapping[d["id"]] = init[-1]
                    continue
            out.append(s1)
        return out

    def same_list(self, la, lb, ctx):
        la = self._propagate_const_locals([s for s in la if s], self.da)
        lb = self._propagate_const_locals([s for s in lb if s], self.db)
        la = _hoist_else([s for s in la if s])
        lb = _hoist_else([s for s in lb if s])
        if ctx in LOOP_CTX:
            la, lb = _tail_else_to_continue(la), _tail_else_to_continue(lb)
        if self.erase is not None:
            lb = self.erase.normalise(lb)
        lb = [s for s in lb if not self.drop_stmt(s)]
        la = [s for s in la if s and s.get("kind") != "NullStmt"]
        lb = [s for s in lb if s and s.get("kind") != "NullStmt"]
        la, lb = _sort_clear_runs(la), _sort_clear_runs(lb)
        i = j = 0
        while i < len(la) or j < len(lb):
            if i >= len(la):
                raise Diff(None, lb[j], "extra statement in the variant")
            if j >= len(lb):
                raise Diff(la[i], None, "statement missing in the variant")
            try:
                self.same(la[i], lb[j])
                i += 1
                j += 1
            except Diff as d:
                # the two sides may say the same thing differently (if/else vs conditional expression, De Morgan, early return vs
                # else): decide by comparing the *effects* of short statement windows under every valuation of their conditions
                step = None
                wins = [(1, 1), (1, 2), (2, 1), (2, 2)]
                ra, rb = len(la) - i, len(lb) - j
                if (ra, rb) not in wins and ra <= 5 and rb <= 5:
                    wins.append((ra, rb))            # the whole remaining tails (an if/else turned into `if {..; continue;} rest` on one side)
                for wa, wb in wins:
                    tail = ctx in LOOP_CTX and i + wa == len(la) and j + wb == len(lb)
                    if i + wa <= len(la) and j + wb <= len(lb) and self.effects_equal(la[i:i + wa], lb[j:j + wb], loop_tail=tail):
                        step = (wa, wb)
                        break
                if step is None:
                    raise d
                i += step[0]
                j += step[1]

    # ---- equivalence of small statement windows by effect tables --------------------------------------------------
    class _Need(Exception):
        def __init__(self, atom):
            self.atom = atom

    class _Giveup(Exception):
        pass

    BOOL_OPS = ("&&", "||")

    def _atom_key(self, e, side):
        return canon(e, self.rename if side == "b" else None)

    def _atom_id(self, e, side):
        """Key of an opaque condition atom.  Two atoms from different sides are the same atom when the aligner itself finds them equal
        (renames, dropped arguments, rewrites applied) - comparing their texts would miss `BuildPath64(.., path)` vs
        `BuildPathD(.., path, invScale_)`."""
        txt = self._atom_key(e, side)
        cache = getattr(self, "_atom_cache", None)
        if cache is None:
            cache = self._atom_cache = {}
            self._atoms = []
        ck = (id(e), side)
        if ck in cache:
            return cache[ck]
        found = None
        for (node, sd, t) in self._atoms:
            if sd == side:
                if t == txt:
                    found = t
                    break
            else:
                na, nb = (node, e) if sd == "a" else (e, node)
                try:
                    self.same(na, nb)
                    found = t
                    break
                except (Diff, AnalysisBroken, KeyError, IndexError):
                    continue
        if found is None:
            self._atoms.append((e, side, txt))
            found = txt
        cache[ck] = found
        return found

    def _bool(self, e, val, side):
        """Truth value of a condition under the valuation `val` (atom text -> bool)."""
        e = _u(self.rewrite(_u(e))) if side == "b" else _u(e)
        e = _norm_nulltest(e)
        k = e.get("kind")
        ks = kids(e)
        if k == "CXXBoolLiteralExpr":
            return bool(e.get("value"))
        if k == "UnaryOperator" and e.get("opcode") == "!":
            return not self._bool(ks[0], val, side)
        if k == "BinaryOperator" and e.get("opcode") == "&&":
            return self._bool(ks[0], val, side) and self._bool(ks[1], val, side)
        if k == "BinaryOperator" and e.get("opcode") == "||":
            return self._bool(ks[0], val, side) or self._bool(ks[1], val, side)
        if k == "ConditionalOperator":
            return self._bool(ks[1], val, side) if self._bool(ks[0], val, side) else self._bool(ks[2], val, side)
        neg = False
        key = None
        if k == "BinaryOperator" and e.get("opcode") in ("==", "!="):
            a, b = sorted([self._atom_key(ks[0], side), self._atom_key(ks[1], side)])
            key = "%s == %s" % (a, b)
            neg = e.get("opcode") == "!="
        elif k == "CXXOperatorCallExpr" and len(ks) == 3 and _u(ks[0]).get("referencedDecl", {}).get("name") in ("operator==", "operator!="):
            a, b = sorted([self._atom_key(ks[1], side), self._atom_key(ks[2], side)])
            key = "%s == %s" % (a, b)
            neg = _u(ks[0]).get("referencedDecl", {}).get("name") == "operator!="
        elif k == "BinaryOperator" and e.get("opcode") in ("<", ">", "<=", ">=") and all("int" in dqt(x) or "long" in dqt(x) or "size_t" in qt(x) for x in ks):
            a, b = self._atom_key(ks[0], side), self._atom_key(ks[1], side)
            op = e.get("opcode")
            if op == "<":
                key = "%s < %s" % (a, b)
            elif op == ">":
                key = "%s < %s" % (b, a)
            elif op == ">=":
                key, neg = "%s < %s" % (a, b), True
            else:
                key, neg = "%s < %s" % (b, a), True
        else:
            key = self._atom_id(e, side)
        for w in getattr(self, "_written", ()):
            if w and w in key:
                raise Aligner._Giveup()          # the window assigns something this condition reads: order matters, do not guess
        if key not in val:
            raise Aligner._Need(key)
        return val[key] != neg

    def _run(self, stmts, val, side, out):
        """Effects of a statement window: list of ('ret', node|bool|None) / ('do', node).  Returns True if a return was executed."""
        for s in stmts:
            s0 = _u(s)
            k = s0.get("kind")
            if k == "CompoundStmt":
                if self._run([x for x in kids(s0) if x], val, side, out):
                    return True
            elif k == "IfStmt":
                if s0.get("hasInit") or s0.get("hasVar"):
                    raise Aligner._Giveup()
                c, t, e = if_parts(s0)
                br = t if self._bool(c, val, side) else e
                if br is not None and self._run([br], val, side, out):
                    return True
            elif k == "ReturnStmt":
                ks = kids(s0)
                if ks and qt(_u(ks[0])) == "bool":
                    try:
                        out.append(("ret", self._bool(ks[0], val, side)))
                    except Aligner._Giveup:
                        out.append(("ret", ks[0]))
                else:
                    out.append(("ret", self._value(ks[0], val, side) if ks else None))
                return True
            elif k in ("ContinueStmt", "BreakStmt"):
                out.append(("jump", k))
                return True
            elif k in ("ForStmt", "WhileStmt", "DoStmt", "CXXForRangeStmt", "SwitchStmt", "DeclStmt"):
                out.append(("do", s0))
            elif k == "BinaryOperator" and s0.get("opcode") == "=":
                l, r = kids(s0)
                out.append(("asg", l, self._value(r, val, side)))
                self._written.add(self._atom_key(l, side))
            else:
                out.append(("do", s0))
                for y in walk(s0):
                    if y.get("kind") in ("BinaryOperator", "CompoundAssignOperator") and (y.get("opcode") == "=" or y.get("kind") == "CompoundAssignOperator"):
                        self._written.add(self._atom_key(kids(y)[0], side))
                    elif y.get("kind") == "UnaryOperator" and y.get("opcode") in ("++", "--"):
                        self._written.add(self._atom_key(kids(y)[0], side))
        return False

    def _value(self, e, val, side):
        e0 = _u(e)
        if e0.get("kind") == "ConditionalOperator":
            ks = kids(e0)
            return self._value(ks[1] if self._bool(ks[0], val, side) else ks[2], val, side)
        return e

    def effects_equal(self, wa, wb, loop_tail=False):
        if not any(_u(x).get("kind") in ("IfStmt", "ReturnStmt", "BinaryOperator", "CompoundStmt") for x in wa + wb):
            return False
        # only worth trying when at least one side has a branch, a conditional expression or a boolean return
        atoms = []
        leaves = [0]
        self._atom_cache = {}
        self._atoms = []

        def same_node(x, y):
            if isinstance(x, bool) or isinstance(y, bool) or x is None or y is None:
                if isinstance(x, dict) and isinstance(y, bool):
                    return _u(x).get("kind") == "CXXBoolLiteralExpr" and bool(_u(x).get("value")) == y
                if isinstance(y, dict) and isinstance(x, bool):
                    return _u(y).get("kind") == "CXXBoolLiteralExpr" and bool(_u(y).get("value")) == x
                return x is y or x == y
            try:
                self.same(x, y)
                return True
            except Diff:
                return False

        def explore(val):
            leaves[0] += 1
            if leaves[0] > 600:
                raise Aligner._Giveup()
            try:
                oa, ob = [], []
                self._written = set()
                self._run(wa, val, "a", oa)
                self._written = set()
                self._run(wb, val, "b", ob)
            except Aligner._Need as nd:
                for v in (False, True):
                    v2 = dict(val)
                    v2[nd.atom] = v
                    if not explore(v2):
                        return False
                return True
            if loop_tail:
                # at the very end of a loop body a trailing `continue` changes nothing
                while oa and oa[-1] == ("jump", "ContinueStmt"):
                    oa.pop()
                while ob and ob[-1] == ("jump", "ContinueStmt"):
                    ob.pop()
            if len(oa) != len(ob):
                return False
            for x, y in zip(oa, ob):
                if x[0] != y[0]:
                    return False
                if x[0] == "jump":
                    if x != y:
                        return False
                    continue
                for p, q in zip(x[1:], y[1:]):
                    if not same_node(p, q):
                        return False
            return True
        try:
            return explore({})
        except (Aligner._Giveup, AnalysisBroken):
            return False

    def same(self, a, b):
        a, b = _u(a) if a else a, _u(self.rewrite(_u(b))) if b else b
        if not a and not b:
            return
        if not a or not b:
            raise Diff(a, b, "one side is empty")
        if self.equiv(a, b):
            return
        a, b = _norm_nulltest(a), _norm_nulltest(b)
        ka, kb = a.get("kind"), b.get("kind")
        # temporaries vs construct expressions are the same thing
        norm = {"CXXTemporaryObjectExpr": "CXXConstructExpr"}
        ka, kb = norm.get(ka, ka), norm.get(kb, kb)
        if ka != kb:
            raise Diff(a, b, "different constructs (%s vs %s)" % (ka, kb))
        if ka in ("CompoundStmt",):
            return self.same_list(self.stmts(a), self.stmts(b), ka)
        if ka == "IfStmt":
            ca, ta, ea = if_parts(a)
            cb, tb, eb = if_parts(b)
            self.same(ca, cb)
            self.same_list(self.stmts(ta), self.stmts(tb), "then")
            self.same_list(self.stmts(ea), self.stmts(eb), "else")
            return
        if ka in ("ForStmt", "WhileStmt", "DoStmt", "CXXForRangeStmt", "SwitchStmt", "CaseStmt", "DefaultStmt"):
            xa, xb = kids(a), kids(b)
            if ka == "CXXForRangeStmt":
                # compare the range initialiser, the loop variable and the body
                self.same(self._range_init(a), self._range_init(b))
                self.same_list(self.stmts(xa[-1]), self.stmts(xb[-1]), "for-body")
                return
            if len(xa) != len(xb):
                raise Diff(a, b, "different loop/switch shape")
            for i, (p, q) in enumerate(zip(xa, xb)):
                if p and q and (p.get("kind") == "CompoundStmt" or q.get("kind") == "CompoundStmt" or (i == len(xa) - 1 and ka != "CaseStmt")):
                    self.same_list(self.stmts(p), self.stmts(q), ka)
                elif ka in ("CaseStmt", "DefaultStmt") and i >= (1 if ka == "CaseStmt" else 0):
                    self.same_list(self.stmts(p), self.stmts(q), ka)
                else:
                    self.same(p, q)
            return
        if ka == "DeclStmt":
            da, dbb = kids(a), kids(b)
            if len(da) != len(dbb):
                raise Diff(a, b, "different number of declarations")
            for p, q in zip(da, dbb):
                if p.get("kind") != q.get("kind") or self.rename(p.get("name", "")) != self.rename(q.get("name", "")):
                    raise Diff(p, q, "different declaration")
                ia = [c for c in kids(p) if c.get("kind")]
                ib = [c for c in kids(q) if c.get("kind")]
                if bool(ia) != bool(ib):
                    # `T v;` vs `T v = T();` are both default construction
                    raise Diff(p, q, "initialiser present on one side only")
                if ia:
                    self.same(ia[-1], ib[-1])
            return
        if ka == "ReturnStmt":
            xa, xb = kids(a), kids(b)
            if bool(xa) != bool(xb):
                raise Diff(a, b, "return value on one side only")
            if xa:
                self.same(xa[0], xb[0])
            return
        if ka in ("BreakStmt", "ContinueStmt", "NullStmt", "CXXThisExpr", "CXXNullPtrLiteralExpr", "GNUNullExpr"):
            return
        if ka in ("IntegerLiteral", "FloatingLiteral", "CXXBoolLiteralExpr", "StringLiteral", "CharacterLiteral"):
            if str(a.get("value")) != str(b.get("value")):
                raise Diff(a, b, "different literal")
            return
        if ka == "DeclRefExpr":
            na = a.get("referencedDecl", {}).get("name")
            nb = b.get("referencedDecl", {}).get("name")
            if self.rename(na or "") != self.rename(nb or ""):
                raise Diff(a, b, "different entity (%s vs %s)" % (na, nb))
            return
        if ka == "MemberExpr":
            if self.rename(a.get("name", "")) != self.rename(b.get("name", "")) or bool(a.get("isArrow")) != bool(b.get("isArrow")):
                raise Diff(a, b, "different member")
            xa, xb = kids(a), kids(b)
            if xa and xb:
                self.same(xa[0], xb[0])
            return
        if ka in ("BinaryOperator", "CompoundAssignOperator", "UnaryOperator"):
            if a.get("opcode") != b.get("opcode") or bool(a.get("isPostfix")) != bool(b.get("isPostfix")):
                raise Diff(a, b, "different operator")
            for p, q in zip(kids(a), kids(b)):
                self.same(p, q)
            return
        if ka in ("CallExpr", "CXXMemberCallExpr", "CXXOperatorCallExpr", "CXXConstructExpr"):
            xa, xb = list(kids(a)), list(kids(b))
            if ka == "CXXConstructExpr":
                ta, tb = self.rename(_st(dqt(a))), self.rename(_st(dqt(b)))
                if ta != tb:
                    raise Diff(a, b, "construction of different types (%s vs %s)" % (ta, tb))
                aa, ab = xa, xb
                head_a = head_b = None
            else:
                head_a, head_b = xa[0], xb[0]
                aa, ab = xa[1:], xb[1:]
            aa = [x for x in aa if _u(x).get("kind") != "CXXDefaultArgExpr"]
            ab = [x for x in ab if _u(x).get("kind") != "CXXDefaultArgExpr"]
            if len(ab) > len(aa):
                extra = len(ab) - len(aa)
                kept = list(ab)
                i = len(kept) - 1
                while extra > 0 and i >= 0:
                    if self.drop_arg(b, kept[i], i, len(kept)):
                        del kept[i]
                        extra -= 1
                    i -= 1
                ab = kept
            if len(aa) != len(ab):
                raise Diff(a, b, "different number of arguments (%d vs %d)" % (len(aa), len(ab)))
            if head_a is not None:
                self.same(head_a, head_b)
            for p, q in zip(aa, ab):
                self.same(p, q)
            return
        if ka in ("CXXStaticCastExpr", "CStyleCastExpr", "CXXFunctionalCastExpr", "CXXReinterpretCastExpr", "CXXConstCastExpr"):
            if self.rename(_st(dqt(a))) != self.rename(_st(dqt(b))):
                raise Diff(a, b, "cast to different types")
            self.same(kids(a)[0], kids(b)[0])
            return
        if ka == "LambdaExpr":
            ba = [c for c in walk(a) if c.get("kind") == "CompoundStmt"]
            bb = [c for c in walk(b) if c.get("kind") == "CompoundStmt"]
            if ba and bb:
                self.same_list(self.stmts(ba[0]), self.stmts(bb[0]), "lambda")
            return
        if ka in ("CXXNewExpr", "CXXDeleteExpr", "ConditionalOperator", "ArraySubscriptExpr", "InitListExpr", "CXXDefaultArgExpr",
                  "CXXScalarValueInitExpr", "UnaryExprOrTypeTraitExpr", "CXXStdInitializerListExpr", "SubstNonTypeTemplateParmExpr",
                  "UnresolvedLookupExpr", "CXXDependentScopeMemberExpr", "PackExpansionExpr", "CXXThrowExpr", "OpaqueValueExpr",
                  "ImplicitValueInitExpr", "CXXBoolLiteralExpr", "PredefinedExpr", "CXXTypeidExpr", "AttributedStmt", "CXXDefaultInitExpr",
                  "ParenListExpr", "CXXUnresolvedConstructExpr", "UnresolvedMemberExpr", "DependentScopeDeclRefExpr", "CXXPseudoDestructorExpr",
                  "SizeOfPackExpr", "CXXInheritedCtorInitExpr", "ArrayInitLoopExpr", "StmtExpr", "CXXFoldExpr", "CXXNoexceptExpr"):
            xa, xb = [x for x in kids(a) if x], [x for x in kids(b) if x]
            if ka in ("InitListExpr", "CXXUnresolvedConstructExpr", "ParenListExpr") and len(xb) == len(xa) + 1 \
                    and self.drop_arg(b, xb[-1], len(xb) - 1, len(xb)):
                xb = xb[:-1]
            if len(xa) != len(xb):
                raise Diff(a, b, "different shape")
            for p, q in zip(xa, xb):
                self.same(p, q)
            return
        raise AnalysisBroken("sibling alignment met an unsupported construct %s at line %s" % (ka, a.get("line")))

    @staticmethod
    def _range_init(n):
        for s in kids(n)[:-2]:
            if s and s.get("kind") == "DeclStmt":
                for d in kids(s):
                    if d.get("kind") == "VarDecl" and d.get("name", "").startswith("__range"):
                        init = [c for c in kids(d) if c.get("kind")]
                        return init[-1] if init else None
        return None


def _st(t):
    return (t or "").replace("Clipper2Lib::", "").replace("std::", "").replace("const ", "").strip()


# ---------------------------------------------------------------------------
# USINGZ vs plain
# ---------------------------------------------------------------------------

def _sig_key(f, z):
    """Function identity across the two builds: qualified name + parameter types without z_type parameters."""
    ps = []
    for p in f.params:
        t = qt(p)
        if z and "z_type" in t:
            continue
        ps.append(_st(t))
    return (f.qual, _st(f.sig.split("(")[0]), tuple(ps), bool(f.is_inst))


Z_ONLY_FUNCS = {"ClipperBase::SetZ", "ClipperD::ZCB", "ClipperD::CheckCallback", "Clipper64::SetZCallback", "ClipperD::SetZCallback",
                "ClipperOffset::SetZCallback", "ClipperOffset::ZCB", "MakePathZ", "MakePathZD"}
ALLOW_DIFF = {
    "operator<<": "stream output of a Point prints its z in the USINGZ build (formatting only, by design)",
}


def rule_usingz(db_base, db_z, chk, rule="ZERASE", only=None):
    """only: optional predicate on Func restricting the comparison (e.g. to one source file) - used by the geometry properties that
    also hold in the USINGZ build, where the #ifdef copies of the offset code must say what the plain code says."""
    lib0 = lambda f: f.file and ("/clipper2/" in f.file or "/Clipper2Lib/src/" in f.file) and not f.file.endswith("clipper.export.h")
    lib = (lambda f: lib0(f) and only(f)) if only else lib0
    fb = {}
    for f in db_base.funcs:
        if lib(f) and not f.is_pattern:
            fb.setdefault(_sig_key(f, False), []).append(f)
    n = 0
    unmatched = []
    seen_keys = set()
    used_count = {}
    for g in db_z.funcs:
        if not lib(g) or g.is_pattern:
            continue
        base_q = g.qual
        if g.qual in Z_ONLY_FUNCS or g.qual.endswith("::SetZ"):
            n += 1
            ok, why, node = z_only_function(db_z, g)
            chk.instance(rule + ".z-only-function", {"function": g.qual, "where": g.where}, ok=ok)
            if not ok:
                chk.violation(rule + ".z-only-function", g.qual, "effect", "function that exists only in the USINGZ build has an effect "
                              "other than assigning z members / calling the Z callback: %s" % why, where(node) if node else g.where, cfg="z")
            continue
        key = _sig_key(g, True)
        cands = fb.get(key, [])
        used = used_count.get(key, 0)
        if used >= len(cands):
            unmatched.append(g)
            continue
        seen_keys.add(key)
        f = cands[used]               # same-key overloads (distinct templates) are paired in declaration order
        used_count[key] = used + 1
        n += 1
        er = ZErase(db_z, g)

        def drop_arg(call, arg, idx, total, _er=er):
            return idx == total - 1 and _is_z_expr(arg)
        al = Aligner(db_base, db_z, erase=er, drop_arg=drop_arg)
        ok = True
        try:
            # constructor initialisers: drop those of member z
            ia = [i for i in f.inits]
            ib = [i for i in g.inits if (i.get("anyInit") or {}).get("name") not in (Z_MEMBERS | {"z"})]
            if len(ia) != len(ib):
                raise Diff(f.node, g.node, "different member initialisers")
            for p, q in zip(ia, ib):
                xa, xb = [c for c in kids(p) if c.get("kind")], [c for c in kids(q) if c.get("kind")]
                if xa and xb:
                    al.same(xa[-1], xb[-1])
            al.same_list(al.stmts(f.body), al.stmts(g.body), "body")
        except Diff as d:
            ok = False
            if g.name in ALLOW_DIFF:
                chk.allow(rule, g.qual, ALLOW_DIFF[g.name])
                ok = True
            else:
                chk.violation(rule, g.qual, _short(d),
                              "the USINGZ build of this function differs from the plain build by more than Z-only constructs (%s): "
                              "plain: %s | USINGZ: %s" % (d.why, canon(d.a)[:110] if d.a else "-", canon(d.b)[:110] if d.b else "-"),
                              where(d.b or d.a or g.node), cfg="z")
        chk.instance(rule, {"function": g.qual, "z_only_locals": sorted(db_z.by_id[v].get("name", "?") for v in er.zvars if v in db_z.by_id)[:4]}
                     if (er.zvars or n % 40 == 1) else None, ok=ok)
    # functions of the plain build without a USINGZ counterpart
    for key, fs in fb.items():
        for f in fs[used_count.get(key, 0):]:
            unmatched.append(f)
    ignored = []
    real = []
    for u in unmatched:
        if any("z_type" in qt(p) for p in u.params):
            ignored.append((u.qual, "USINGZ-only API overload with an explicit z parameter"))
        elif u.cls and "<" in u.cls:
            ignored.append((u.qual, "member of a class-template instantiation that only one build happens to instantiate"))
        else:
            real.append(u)
    chk.extra["zerase_unpaired_ignored"] = ignored
    if only:
        return n
    if len(real) > 12:
        raise AnalysisBroken("%d functions could not be paired between the USINGZ and the plain build: %s" % (len(real), [u.qual for u in real][:8]))
    for u in real:
        # a function present in only one build (other than the known Z-only API) is itself a difference
        chk.violation(rule + ".unpaired", u.qual, "unpaired", "function exists in only one of the two builds (signature %s)" % u.sig[:80],
                      u.where, cfg="z")
    return n


def _short(d):
    s = (canon(d.b)[:40] if d.b else "") or (canon(d.a)[:40] if d.a else "")
    return re.sub(r'\s+', ' ', s)


def z_only_function(db, f):
    """A function of the USINGZ-only API may write only z members and its own locals, and call only the Z callbacks / pure helpers."""
    local = {x["id"] for x in walk(f.body) if x.get("kind") == "VarDecl" and "id" in x}
    for x in walk(f.body):
        k = x.get("kind")
        if k == "BinaryOperator" and x.get("opcode") == "=" or k == "CompoundAssignOperator":
            l = _u(kids(x)[0])
            if _is_z_member(l):
                continue
            if l.get("kind") == "DeclRefExpr" and l.get("referencedDecl", {}).get("id") in local:
                continue
            if l.get("kind") == "MemberExpr" and l.get("name") in Z_MEMBERS:
                continue
            if l.get("kind") in ("ArraySubscriptExpr", "CXXOperatorCallExpr") and f.name.startswith("MakePathZ"):
                continue
            return False, "assignment to %s" % canon(l), x
        if k == "UnaryOperator" and x.get("opcode") in ("++", "--"):
            l = _u(kids(x)[0])
            if l.get("kind") == "DeclRefExpr" and l.get("referencedDecl", {}).get("id") in local:
                continue
            return False, "increment of %s" % canon(l), x
        if k in ("CallExpr", "CXXMemberCallExpr", "CXXOperatorCallExpr"):
            nm = _callee_name(db, x)
            if nm in Z_CALLS or nm in Z_MEMBERS or nm in PURE_CALLS or nm in ("operator*", "operator=", "operator[]") or nm.startswith("operator"):
                if nm == "operator=":
                    l = _u(kids(x)[1])
                    if l.get("kind") == "MemberExpr" and l.get("name") in Z_MEMBERS:
                        continue
                    if l.get("kind") == "DeclRefExpr" and l.get("referencedDecl", {}).get("id") in local:
                        continue
                    if f.name.startswith("MakePathZ"):
                        continue
                    return False, "assignment to %s" % canon(l), x
                continue
            return False, "call of %s" % nm, x
        if k in ("CXXNewExpr", "CXXDeleteExpr"):
            return False, "allocation", x
    return True, "", None


# ---------------------------------------------------------------------------
# 64 vs D siblings
# ---------------------------------------------------------------------------

RENAMES_D = [("PathsD", "Paths64"), ("PathD", "Path64"), ("PolyPathD", "PolyPath64"), ("PolyTreeD", "PolyTree64"), ("BuildPathD", "BuildPath64"),
             ("BuildPathsD", "BuildPaths64"), ("BuildTreeD", "BuildTree64"), ("PointD", "Point64"), ("Point<double>", "Point<long>"),
             ("vector<vector<Point<double>>>", "vector<vector<Point<long>>>"), ("vector<Point<double>>", "vector<Point<long>>"),
             ("PolyPathDList", "PolyPath64List"), ("double", "long"), ("ClipperD", "Clipper64"),
             ("cbegin", "begin"), ("cend", "end"),
             ("CreateCPolyPathD", "CreateCPolyPath64"), ("GetPolyPathArrayLenD", "GetPolyPathArrayLen64"),
             ("GetPolytreeCountAndCStorageSizeD", "GetPolytreeCountAndCStorageSize64")]


def _rename_d(s):
    for a, b in RENAMES_D:
        s = s.replace(a, b)
    return s


PAIRS_64_D = [
    ("BuildPath64", None, "BuildPathD", None),
    ("Clipper64::BuildPaths64", None, "ClipperD::BuildPathsD", None),
    ("Clipper64::BuildTree64", None, "ClipperD::BuildTreeD", None),
    ("Clipper64::Execute", "Paths64 &)", "ClipperD::Execute", "PathsD &)"),
    ("PolyPath64::AddChild", None, "PolyPathD::AddChild", "Path64"),
    ("PolyPath64::Clear", None, "PolyPathD::Clear", None),
    ("PolyPath64::Count", None, "PolyPathD::Count", None),
    ("PolyPath64::Area", None, "PolyPathD::Area", None),
    ("PolyPath64::Child", None, "PolyPathD::Child", None),
    ("PolyPath64::operator[]", None, "PolyPathD::operator[]", None),
    ("CreateCPolyPath64", None, "CreateCPolyPathD", None),
    ("GetPolyPathArrayLen64", None, "GetPolyPathArrayLenD", None),
    ("GetPolytreeCountAndCStorageSize64", None, "GetPolytreeCountAndCStorageSizeD", None),
]


def rule_64_d(db, chk, cfg, rule="SIBLING.64-D", only=None):
    n = 0
    for qa, ia, qb, ib in PAIRS_64_D:
        if only and qa not in only:
            continue
        fas = [f for f in db.find(qa) if ia is None or ia in f.sig]
        fbs = [f for f in db.find(qb) if ib is None or ib in f.sig]
        if qa == "Clipper64::Execute":
            # pair the overloads by parameter count and tree/paths flavour
            pairs = []
            for f in db.find(qa):
                for g in db.find(qb):
                    if len(f.params) == len(g.params) and _rename_d(_st(g.sig)) == _st(f.sig).replace("Clipper2Lib::", ""):
                        pairs.append((f, g))
            if len(pairs) != 4:
                raise AnalysisBroken("could not pair the 4 Execute overloads of Clipper64 and ClipperD (%d pairs)" % len(pairs))
        else:
            if len(fas) != 1 or len(fbs) != 1:
                raise AnalysisBroken("sibling pair %s / %s not found uniquely (%d / %d)" % (qa, qb, len(fas), len(fbs)))
            pairs = [(fas[0], fbs[0])]
        for f, g in pairs:
            n += 1
            ok = True

            def drop_arg(call, arg, idx, total):
                s = canon(arg)
                return s in ("inv_scale", "invScale_")

            def drop_stmt(s):
                t = canon(s)
                return t in ("CheckCallback()", "polytree.SetScale(invScale_)")

            def rewrite(e):
                # x * inv_scale  ->  x      (de-scaling of emitted coordinates)
                if e.get("kind") == "BinaryOperator" and e.get("opcode") == "*":
                    r = _u(kids(e)[1])
                    if canon(r) in ("inv_scale", "invScale_"):
                        return _u(kids(e)[0])
                if e.get("kind") in ("CXXStaticCastExpr",) and "double" in dqt(e):
                    return e
                return e
            erase = None
            if "z" in cfg.split("+"):
                pass
            def equiv(a, b):
                # emit point P  <->  emit (P.x * inv_scale, P.y * inv_scale [, P.z])
                if a.get("kind") == "CXXMemberCallExpr" and b.get("kind") == "CXXMemberCallExpr":
                    sa, sb = canon(a), canon(b)
                    m = re.match(r'^(\w+)\.emplace_back\((\w+)\)$', sa)
                    if m:
                        v, pnt = m.group(1), m.group(2)
                        pat = r'^%s\.emplace_back\(\(%s\.x \* (inv_scale|invScale_)\), \(%s\.y \* (inv_scale|invScale_)\)(, %s\.z)?\)$' % (v, pnt, pnt, pnt)
                        if re.match(pat, sb):
                            return True
                return False
            al = Aligner(db, db, rename=_rename_d, drop_arg=drop_arg, drop_stmt=drop_stmt, rewrite=rewrite, equiv=equiv)
            try:
                la, lb = al.stmts(f.body), al.stmts(g.body)
                if f.qual == "Clipper64::Execute" and len(f.params) == 4 and "Paths64 &, " in f.sig.replace("Clipper2Lib::", ""):
                    # listed exception: Clipper64 clears its outputs before ExecuteInternal, ClipperD inside BuildPathsD
                    la2 = [s for s in la if canon(s) not in ("closed_paths.clear()", "open_paths.clear()")]
                    if len(la2) != len(la):
                        chk.allow(rule, "Clipper64::Execute(paths)", "clears its output vectors before ExecuteInternal whereas ClipperD does so in "
                                                                     "BuildPathsD; differs only when execution fails")
                    la = la2
                al.same_list(la, lb, "body")
            except Diff as d:
                ok = False
                chk.violation(rule, g.qual, _short(d),
                              "%s is not %s modulo type renames and de-scaling (%s): 64: %s | D: %s"
                              % (g.qual, f.qual, d.why, canon(d.a)[:120] if d.a else "-", canon(d.b)[:120] if d.b else "-"),
                              where(d.b or d.a or g.node), cfg=cfg)
            chk.instance(rule, {"pair": "%s / %s" % (f.qual, g.qual), "sig": f.sig[:50], "cfg": cfg}, ok=ok)
    return n
