"""C05 - open subject paths are cut exactly at the clip region boundary.

Decided clauses (necessary): the open-path contribution table
(IsContributingOpen) and the toggle condition applied where an open edge
crosses a closed edge (prefix of IntersectEdges) equal the definition for every
clip type x fill rule x winding cell; the open-path output builders of the 64
and D engines agree (sibling identity).  Where the cuts are, and lengths, are
NOT decided.
"""
from ..astq import AstDB
from ..engines import e3_tables as e3

LEVEL = "other"


def run(chk):
    cfgs = ["base", "z"] if chk.tier == "quick" else ["base", "z", "hi"]
    chk.configs = cfgs
    chk.rule("TRIM.closed-only", "every call of TrimHorz is unreachable for an open edge (dominating conditions interpreted with IsOpen answered true): no vertex of an open "
             "path is trimmed away")
    chk.rule("GUARD", "BuildPath64/D: entry guard table (open paths need two points) and final filter table (only a closed three-point sliver is discarded: an open "
             "piece of three vertices keeps its length)")
    chk.rule("FLAG.sticky", "has_open_paths_ is only switched on where paths are added (`= true`) and off in Clear(): a later closed path cannot switch the "
             "open-path logic of the sweep off")
    chk.rule("T.detach", "an edge that stops contributing clears its output record's pointer to itself: front_edge iff IsFront(edge), else back_edge (IntersectEdges, "
             "DoHorizontal, DoMaxima; selector interpreted for both answers)")
    chk.rule("T.open", "IsContributingOpen == [inside clip] for Intersection, [outside subject and clip] for Union, [outside clip] for "
             "Difference/Xor, on every reachable (fill, clip, wind_cnt, wind_cnt2) cell")
    chk.rule("T.open-toggle", "an open edge crossing a closed edge toggles its contribution iff the closed edge bounds the region the open "
             "path is cut against (non-Union: clip edge on the clip-filled boundary; Union: edge of the closed solution)")
    chk.rule("HORZ.open-end", "DoHorizontal keeps its end-of-segment tests active unless the edge is a closed-path maximum (an open end has no maxima pair)")
    chk.rule("OPEN.flag", "the four output builders pass isOpen = true exactly in the branch where outrec->is_open holds (flow-sensitive on the test)")
    chk.rule("OUTPUT.reset", "every Execute overload empties its open-paths output (directly or in the builder it hands it to) before anything is added to it")
    chk.rule("OPENFLAG.preserved", "has_open_paths_ (which switches IntersectEdges' open-path branch on) is not written by any Execute overload: it is set "
             "by the Add family and reset by Clear together with the paths")
    chk.rule("ADD.closing-vertex", "AddPaths_ drops a trailing vertex equal to the first one iff the path is closed")
    chk.rule("SIBLING.64-D", "BuildPath64 / BuildPathD treat open paths alike; BuildTreeD equals BuildTree64 modulo renames and de-scaling (the open pieces of a PolyTreeD run are converted with the inverse scale like the closed ones)")
    for cfg in cfgs:
        db = AstDB(cfg)
        e3.detach_table(db, chk, cfg)
        from ..engines import e10_pipeline as _e10t
        _e10t.rule_trim_closed_only(db, chk, cfg)
        from ..engines import e10_pipeline as _e10f
        _e10f.rule_sticky_open_flag(db, chk, cfg)
        _e10f.rule_guard(db, chk, cfg)           # the builders' final filter must not discard an open three-vertex piece
        e3.table_open(db, chk, cfg)
        e3.table_open_toggle(db, chk, cfg)
        e3.closing_vertex_rule(db, chk, cfg)
        e3.horz_open_end_rule(db, chk, cfg)
        from ..engines import e10_pipeline as e10
        e10.rule_open_flag(db, chk, cfg)
        # the open solution is rebuilt, not appended to what the caller's vector held
        execs = [g for g in db.find("Clipper64::Execute") + db.find("ClipperD::Execute")]
        e10.rule_outputs_reset(db, chk, cfg, execs, only=lambda g, p0: "open" in (p0.get("name") or ""))
        # the open-path flag describes the loaded input: no Execute may change it (the open paths themselves stay loaded)
        from ..engines import e2_state as e2
        from .c12 import BASE
        for cls in (["ClipperBase", "Clipper64"], ["ClipperBase", "ClipperD"]):
            eng = e2.E2(db, chk, cfg, cls)
            e2.rule_config_preserved(eng, chk, cfg, db.find(cls[-1] + "::Execute"), BASE, {}, rule="OPENFLAG.preserved", only={"has_open_paths_"})
        try:
            from ..engines import e6_siblings as e6
        except ImportError:
            e6 = None
        if e6 is not None:
            e6.rule_64_d(db, chk, cfg, only=("BuildPath64", "Clipper64::BuildTree64"))
    chk.floor("T.open", 600 * len(cfgs))
    chk.floor("T.open-toggle", 400 * len(cfgs))
    chk.exhaustive = True
    chk.explanation = (
        "Two decision tables extracted by abstract interpretation of the AST over a verified-uniform finite partition and compared with "
        "oracles written from the property's wording: which open edges contribute at a local minimum, and at which closed edges an open "
        "path switches between inside and outside. NOT decided: positions of the cuts, lengths, independence of the closed solution.")
