"""C19 - Minkowski sum and difference are the swept pattern.

The swept-region equality is geometric and is NOT decided.  Decided are the structural necessary conditions: empty
input gives an empty result before anything is indexed; the sum adds and the difference subtracts the pattern point;
the closing edge of the path is swept iff isClosed; the four quad corners; every quad is made positively oriented
before the NonZero union; the public functions pass the right flags; the PathD overloads scale in and out (E8).
"""
from ..astq import AstDB
from ..engines import e12_plumbing as e12
from ..engines import e8_scale as e8

LEVEL = "other"


def run(chk):
    cfgs = ["base", "z"]
    chk.configs = cfgs
    for r, d in (("MINK.empty", "empty pattern or path -> empty result, before any indexing"),
                 ("MINK.sign", "isSum adds, otherwise subtracts, the pattern point"),
                 ("MINK.point-ops", "Point::operator+ / operator- build (x +- b.x, y +- b.y) in every build (interpreted on two valuations)"),
                 ("MINK.closing-edge", "path edges i = delta..pathLen-1 with delta = isClosed ? 0 : 1 and g starting at the last / first point"),
                 ("MINK.orientation", "every quad is reversed if not positive before it is stored"),
                 ("MINK.quad", "quad corners (g,h) (i,h) (i,j) (g,j)"),
                 ("MINK.roles", "every call of detail::Minkowski (public functions and recursion) passes the caller's pattern to the pattern slot and its path to the path slot"),
                 ("MINK.union", "MinkowskiSum/Diff = Union(Minkowski(pattern, path, true/false, isClosed), NonZero), 64 and D overloads"),
                 ("SCALE.wrapper", "PathD overloads: inputs scaled by 10^precision, result de-scaled")):
        chk.rule(r, d)
    for cfg in cfgs:
        db = AstDB(cfg)
        e12.minkowski_rules(db, chk, cfg)
        e12.point_ops_rule(db, chk, cfg)
        e8.rule_wrappers(db, chk, cfg, only=lambda f: f.name in ("MinkowskiSum", "MinkowskiDiff"))
    chk.floor("MINK.union", 4 * len(cfgs))
    chk.floor("SCALE.wrapper", 2 * len(cfgs))
    chk.explanation = (
        "Structural necessary conditions of C19 read off the AST of detail::Minkowski and its four public wrappers. The statement that the "
        "union of the parallelograms equals the swept region (and the 2-unit tolerance) is NOT decided.")
