"""C13 - results are independent of representation and obey set algebra.

Decided clauses (necessary): the closed contribution table is symmetric under
path reversal (Positive <-> Negative with all winding numbers negated, EvenOdd
and NonZero unchanged) and under exchanging subject and clip for Intersection,
Union and Xor; the three sort comparators are strict weak orders that depend
only on their keys.  Permutation/rotation invariance of the sweep and the
algebraic identities are NOT decided.
"""
from ..astq import AstDB
from ..engines import e3_tables as e3
from ..engines import e9_safety as e9

LEVEL = "other"


def _wrapper_cliptype(db, chk, cfg, rule="WRAPPER.cliptype"):
    """The named convenience functions Intersect / Union / Difference / Xor hand BooleanOp the clip type of their own name: the algebraic
    identities of C13 (Xor = Union minus Intersection, ...) are stated for the named operations, and a wrapper that forwards the wrong
    enumerator computes another operation under that name (same signature, so nothing else can tell the twins apart)."""
    from ..astq import walk, kids, canon, where
    from ..extract import AnalysisBroken
    names = ("Intersect", "Union", "Difference", "Xor")
    n = 0
    for f in db.funcs:
        if f.is_pattern or f.body is None or f.cls or f.name not in names:
            continue
        for c in walk(f.body):
            if c.get("kind") != "CallExpr" or db.callee(c)[0] != "BooleanOp":
                continue
            args = db.call_args(c)
            if not args:
                continue
            a = args[0]
            while a.get("kind") in ("ImplicitCastExpr", "ParenExpr") and kids(a):
                a = kids(a)[0]
            en = (a.get("referencedDecl") or {}).get("name") if a.get("kind") == "DeclRefExpr" else None
            n += 1
            ok = en is not None and (a.get("referencedDecl") or {}).get("kind") == "EnumConstantDecl" and en.startswith(f.name)
            chk.instance(rule, {"wrapper": f.name, "sig": f.sig[:60], "clip_type": en or canon(a)[:30], "cfg": cfg}, ok=ok)
            if not ok:
                chk.violation(rule, f.qual, "%s|%s" % (f.sig[:40], en), "%s (%s) hands BooleanOp the clip type %s: the operation computed under the name %s is not %s"
                              % (f.name, f.sig[:60], en or canon(a)[:30], f.name, f.name), where(c), cfg=cfg)
    if n < 8:
        raise AnalysisBroken("WRAPPER.cliptype: fewer than 8 Intersect / Union / Difference / Xor wrappers calling BooleanOp (%s)" % cfg)
    return n


def run(chk):
    cfgs = ["base", "z"]
    chk.configs = cfgs
    chk.rule("LOOP", "AddPaths_: no local is carried from one path of a call to the next (except the cursor into the shared vertex block): what a path "
             "contributes does not depend on the paths before it")
    chk.rule("PRECISION.forwarded", "every function with a precision parameter uses it for more than validation (pow(10, .), a ClipperD constructor, another "
             "function's precision) and constructs no ClipperD with the default precision: integer scaling / translation of decimal data is honoured")
    chk.rule("WRAP.no-passthrough", "Intersect / Union / Difference / Xor / BooleanOp never hand one of their path parameters back as the result (unless known "
             "empty): the result is what the sweep produced under the fill rule")
    chk.rule("FLOAT.double-only", "no float-typed expression and no single-precision math function in any library function")
    chk.rule("POLY.intersect", "GetSegmentIntersectPt (both precision variants): as a real-number formula the stored point lies on the lines through both "
             "segments, and 'parallel' is reported iff the cross product of the directions vanishes (identity of polynomial normal forms)")
    chk.rule("POLY.cross", "CrossProductSign / IsCollinear / ProductsAreEqual compare two products whose difference is identically the cross product "
             "(pt2-pt1)x(pt3-pt2); portable path: magnitudes and signs of the same factors; 128-bit tail returns sign(ab-cd) / (ab==cd) on every ordering")
    chk.rule("TYPE.wide-kept", "no 128-bit product is converted to a narrower arithmetic type before it is compared (integer scaling up to 2^40 must "
             "not change which way a cross-product test goes)")
    chk.rule("IP.on-edge", "an intersection point clamped into its scanbeam gets its x recomputed on one of the two edges at the clamped y (a translated or "
             "mirrored input reaches this branch at other vertices; the result must not depend on it)")
    chk.rule("POLY.measure", "GetClosestPointOnSegment (used to pull an out-of-scanbeam intersection back onto a nearly horizontal edge - a branch taken for one "
             "placement of a figure and not for its transpose or mirror image), CrossProduct, DotProduct, DistanceSqr and PerpendicDistFromLineSqrd are their "
             "defining polynomials: the returned point minus offPt is perpendicular to the segment and lies on its line (engine E14)")
    chk.rule("WRAPPER.cliptype", "Intersect / Union / Difference / Xor (Paths64 and PathsD) hand BooleanOp the clip type of their own name")
    chk.rule("SORTED.invalidate", "every public method that may add local minima invalidates the sorted flag, which becomes true only after a sort: paths added after "
             "an Execute are swept in y order whatever the order they were added in")
    chk.rule("POLY.topx", "TopX is the x of the line through bot and top at the given y (with dx = GetDx(bot, top) as SetDx stores it); every shortcut "
             "return agrees with the general formula under its guard (identity of polynomial normal forms)")
    chk.rule("T.symmetry", "T(Positive, wc, wc2) == T(Negative, -wc, -wc2); NonZero invariant under negation; T independent of own path "
             "type for Intersection / Union / Xor")
    chk.rule("AXIS.mirror", "twin locals for the two axes read mirrored coordinates (transposing the input transposes the result)")
    chk.rule("T.point-equality", "Point::operator== is true iff x and y agree (z ignored), operator!= its negation: a duplicate or closing vertex is "
             "recognised whatever its z (8 cells per operator and instantiation)")
    chk.rule("INT64.product", "no product is formed in a signed 64-bit integer type (integer scaling of the input up to 2^40 must not change "
             "which branch a cross-product test takes)")
    chk.rule("ADD.closing-vertex", "a closing vertex equal to the first one is dropped for closed paths (and only for those)")
    chk.rule("T.comparator", "LocMinSorter, IntersectListSort, HorzSegSorter: irreflexive, asymmetric, transitive, transitive incomparability")
    chk.rule("AXIS.homogeneous", "GetSegmentIntersectPt (both precision variants) never mixes x and y quantities in sums, comparisons or stores")
    if "hi" not in cfgs:
        # the CLIPPER2_HI_PRECISION variant of the intersection point, in the quick tier too: a constant that does not cancel shifts every
        # crossing by an amount that depends on where the figure sits - no translation or transposition equivariance
        from ..engines import e14_poly as _e14h
        _dbh = AstDB("hi")
        _e14h.rule_intersect(_dbh, chk, "hi")
        _e14h.rule_axis(_dbh, chk, "hi")
    for cfg in cfgs:
        _wrapper_cliptype(AstDB(cfg), chk, cfg)
        db = AstDB(cfg)
        e3.table_symmetry(db, chk, cfg)
        e3.comparators(db, chk, cfg)
        e9.rule_int64_product(db, chk, cfg)
        e3.point_equality_table(db, chk, cfg)
        e3.axis_mirror_rule(db, chk, cfg)
        e3.no_single_precision(db, chk, cfg)
        e3.closing_vertex_rule(db, chk, cfg)
        # path order: nothing written while one path of an AddSubject / AddClip call is turned into vertices is read while the next one is
        from ..engines import e2_state as _e2
        _eng = _e2.E2(db, chk, cfg, ["ClipperBase"])
        _f = db.one("AddPaths_")
        # (the loop over the paths that builds the vertices: the one that itself contains a loop over the points of a path)
        _lp = _e2.find_loops(_f, lambda l: "paths" in _e2.loop_header_text(l) and any(
            y is not l and y.get("kind") in ("CXXForRangeStmt", "ForStmt", "WhileStmt") for y in __import__("vlib.astq", fromlist=["walk"]).walk(l)))
        if len(_lp) != 1:
            from ..extract import AnalysisBroken as _AB
            raise _AB("path loop of AddPaths_ not found")
        _e2.rule_loop(_eng, chk, cfg, _f, _lp[0], {"clean": {}, "dbu": {}, "allow": {}, "config": {}}, [{}], "path loop of AddPaths_",
                      extra_allow={"L:v": "the cursor into the call's vertex block: each path takes the vertices after the ones the paths before it used"})
        from ..engines import e8_scale as _e8p
        _e8p.rule_precision_forwarded(db, chk, cfg)
        from ..engines import e8_scale as _e8
        _e8.rule_no_passthrough(db, chk, cfg)
        from ..engines import e14_poly as e14
        e14.rule_intersect(db, chk, cfg)
        e14.rule_axis(db, chk, cfg)
        e9.rule_wide_kept(db, chk, cfg)
        e14.rule_cross(db, chk, cfg)
        e3.ip_on_edge_rule(db, chk, cfg)
        e14.rule_topx(db, chk, cfg)
        e14.rule_measure(db, chk, cfg)       # GetClosestPointOnSegment: only reached for some placements / orientations of the same figure
        from ..engines import e2_state as _e2s
        from .c12 import _public_methods as _pubm
        for _cls in (["ClipperBase", "Clipper64"], ["ClipperBase", "ClipperD"]):
            # the result must not depend on the order in which paths were handed over - also when some arrive after an Execute
            if _e2s.rule_sorted_flag(_e2s.E2(db, chk, cfg, _cls), chk, cfg, _pubm(db, set(_cls))) < 6:
                from ..extract import AnalysisBroken as _AB13
                raise _AB13("SORTED.invalidate: fewer than 6 instances")
    chk.floor("T.symmetry", 1700 * len(cfgs))
    chk.floor("T.comparator", 1600 * len(cfgs))
    chk.exhaustive = True
    chk.explanation = (
        "Symmetries of the contribution table are decided on the table extracted by abstract interpretation (every reachable cell paired "
        "with its image). Each comparator is interpreted on all triples of a key domain large enough to realise every weak ordering of three "
        "elements and checked against the four strict-weak-order axioms; comparisons are logged to verify they only relate the keys. "
        "NOT decided: tie-breaking in IsValidAelOrder, stability across permutations of equal minima, the algebraic identities.")
