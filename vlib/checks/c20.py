"""C20 - path utilities keep their contracts.

Decided clauses (necessary): (MEMBER/FORWARD) TrimCollinear, SimplifyPath, RamerDouglasPeucker and StripNearEqual append
to their result only elements of the input path, inside loops through forward-only cursors - a subsequence by
construction; (MONO) keep/remove flags are monotone, so end points flagged by the caller stay flagged; (ERASE)
StripDuplicates only erases.  The epsilon guarantees, area preservation and idempotence are NOT decided.
"""
from ..extract import AnalysisBroken
from ..astq import AstDB
from ..engines import e11_paths as e11

LEVEL = "other"


def run(chk):
    cfgs = ["base", "z"]
    chk.configs = cfgs
    chk.rule("INT64.product", "no multiplication whose result type is a signed 64-bit integer (Distance, Length, Area, the distance measures of "
             "SimplifyPath / RDP on Path64 widen each coordinate difference to double before squaring)")
    chk.rule("ELLIPSE.radii", "Ellipse's guards, for every sign pattern of the radii: non-positive radiusX -> empty path; otherwise the parametrisation runs with "
             "radiusX and a positive radiusY (radiusX when zero or negative was given)")
    chk.rule("TAIL.loop", "StripDuplicates / StripNearEqual: every pop_back() of a trailing point sits in a loop whose condition compares the last point with the first - the "
             "loop exit is the postcondition 'a closed path does not end on its start'")
    chk.rule("RDP.spans", "RDP examines the sub-spans (begin, idx) and (idx, end) exactly when they have an interior vertex (guards interpreted for sub-span lengths "
             "1..4) and hands the recursion exactly those spans")
    chk.rule("MEMBER", "every append to the returned path takes path[i], *it or a local copy of one - never a computed vertex")
    chk.rule("FORWARD", "cursors feeding appends inside loops are only incremented")
    chk.rule("MONO", "within one function every assignment to flags[..] stores the same literal")
    chk.rule("END.pinned", "SimplifyPath: end-point distances of an open path are pinned to MAX_DBL and every later write distSqr[V] is "
             "guarded on the same V (guard interpreted for V = 0 and V = high)")
    chk.rule("TRIM.last-kept", "TrimCollinear's main loop tests IsCollinear(last kept vertex, candidate, next input vertex); the kept iterator "
             "is re-pointed to the candidate whenever one is kept")
    chk.rule("EPS.threshold", "every comparison of a squared distance with the squared epsilon in SimplifyPath and RDP draws the line at "
             "'removable iff distance <= epsilon' (all sites agree)")
    chk.rule("EPS.degree", "every argument bound to an epsilon / squared-epsilon parameter has that parameter's degree (Sqr doubles it, a local has its "
             "initialiser's): the threshold applied by the callee is the caller's epsilon, not its square or root")
    chk.rule("NEIGHBOURS.fresh", "SimplifyPath: after a removal the two distances next to the gap are recomputed from the vertices' own surviving "
             "neighbours (one loop iteration interpreted on a generic ring, both outcomes of the smaller-distance test)")
    chk.rule("POLY.cross", "CrossProductSign / IsCollinear / ProductsAreEqual compare two products whose difference is identically the cross product "
             "(pt2-pt1)x(pt3-pt2); portable path: magnitudes and signs of the same factors; 128-bit tail returns sign(ab-cd) / (ab==cd) on every ordering")
    chk.rule("POLY.measure", "CrossProduct, DotProduct, DistanceSqr, PerpendicDistFromLineSqrd, GetClosestPointOnSegment equal their defining "
             "real-number formulas (identity of polynomial normal forms; rounding not decided)")
    chk.rule("POLY.utilities", "Ellipse: first vertex center + (rx, 0), vertex i = center + (rx dx, ry dy), the direction starts as (cos A, sin A) and is turned by A "
             "using the old dx for the new dy; TranslatePath adds (dx, dy) to every vertex (identities of polynomial normal forms)")
    chk.rule("ERASE", "StripDuplicates calls only erase / pop_back on its path")
    chk.rule("BOUNDS.minmax", "GetBounds (every overload): the per-vertex update leaves min' = min(min, v) and max' = max(max, v) in all four "
             "situations of a coordinate, the sentinel state (both at once) included - its defining equation")
    for cfg in cfgs:
        db = AstDB(cfg)
        e11.rule_membership(db, chk, cfg)
        e11.rule_monotone_flags(db, chk, cfg)
        e11.rule_erase_only(db, chk, cfg)
        e11.rule_pinned_ends(db, chk, cfg)
        e11.rule_trim_last_kept(db, chk, cfg)
        e11.rule_eps_threshold(db, chk, cfg)
        e11.rule_tail_loop(db, chk, cfg)
        e11.rule_ellipse_radii(db, chk, cfg)
        from ..engines import e9_safety as e9
        e9.rule_int64_product(db, chk, cfg)      # Length / Distance / Area on Path64: products of coordinate differences are formed in double
        e11.rule_rdp_spans(db, chk, cfg)
        if e11.rule_eps_degree(db, chk, cfg) < 6:
            raise AnalysisBroken("EPS.degree: fewer than 6 tolerance arguments with a derivable degree in configuration %s" % cfg)
        e11.rule_simplify_neighbours(db, chk, cfg)
        from ..engines import e3_tables as e3
        e3.bounds_update_table(db, chk, cfg)
        from ..engines import e14_poly as e14
        e14.rule_cross(db, chk, cfg)
        e14.rule_measure(db, chk, cfg)
        e14.rule_utilities(db, chk, cfg)
    n = len(cfgs)
    chk.floor("MEMBER", 12 * n)
    chk.floor("MONO", 3 * n)
    chk.floor("FORWARD", 4 * n)
    chk.floor("ERASE", 2 * n)
    chk.floor("END.pinned", 6 * n)
    chk.explanation = (
        "Subsequence-by-construction: the utilities never compute a vertex, they copy input elements selected by flags or iterators; that, and "
        "the monotonicity of the flag arrays, are syntactic facts of the instantiated templates (int64_t and double). The one place where a "
        "flag is cleared (RDP, `flags[end--] = false`) is a genuine defect recorded as a known finding. NOT decided: distances to epsilon, "
        "area preservation, idempotence, the exact set of corner vertices.")
