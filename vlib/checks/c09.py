"""C09 - RectClipLines returns exactly the parts of each polyline inside the rectangle.

Partial: the lengths and positions of the cut pieces are numeric and are NOT decided.  Decided, each a necessary condition
that is visible in the code:
T.location        GetLocation classifies a point correctly on all 25 orderings of (pt.x; left < right) x (pt.y; top < bottom) - the
                  clipper adds a vertex as inside on the strength of this answer ("inside the rectangle");
T.rect            the bounding-box predicates are exact and RectClipLines64::Execute uses them as: empty rectangle -> nothing,
                  boxes disjoint -> skip the path; pieces are appended path by path, in the order they were found ("in input order");
T.lines-dispatch  at a boundary crossing a new piece starts exactly when the polyline enters the rectangle, for all 24 (previous,
                  current) location pairs; the pass-through case takes its first crossing from the far end of the segment;
LOOP / CLEAN      nothing written while clipping one polyline is read while clipping the next; scratch containers empty at exit.
"""
from ..astq import AstDB
from ..engines import e3_tables as e3
from ..engines import e2_state as e2
from ..engines import e9_safety as e9
from ..extract import AnalysisBroken
from .c12 import RECT

LEVEL = "other"


def run(chk):
    cfgs = ["base", "z"]
    chk.configs = cfgs
    chk.rule("T.nearest-crossing", "GetIntersection reports the side the segment meets first (the crossing closest to p) for p in every side region - above / level / "
             "below resp. left / level / right - and every possible (entry, exit) pair of sides; false and loc unchanged when nothing is crossed (76 cells)")
    chk.rule("T.next-location", "GetNextLocation (shared by both clippers): from each side region the next vertex is classified on every ordering against the rectangle")
    chk.rule("T.touching", "GetSegmentIntersection with an end point W on the line of the other segment (a, b): true exactly when W lies strictly between a "
             "and b - all orderings, W = p1..p4, horizontal and vertical other segment in both directions; also true with W on a or b itself, the shared end point (80 cells)")
    chk.rule("POLY.intersect", "GetSegmentIntersection: an end point stored as the intersection under `cross == 0` lies on both lines (identically, or by the "
             "guard's equation); the general case hands both segments to GetSegmentIntersectPt, whose result lies on both lines (polynomial normal forms)")
    chk.rule("BOUNDS.minmax", "GetBounds (behind the bounding-box shortcuts) updates min and max with every vertex, the first one included")
    chk.rule("T.location", "GetLocation(rec, pt, loc): strictly inside -> true/Inside; on the boundary -> false and an edge the point lies on; "
             "outside -> true and a side the point lies beyond; all 25 weak orderings, comparisons verified uniform")
    chk.rule("T.rect", "Rect::Intersects == closed boxes meet, Rect::IsEmpty == zero or negative extent on every ordering; RectClipLines64::Execute: "
             "empty -> return; disjoint -> continue; pieces appended in results_ order inside the forward loop over the input paths")
    chk.rule("T.lines-dispatch", "crossing dispatch of RectClipLines64::ExecuteInternal on all (prev, loc) pairs: entering -> Add(ip, start new piece); "
             "leaving -> Add(ip); passing through -> first crossing (taken from the other end of the segment) starts a piece, then Add(ip)")
    chk.rule("START.location", "the location RectClipLines64::ExecuteInternal starts its scan with is the truth about the path's first vertex (its region; on the "
             "boundary: Inside iff the next vertex off the boundary is inside, else the side; the whole path is copied only when no vertex is off the boundary) - 729 scenarios")
    chk.rule("AXIS.homogeneous", "GetSegmentIntersectPt (default and CLIPPER2_HI_PRECISION variants): x quantities are only added to, compared with and stored "
             "into x quantities, y with y (the high-precision variant's local origin is taken per axis; a wrong one costs precision, not algebra)")
    chk.rule("SCAN.start", "the segment scan of ExecuteInternal starts at segment 1 on every path (constant propagation of the cursor: the pre-scan for a "
             "vertex off the boundary must not leave it advanced)")
    chk.rule("INT64.product", "no product is formed in a signed 64-bit integer type: the cross products behind GetSegmentIntersection (which side of a "
             "rectangle edge a vertex lies on) are formed in double; in int64 they wrap for rectangles above 2^31.5 and every crossing is lost")
    chk.rule("LOOP", "nothing written while clipping one polyline is read while clipping the next")
    chk.rule("CLEAN", "the scratch containers are empty again at every normal exit of RectClipLines64::Execute")
    from ..engines import e14_poly as _e14a
    for _cfg in ("base", "hi"):
        if _e14a.rule_axis(AstDB(_cfg), chk, _cfg) < 1:
            raise AnalysisBroken("AXIS.homogeneous: GetSegmentIntersectPt not found (configuration %s)" % _cfg)
    for cfg in cfgs:
        db = AstDB(cfg)
        e3.location_table(db, chk, cfg)
        e3.bounds_update_table(db, chk, cfg)
        e9.rule_int64_product(db, chk, cfg)
        from ..engines import e14_poly as e14
        e3.next_location_table(db, chk, cfg)
        e14.rule_segment_cases(db, chk, cfg)
        e3.touching_between_table(db, chk, cfg)
        e3.nearest_crossing_table(db, chk, cfg)
        e14.rule_intersect(db, chk, cfg)
        e3.rect_shortcuts(db, chk, cfg)
        e3.lines_shortcuts(db, chk, cfg)
        e3.lines_dispatch(db, chk, cfg)
        e3.scan_start_rule(db, chk, cfg, "RectClipLines64::ExecuteInternal", 1)
        e3.start_location_rule(db, chk, cfg, qual="RectClipLines64::ExecuteInternal", anchor="first")
        eng = e2.E2(db, chk, cfg, ["RectClip64", "RectClipLines64"])
        e2.check_classification(eng, RECT, chk, "RectClip64")
        f = db.one("RectClipLines64::Execute")
        ls = e2.find_loops(f, lambda l: l.get("kind") == "CXXForRangeStmt" and "paths" in e2.loop_header_text(l))
        if len(ls) != 1:
            raise AnalysisBroken("path loop of RectClipLines64::Execute not found")
        e2.rule_loop(eng, chk, cfg, f, ls[0], RECT, [{}], "path loop of RectClipLines64::Execute")
        e2.rule_clean(eng, chk, cfg, [f], RECT, [{}])
    chk.floor("T.location", 25 * len(cfgs))
    chk.floor("T.lines-dispatch", 24 * len(cfgs))
    chk.floor("T.rect", 3600 * len(cfgs))
    chk.exhaustive = True
    chk.explanation = (
        "GetLocation and the Rect predicates touch coordinates only through comparisons, so they are decided exactly by interpreting their AST on "
        "every weak ordering of the operands (each comparison logged and verified to relate operands of one ordering group). The crossing "
        "dispatch is a finite table over the Location enum; it is interpreted with Add / GetIntersection intercepted and compared with the "
        "definition 'a piece begins where the polyline enters the rectangle'. Per-path hygiene is the E2 loop/clean dataflow. NOT decided: "
        "where the crossing points are (GetIntersection, GetSegmentIntersection, rounding), GetNextLocation's scan, the order of vertices inside "
        "a piece (Add/GetPath ring), the 1.5 / 1 / 2-unit tolerances - i.e. the numeric content of C09.")
    chk.assumptions = ["Location values are compared only for equality in the dispatch"]
