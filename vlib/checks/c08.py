"""C08 - RectClip equals intersection with the rectangle, path by path.

Decided clause (necessary): the two bounding-box shortcuts of
RectClip64::Execute are exact on every ordering of rectangle and path bounds:
'entirely inside' (closed inclusion) returns the input path unchanged, 'entirely
outside' (closed boxes disjoint) emits nothing, and nothing else takes a
shortcut.  The location state machine, corner insertion and TidyEdges are NOT
decided.
"""
from ..astq import AstDB
from ..engines import e3_tables as e3
from ..engines import e2_state as e2
from ..extract import AnalysisBroken
from .c12 import RECT

LEVEL = "other"


def run(chk):
    cfgs = ["base", "z"]
    chk.configs = cfgs
    chk.rule("T.nearest-crossing", "GetIntersection reports the side the segment meets first (the crossing closest to p) for p in every side region - above / level / "
             "below resp. left / level / right - and every possible (entry, exit) pair of sides; false and loc unchanged when nothing is crossed (76 cells)")
    chk.rule("T.touching", "GetSegmentIntersection with an end point W on the line of the other segment (a, b): true exactly when W lies strictly between a "
             "and b - all orderings, W = p1..p4, horizontal and vertical other segment in both directions; also true with W on a or b itself, the shared end point (80 cells)")
    chk.rule("POLY.intersect", "GetSegmentIntersection: an end point stored as the intersection under `cross == 0` lies on both lines (identically, or by the "
             "guard's equation); the general case hands both segments to GetSegmentIntersectPt, whose result lies on both lines (polynomial normal forms)")
    chk.rule("T.rect", "Rect::Contains(Rect) == closed inclusion, Rect::Intersects == closed boxes meet, Rect::IsEmpty == zero or negative "
             "extent, on every weak ordering of the eight coordinates; RectClip64::Execute uses them as: outside -> continue, "
             "inside -> result.emplace_back(path); continue")
    chk.rule("BOUNDS.minmax", "GetBounds (behind the bounding-box shortcuts) updates min and max with every vertex, the first one included")
    chk.rule("T.location", "GetLocation(rec, pt, loc): strictly inside -> true/Inside; on the boundary -> false and an edge the point lies on; "
             "outside -> true and a side the point lies beyond; all 25 weak orderings")
    chk.rule("T.side-algebra", "GetAdjacentLocation, HeadingClockwise, AreOpposites and the step / verdict of StartLocsAreClockwise equal the arithmetic of "
             "the clockwise cycle Left->Top->Right->Bottom on the whole four-element domain (61 cells)")
    chk.rule("T.next-location", "GetNextLocation: leaving the region of a side, the next vertex is filed under the opposite side first, else an adjacent "
             "side, else Inside (four cases x all positions against the rectangle)")
    chk.rule("CROSSING.latched", "RectClip64's scan: a segment that does not cross the rectangle, met before the first crossing, leaves the crossing marker at Inside "
             "(no-crossing branch executed for the 24 region pairs x rotation senses)")
    chk.rule("CORNER.chain", "closing a path that ends outside: the corner steps RectClip64::ExecuteInternal adds are those of one walk from the end region through "
             "start_locs_ to the first-crossing region (closing block executed for 1360 cases)")
    chk.rule("START.location", "the location RectClip64::ExecuteInternal starts its scan with is the truth about the path's last vertex (its region; on the boundary: "
             "Inside iff the nearest earlier vertex off the boundary is inside, else the side) - prologue interpreted for 729 status scenarios")
    chk.rule("SCAN.start", "the segment scan of RectClip64::ExecuteInternal starts at index 0 (the closing segment) on every path")
    chk.rule("LOOP", "nothing written while clipping one path is read while clipping the next ('path by path')")
    chk.rule("CLEAN", "RectClip64's scratch containers are empty again at every normal exit of Execute")
    for cfg in cfgs:
        db = AstDB(cfg)
        e3.rect_shortcuts(db, chk, cfg)
        e3.location_table(db, chk, cfg)
        e3.bounds_update_table(db, chk, cfg)
        from ..engines import e14_poly as e14
        e14.rule_segment_cases(db, chk, cfg)
        e3.touching_between_table(db, chk, cfg)
        e3.nearest_crossing_table(db, chk, cfg)
        e14.rule_intersect(db, chk, cfg)
        e3.side_algebra_tables(db, chk, cfg)
        e3.next_location_table(db, chk, cfg)
        e3.scan_start_rule(db, chk, cfg, "RectClip64::ExecuteInternal", 0)
        e3.start_location_rule(db, chk, cfg)
        e3.corner_chain_rule(db, chk, cfg)
        e3.crossing_latched_rule(db, chk, cfg)
        eng = e2.E2(db, chk, cfg, ["RectClip64", "RectClipLines64"])
        e2.check_classification(eng, RECT, chk, "RectClip64")
        f = db.one("RectClip64::Execute")
        ls = e2.find_loops(f, lambda l: l.get("kind") == "CXXForRangeStmt" and "paths" in e2.loop_header_text(l))
        if len(ls) != 1:
            raise AnalysisBroken("path loop of RectClip64::Execute not found")
        e2.rule_loop(eng, chk, cfg, f, ls[0], RECT, [{}], "path loop of RectClip64::Execute")
        e2.rule_clean(eng, chk, cfg, [f], RECT, [{}])
    chk.floor("T.rect", 3600 * len(cfgs))
    chk.exhaustive = True
    chk.explanation = (
        "The predicates touch coordinates only through comparisons, so their behaviour is determined by the weak ordering of the operands. "
        "All orderings of (rect.left, rect.right, b.left, b.right) x (rect.top, rect.bottom, b.top, b.bottom) consistent with a non-empty "
        "rectangle and a valid bounding box are enumerated and the AST of each predicate is interpreted on them (comparisons logged to verify "
        "they only relate these operands); the use of the predicates in RectClip64::Execute is checked structurally. NOT decided: everything "
        "RectClip does for paths that do cross the rectangle.")
