"""C03 - closed solution paths are well formed.

Decided clauses (structural part, all inputs): every closed path is built by
CleanCollinear -> BuildPath with reverse_solution_ (PRECEDE, PLUMB); the removal
condition of CleanCollinear is "collinear and (duplicate or not
PreserveCollinear or 180-degree reversal)" (T.removal); BuildPath rejects rings
with fewer than three points and never appends a vertex equal to the last one
appended (GUARD); the D builders equal the 64 builders (SIBLING).  Bounding box,
spikes, crossings, orientation-vs-nesting, idempotence are NOT decided.
"""
from ..astq import AstDB
from ..engines import e10_pipeline as e10
from ..engines import e3_tables as e3
from ..engines import e6_siblings as e6

LEVEL = "other"


def run(chk):
    cfgs = ["base", "z"] if chk.tier == "quick" else ["base", "z", "hi", "noexc"]
    chk.configs = cfgs
    chk.rule("OPEN.flag", "the builders pass isOpen according to outrec->is_open and every caller hands them a real open-solution object: no open piece is built as "
             "(and added to the solution as) a closed ring")
    chk.rule("SCALE.ClipperD", "ClipperD: inputs are scaled by scale_, every output (paths and every level of the tree) is de-scaled by invScale_ / the inherited scale: a "
             "solution vertex left in internal units lies outside the inputs' bounding box")
    chk.rule("LOOP.bound-live", "the output builders' index loops over outrec_list_ re-read its size in every iteration: rings that CleanCollinear splits off while "
             "the solution is built (appended to the list) are emitted too - in the paths output as in the tree output")
    chk.rule("PRECEDE", "every BuildPath64/D(.., isOpen=false, ..) is preceded on all paths, for the same OutRec, by CleanCollinear, and passes reverse_solution_")
    chk.rule("PLUMB", "preserve_collinear_/reverse_solution_ written only by their setters; preserve_collinear_ reaches CleanCollinear and TrimHorz; "
             "OutRec::path built only in CheckBounds; polytree children created from outrec->path")
    chk.rule("GUARD", "BuildPath64/D: degenerate-ring guard table (a null ring is rejected before it is dereferenced); final filter table (only a closed three-point sliver is discarded); copy loop appends only vertices different from the last appended")
    chk.rule("POLY.cross", "CrossProductSign / IsCollinear / ProductsAreEqual compare two products whose difference is identically the cross product "
             "(pt2-pt1)x(pt3-pt2); portable path: magnitudes and signs of the same factors; 128-bit tail returns sign(ab-cd) / (ab==cd) on every ordering")
    chk.rule("T.removal", "CleanCollinear removes a vertex iff collinear and (duplicate of a neighbour or !PreserveCollinear or reversal)")
    chk.rule("POLY.measure", "CrossProduct, DotProduct, DistanceSqr, PerpendicDistFromLineSqrd, GetClosestPointOnSegment equal their defining "
             "real-number formulas (identity of polynomial normal forms; rounding not decided)")
    chk.rule("INT64.product", "no product is formed in a signed 64-bit integer type: the collinearity / spike tests of CleanCollinear (CrossProduct, "
             "DotProduct) must not wrap for large coordinates")
    chk.rule("T.point-equality", "Point::operator== is true iff x and y agree (z ignored): the repeated-vertex tests of CleanCollinear and the builders "
             "mean position")
    chk.rule("SPLIT.no-duplicate", "DoSplitOp inserts the rounded intersection point between prevOp and nextNextOp exactly when it differs from both "
             "(4 cells, guard interpreted)")
    chk.rule("SORTED.invalidate", "the sweep pops local minima from a list it assumes sorted: every public method that may modify minima_list_ writes "
             "minima_list_sorted_ on every path and the flag becomes true only after a sort (out-of-order minima leave bounds without a partner edge, "
             "which are then extended past their top vertex: crossing edges and vertices outside the input bounds in the solution)")
    chk.rule("FLAG.sticky", "has_open_paths_ is only switched on where paths are added and off in Clear(): with the flag off while open paths are loaded, open "
             "edges alter winding counts and are joined into closed rings (orientation no longer matches nesting; Union of the solution is not idempotent)")
    chk.rule("ORIGIN.convex", "GetSegmentIntersectPt (default and CLIPPER2_HI_PRECISION variants): whatever is subtracted from a coordinate before the conversion to "
             "double is itself a coordinate, a min / max choice or the mean of two - the differences stay small, so the computed crossing stays within rounding of the edges")
    chk.rule("REMOVAL.restart", "CleanCollinear restarts its lap (startOp = op2) on every path after a removal")
    chk.rule("SIBLING.64-D", "BuildPathD / BuildPathsD / BuildTreeD are their 64-bit siblings modulo renames and de-scaling")
    from ..engines import e14_poly as _e14o
    for _cfg in ("base", "hi"):
        # "every vertex is within 2 units of an input edge": the crossing point is computed from differences that stay small
        _dbo = AstDB(_cfg)
        if _e14o.rule_origin_convex(_dbo, chk, _cfg) < 1:
            from ..extract import AnalysisBroken as _ABo
            raise _ABo("ORIGIN.convex: GetSegmentIntersectPt not found (configuration %s)" % _cfg)
    for cfg in cfgs:
        db = AstDB(cfg)
        e10.rule_precede(db, chk, cfg)
        e10.rule_plumb(db, chk, cfg)
        e10.rule_guard(db, chk, cfg)
        e3.clean_collinear_condition(db, chk, cfg)
        e3.split_insert_rule(db, chk, cfg)
        e3.point_equality_table(db, chk, cfg)
        from ..engines import e9_safety as e9
        e9.rule_int64_product(db, chk, cfg)
        e10.rule_removal_restart(db, chk, cfg)
        e10.rule_open_flag(db, chk, cfg)       # an open record built as a closed ring puts a raw polyline into the closed solution
        e10.rule_sticky_open_flag(db, chk, cfg)   # with the flag off, open edges go through the closed-path logic: negatively oriented top-level rings
        from ..engines import e8_scale as _e8
        _e8.rule_clipperd(db, chk, cfg)        # "every solution vertex lies inside the bounding box of the inputs": ClipperD's outputs are de-scaled
        from ..engines import e2_state as _e2, e10_pipeline as _e10
        if _e10.rule_bound_live(db, chk, cfg, lambda cls: _e2.E2(db, chk, cfg, cls)) < 4:
            from ..extract import AnalysisBroken as _AB
            raise _AB("LOOP.bound-live: fewer than 4 index loops over a member container that their body can grow (configuration %s)" % cfg)
        from .c12 import _public_methods
        for cls in (["ClipperBase", "Clipper64"], ["ClipperBase", "ClipperD"]):
            # local minima popped out of order leave bounds without a partner: edges run past their top vertex and put vertices outside the input bounds
            if _e2.rule_sorted_flag(_e2.E2(db, chk, cfg, cls), chk, cfg, _public_methods(db, set(cls))) < 6:
                from ..extract import AnalysisBroken as _AB
                raise _AB("SORTED.invalidate: fewer than 6 instances")
        from ..engines import e14_poly as e14
        e14.rule_cross(db, chk, cfg)
        e14.rule_measure(db, chk, cfg)
        e6.rule_64_d(db, chk, cfg, only=("BuildPath64", "Clipper64::BuildPaths64", "Clipper64::BuildTree64"))
    n = len(cfgs)
    chk.floor("PRECEDE", 7 * n)
    chk.floor("PLUMB", 5 * n)
    chk.floor("GUARD", 26 * n)
    chk.floor("T.removal", 48 * n)
    chk.floor("SIBLING.64-D", 3 * n)
    chk.explanation = (
        "The mechanism that removes duplicate, collinear and spike vertices before a closed path is emitted is a fixed pipeline; its presence on "
        "every path to every closed-path builder call is a must-precede dataflow fact, its removal condition and the builders' guards are small "
        "decision tables extracted by interpreting the AST. These are necessary conditions of the structural part of C03 for all inputs. "
        "NOT decided: >= 3 vertices as a consequence for all geometry, bounding box, zero area, crossings, orientation, idempotence under Union.")
