"""C16 - the floating-point API is the integer API on scaled coordinates.

Decided clauses: (SCALE) in every PathsD wrapper each length is multiplied by
the scale exactly once on the way in and divided once on the way out
(dimensional analysis), ClipperD's scale members are wired as documented;
(ROUND) double -> int64 coordinates go through std::round; (SIBLING) the D
output builders are the 64 builders up to the documented de-scaling.
Bit-exact equality of results is NOT decided.
"""
from ..astq import AstDB
from ..engines import e8_scale as e8

LEVEL = "other"


def run(chk):
    cfgs = ["base", "z"] if chk.tier == "quick" else ["base", "z", "hi", "noexc"]
    chk.configs = cfgs
    chk.rule("SCALE.total", "ScalePath / ScalePaths return the element-wise image of their input on every path that has not just reported an error "
             "(must-pass dataflow; pure size tests exempt): no geometry-dependent shortcut drops the caller's paths before the integer operation")
    chk.rule("PRECISION.forwarded", "every function with a precision parameter uses it for more than validation (pow(10, .), a ClipperD constructor, another "
             "function's precision) and constructs no ClipperD with the default precision: integer scaling / translation of decimal data is honoured")
    chk.rule("SCALE.wrapper", "dimensional analysis of every function that derives a scale from a precision: S^1 at every integer-API "
             "length argument (paths, rect, delta, arc_tolerance), S^0 at every return")
    chk.rule("SCALE.ClipperD", "ClipperD: scale_ from pow(10, precision), invScale_ = 1/scale_, inputs * scale_, outputs * invScale_, "
             "PolyTreeD carries invScale_")
    chk.rule("SCALE.ClipperD-table", "for every valid precision the constructor's formula yields the smallest power of two above 10^precision")
    chk.rule("ROUND", "double -> int64 coordinate conversion happens only in Point<int64_t>::Init<double> and ScaleRect<int64_t,double>, "
             "through std::round")
    chk.rule("SIBLING.64-D", "BuildPathD/BuildPathsD/BuildTreeD and ClipperD::Execute are their 64-bit siblings modulo type renames and de-scaling")
    for cfg in cfgs:
        db = AstDB(cfg)
        e8.rule_wrappers(db, chk, cfg)
        e8.rule_clipperd(db, chk, cfg)
        from ..engines import e8_scale as _e8p
        _e8p.rule_precision_forwarded(db, chk, cfg)
        e8.rule_clipperd_scale_table(db, chk, cfg)
        e8.rule_rounding(db, chk, cfg)
        e8.rule_scale_total(db, chk, cfg)
        try:
            from ..engines import e6_siblings as e6
        except ImportError:
            e6 = None
        if e6 is not None:
            e6.rule_64_d(db, chk, cfg)
    n = len(cfgs)
    chk.floor("SCALE.wrapper", 10 * n)
    chk.floor("SCALE.ClipperD", 9 * n)
    chk.floor("SCALE.ClipperD-table", 17 * n)
    chk.floor("ROUND", 6 * n)
    chk.explanation = (
        "A unit system with one base unit S (the scale factor) is inferred for every local of every PathsD wrapper and export: "
        "pow(10, precision) is S^1, 1/scale is S^-1, the scaling helpers add the dimension of their scale argument; every argument that "
        "the integer engine interprets as a length must be S^1 and every value returned to the caller S^0. This decides that deltas, arc "
        "tolerances, rectangles and paths are scaled alike. NOT decided: floating-point evaluation order / bit-exact equality of results.")
