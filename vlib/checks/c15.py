"""C15 - USINGZ builds compute the same geometry and account for every Z.

Decided clauses: (ZERASE) every function of the USINGZ build equals the plain
build's function after erasing Z-only constructs - so the two builds execute the
same x/y computation and `z` never flows into x, y or control; functions that
exist only in the USINGZ build write nothing but z members; (Z.must-follow)
every vertex created at a crossing in IntersectEdges reaches SetZ on every
path; (Z.split) DoSplitOp invokes the callback before storing the point;
(Z.setz-table) SetZ's own decision table.  That the vertex a callback saw is
the one that survives CleanCollinear is NOT decided.
"""
from ..extract import AnalysisBroken
from ..astq import AstDB
from ..engines import e6_siblings as e6
from ..engines import e7_zaccount as e7

LEVEL = "other"


def run(chk):
    pairs = [("base", "z")] if chk.tier == "quick" else [("base", "z"), ("hi", "z+hi"), ("noexc", "z+noexc")]
    chk.configs = sorted({c for p in pairs for c in p})
    chk.rule("ZERASE", "per function: USINGZ AST == plain AST after erasing Z-only statements, trailing Z arguments and results captured "
             "only for Z accounting (node-by-node alignment; any other difference is reported with both fragments)")
    chk.rule("ZERASE.z-only-function", "functions that exist only under USINGZ assign only z members / locals and call only the Z callbacks")
    chk.rule("Z.must-follow", "IntersectEdges: every AddOutPt / AddLocalMinPoly / AddLocalMaxPoly / StartOpenPath result is captured and "
             "reaches SetZ(e1, e2, V->pt) on every path to an exit (callback installed; null results exempt)")
    chk.rule("ZCB.rebound", "ClipperD: after CheckCallback the engine's proxy callback is set iff the user's Z callback is set, whatever it was before "
             "(4 cells); every Execute overload calls CheckCallback before ExecuteInternal")
    chk.rule("Z.out-point-fresh", "[USINGZ] every destination of GetSegmentIntersectPt (which assigns x and y only) is a local declared inside every "
             "loop enclosing the call: no new vertex inherits the z a variable kept from an earlier iteration")
    chk.rule("Z.crossing-default", "[USINGZ] a crossing point that a caller of IntersectEdges constructs itself (DoHorizontal) is constructed without a z argument, or as a "
             "whole copy of one vertex: with no callback installed SetZ leaves the point alone, so this is the z the new vertex keeps")
    chk.rule("Z.carry", "[USINGZ] conversion layer (ScalePath(s), BuildPath64/D, PolyPath64/D, C export converters): a vertex built from the x and y of one "
             "source vertex has a z argument - converted, scaled or copied vertices keep their z")
    chk.rule("ZCB.preserved", "[USINGZ] no Clipper64::Execute overload (callees included) writes zCallback_: the callback the user installed is still installed at the next Execute")
    chk.rule("Z.split", "DoSplitOp: zCallback_ is invoked on ip before ip is stored into an OutPt")
    chk.rule("Z.setz-table", "SetZ: ip equal to an end point takes its z (subject edge first), else DefaultZ; callback gets subject before clip")
    for b, z in pairs:
        db, dz = AstDB(b), AstDB(z)
        e6.rule_usingz(db, dz, chk)
        e7.rule_mustfollow(dz, chk, z)
        e7.rule_split(dz, chk, z)
        e7.rule_setz_table(dz, chk, z)
        e7.rule_zcb_rebound(dz, chk, z)
        # the user's callback stays installed: no Execute (nor what it calls - CleanUp, Reset) writes Clipper64's zCallback_
        from ..engines import e2_state as _e2z
        from .c12 import BASE as _BASE
        _engz = _e2z.E2(dz, chk, z, ["ClipperBase", "Clipper64"])
        _nz = _e2z.rule_config_preserved(_engz, chk, z, dz.find("Clipper64::Execute"), _BASE, {}, rule="ZCB.preserved", only={"zCallback_"})
        if _nz < 4:
            raise AnalysisBroken("ZCB.preserved: zCallback_ is not among the configuration members of Clipper64 in %s" % z)
        e7.rule_out_point_fresh(dz, chk, z)
        if e7.rule_crossing_default(dz, chk, z) < 1:
            raise AnalysisBroken("Z.crossing-default: no caller of IntersectEdges constructs its crossing point (%s)" % z)
        e7.rule_no_whole_then_part(dz, chk, z)
        if e7.rule_z_carry(dz, chk, z) < 3:
            raise AnalysisBroken("Z.carry: fewer than 3 vertex constructions from one source vertex in the conversion layer (%s)" % z)
    n = len(pairs)
    chk.floor("ZERASE", 450 * n)
    chk.floor("ZERASE.z-only-function", 6 * n)
    chk.floor("Z.must-follow", 12 * n)
    chk.floor("Z.out-point-fresh", 6 * n)
    chk.floor("Z.setz-table", 32 * n)
    chk.explanation = (
        "The plain build has no z member at all, so a USINGZ function that is identical to the plain one up to Z-only constructs cannot let z "
        "influence x, y or control flow; 499 function pairs of the three translation units and five headers are aligned node by node (the export "
        "header is excluded: its Z differences are layout, decided under C17). Z accounting is a forward may-pending analysis over the structured "
        "CFG of IntersectEdges. Trusted: a user callback writes only pt.z. NOT decided: that the vertex the callback saw survives CleanCollinear.")
    chk.assumptions = ["identity modulo patterns is a sufficient condition: a one-sided behaviour-preserving rewrite of one #ifdef branch is reported",
                       "user callbacks modify only the z member of the point they are given"]
