"""C01 - Boolean operations return the region defined by fill rule and clip type.

Decided clause (necessary condition, not the behaviour): the closed-path
contribution table IsContributingClosed equals the set-algebra definition on
every reachable abstract cell (fill rule x clip type x own path type x winding
cells), in every build configuration.
"""
from ..astq import AstDB
from ..engines import e3_tables as e3
from ..engines import e9_safety as e9
from ..engines import e2_state as e2
from ..extract import AnalysisBroken

LEVEL = "other"


def run(chk):
    cfgs = ["base", "z"] if chk.tier == "quick" else ["base", "z", "hi", "z+hi"]
    chk.configs = cfgs
    chk.rule("SUCCESS.re-armed", "every Execute writes succeeded_ (= true, in Reset) before the sweep loop `while (succeeded_)` reads it: data added through "
             "AddReuseableData (which clears the flag) is swept like any other")
    chk.rule("POLY.measure", "GetClosestPointOnSegment (used to pull an out-of-scanbeam intersection back onto a nearly horizontal edge), CrossProduct, DotProduct, "
             "DistanceSqr, PerpendicDistFromLineSqrd equal their defining real-number formulas")
    chk.rule("WRAP.no-passthrough", "Intersect / Union / Difference / Xor / BooleanOp never hand one of their path parameters back as the result (unless known "
             "empty): the result is what the sweep produced under the fill rule")
    chk.rule("FLOAT.double-only", "no float-typed expression and no single-precision math function in any library function")
    chk.rule("POLY.intersect", "GetSegmentIntersectPt (both precision variants): as a real-number formula the stored point lies on the lines through both "
             "segments, and 'parallel' is reported iff the cross product of the directions vanishes (identity of polynomial normal forms)")
    chk.rule("POLY.topx", "TopX is the x of the line through bot and top at the given y (with dx = GetDx(bot, top) as SetDx stores it); every shortcut "
             "return agrees with the general formula under its guard (identity of polynomial normal forms)")
    chk.rule("T.closed", "IsContributingClosed(fill, clip, own path type, wind_cnt cell, wind_cnt2 cell) == "
             "[the edge separates own-filled from own-unfilled AND flipping own membership changes op(subject, clip)], "
             "for every reachable cell; abstract interpretation of the function's AST, exhaustive over the partition")
    from ..engines import e14_poly as e14
    for cfg in sorted(set(cfgs) | {"hi"}):          # both intersection-point precision options, in the quick tier too
        e14.rule_intersect(AstDB(cfg), chk, cfg)
    for cfg in cfgs:
        db = AstDB(cfg)
        e3.table_closed(db, chk, cfg)
        e3.table_crossing_update(db, chk, cfg)
        e3.table_insertion_wind(db, chk, cfg)
        e3.table_crossing_dispatch(db, chk, cfg)
        e9.rule_int64_product(db, chk, cfg)
        e3.ip_on_edge_rule(db, chk, cfg)
        from ..engines import e8_scale as _e8
        _e8.rule_no_passthrough(db, chk, cfg)
        e14.rule_topx(db, chk, cfg)
        from .c11 import _success_flag
        _success_flag(db, chk, cfg)          # the sweep loop runs `while (succeeded_)`: every Execute re-arms the flag first
        e14.rule_measure(db, chk, cfg)       # GetClosestPointOnSegment: the other correction of an out-of-scanbeam intersection
        rec = db.record("Active")
        for fd in rec.fields:
            if fd.get("name") in ("wind_cnt", "wind_cnt2"):
                from ..astq import dqt as _dqt, where as _where
                t = _dqt(fd).replace("const ", "")
                ok = t in ("int", "long", "long long", "int32_t", "int64_t")
                chk.instance("TYPE.wind-count", {"field": fd.get("name"), "type": t, "cfg": cfg}, ok=ok)
                if not ok:
                    chk.violation("TYPE.wind-count", "Active", fd.get("name"), "Active::%s has type %s: winding numbers grow with the nesting depth of the input "
                                  "(one per enclosing contour) and must not wrap below 2^31" % (fd.get("name"), t), _where(fd), cfg=cfg)
        e3.no_single_precision(db, chk, cfg)
        from .c12 import _public_methods
        for cls in (["ClipperBase", "Clipper64"], ["ClipperBase", "ClipperD"]):
            eng = e2.E2(db, chk, cfg, cls)
            if e2.rule_sorted_flag(eng, chk, cfg, _public_methods(db, set(cls))) < 6:
                raise AnalysisBroken("SORTED.invalidate: fewer than 6 instances")
    chk.rule("T.wind-crossing", "the winding-count update of IntersectEdges equals the definition (crossing an edge left-to-right adds its "
             "wind_dx; wind_cnt is the side farther from zero; wind_cnt2 is the other type's region winding), for same-type and cross-type "
             "crossings, EvenOdd and the three signed rules, all direction pairs, every reachable winding cell")
    chk.rule("T.wind-insert", "wind_cnt of an edge inserted right of its same-type neighbour (SetWindCountForClosedPathEdge, non-EvenOdd) equals "
             "the definition; wind_cnt2 accumulates the other type's wind_dx")
    chk.rule("T.cross-dispatch", "IntersectEdges as a whole on closed paths: from every consistent state (edge carries output iff it is on the "
             "solution boundary for its counts; counts of the two AEL-adjacent edges geometrically consistent) the calls made "
             "(AddLocalMaxPoly / AddLocalMinPoly / AddOutPt / SwapOutrecs) leave each edge carrying output iff it is on the boundary for "
             "its updated counts")
    chk.rule("INT64.product", "no product is formed in a signed 64-bit integer type: C01 holds for coordinates up to 2^61, where any product of "
             "two coordinate differences wraps (TopX, intersection points and orientation tests work in double or 128-bit arithmetic)")
    chk.rule("TYPE.wind-count", "Active::wind_cnt and wind_cnt2 are at least 32-bit integers (winding numbers count enclosing contours)")
    chk.rule("IP.on-edge", "AddNewIntersectNode: an intersection computed outside its scanbeam is clamped to top_y / bot_y_ and its x is recomputed "
             "with TopX on one of the two edges at that same y (4 cells, correction block interpreted)")
    chk.rule("SORTED.invalidate", "the sweep pops local minima from a list it assumes sorted: every public method that may modify minima_list_ writes "
             "minima_list_sorted_ on every path, and the flag becomes true only right after a sort (E2 summaries)")
    chk.floor("T.cross-dispatch", 11000 * len(cfgs))
    chk.floor("T.closed", 1300 * len(cfgs))
    chk.floor("T.wind-crossing", 14000 * len(cfgs))
    chk.floor("T.wind-insert", 41 * len(cfgs))
    chk.exhaustive = True
    chk.explanation = (
        "Abstract interpretation of ClipperBase::IsContributingClosed over the finite partition "
        "{(-inf,-3],-2,-1,0,1,2,[3,inf)}^2 of (wind_cnt, wind_cnt2) x 4 fill rules x 5 clip types x 2 path types; every comparison "
        "the code performs is logged and verified to be uniform on each cell, so the extracted table is exact. It is compared, on the "
        "reachable cells (wind_cnt != 0; EvenOdd: wind_cnt in {+-1}, wind_cnt2 in {0,1}), with an oracle derived from the definition "
        "of the fill rules and the four set operations. The two places where winding counts are *computed* - the update when two edges "
        "cross (IntersectEdges) and the count given to an edge inserted next to a same-type neighbour (SetWindCountForClosedPathEdge) - are "
        "decided the same way; there the code adds +-1 to symbolic values, which the interpreter keeps as affine forms so that every "
        "comparison is still verified uniform on each cell and each ray is sampled at two points (two affine functions that agree at two "
        "points of a ray agree on it). NOT decided: that the AEL neighbour used is the right one, AEL ordering, intersection points, joins, "
        "output assembly, tolerances - i.e. the behaviour of C01 itself.")
    chk.assumptions = ["wind_cnt is the winding number of the side of the edge farther from zero (the code's stated invariant)",
                       "wind_cnt2 is the other path type's winding number of the region containing the edge"]
