"""C14 - independent objects can be used from different threads.

Decided clause: the library keeps no writable static-storage state, shared
Vertex data is never written outside path loading, and only thread-safe
externals are reachable.  Level: proof (obligations = static-storage variables
+ IR globals + Vertex-writing functions + reachable externals, all discharged).
"""
import os

from ..astq import AstDB
from ..irdb import Module
from ..engines import e1_globals as e1
from ..extract import VERIF

LEVEL = "proof"
CONTROL = os.path.join(VERIF, "driver", "controls", "e1_bad.cpp")


def run(chk):
    cfgs = ["base", "z"] if chk.tier == "quick" else ["base", "z", "hi", "z+hi", "noexc"]
    chk.configs = cfgs
    chk.rule("R1.static-storage", "every variable with static/thread storage duration in namespace Clipper2Lib is "
             "const-qualified, or has zero write sites, or is an allow-listed C-ABI slot written only by its setter; "
             "function-local statics are forbidden")
    chk.rule("R1.ir-globals", "IR cross-check: every store whose address is a module global lies in a global initialiser")
    chk.rule("R2.vertex-writers", "functions that store through a pointer into struct Vertex are exactly the "
             "path-loading functions, and none of them is reachable from the execution/output phase")
    chk.rule("R2b.container-read-only", "ReuseableDataContainer64 has no mutable member, and no function outside the class stores through a "
             "pointer derived from one of its members")
    chk.rule("R2.reuse-copies-minima", "AddReuseableData creates its own LocalMinima objects")
    chk.rule("R3.externals", "every undefined function reachable from library code is in the frozen list of thread-safe externals")
    chk.rule("DET.relational-comparisons", "no relational comparison of pointers, no unordered containers")
    for cfg in cfgs:
        db = AstDB(cfg)
        mod = Module(cfg)
        nv = e1.rule_r1_ast(db, chk, cfg)
        e1.rule_r1_ir(mod, chk, cfg)
        e1.rule_r2(mod, chk, cfg)
        e1.rule_r2b(db, mod, chk, cfg)
        e1.rule_r3(mod, chk, cfg)
        e1.rule_pointer_order(db, chk, cfg)
    chk.floor("R1.static-storage", 20 * len(cfgs))
    chk.floor("R2.vertex-writers", 3 * len(cfgs))
    chk.floor("R3.externals", 15 * len(cfgs))
    # positive controls: the same rules must fire on the control TU
    _controls(chk)
    chk.explanation = (
        "Static analysis (clang AST + -O0 LLVM IR of the unity TU, rebuilt from /repo on this run). "
        "Decides the structural clause of C14: no mutable state outside caller-created objects (R1), "
        "shared Vertex arrays read-only during execution (R2), only thread-safe externals reachable (R3), "
        "no address-order dependence (DET). Freedom from data races between distinct objects follows modulo the trusted base; "
        "equality with the sequential result additionally relies on C12's state-hygiene clause.")
    chk.trusted_base = ["clang 14 AST and IR generation", "libstdc++ containers are race-free on distinct objects",
                        "the frozen list of thread-safe externals (libm, operator new/delete, mem*, C++ runtime)",
                        "user callbacks (Z callback, delta callback) are the caller's responsibility",
                        "allow-listed C-ABI slots dllCallback64/dllCallbackD (USINGZ export layer only)"]
    chk.assumptions = ["typed-pointer IR: every store into a Vertex goes through a GEP or bitcast of %struct.Vertex*",
                       "indirect calls are std::function callbacks supplied by the caller"]


def _controls(chk):
    from ..report import Check
    c = Check("C14-control", chk.tier, 0)
    db = AstDB("base", tu=CONTROL)
    mod = Module("base", tu=CONTROL)
    e1.rule_r1_ast(db, c, "control")
    e1.rule_r1_ir(mod, c, "control")
    e1.rule_r2(mod, c, "control", strict=False)
    e1.rule_r3(mod, c, "control")
    e1.rule_pointer_order(db, c, "control")
    got = {(v["rule"], v["key"]) for v in c.violations}
    rules = {v["rule"] for v in c.violations}
    chk.control("R1.local-static on ControlLocalStatic::calls", ("R1.local-static", "calls") in got)
    chk.control("R1.global-write on control_scratch", ("R1.global-write", "control_scratch") in got)
    chk.control("R1.ir-store on ControlLocalStatic", "R1.ir-store" in rules)
    chk.control("R2.vertex-write on ControlVertexWrite", any(v["rule"] == "R2.vertex-write" and "ControlVertexWrite" in v["function"] for v in c.violations))
    chk.control("R3.extern on rand", ("R3.extern", "rand") in got)
    chk.control("DET.pointer-order on ControlPointerOrder", any(v["rule"] == "DET.pointer-order" and "ControlPointerOrder" in v["function"] for v in c.violations))
