"""C12 - results depend only on the current inputs, not on an object's history.

Decided clause: every scratch member of the four stateful classes is
re-initialised before use or cleaned at exit in every public operation; Clear()
resets what Add* touches; nothing is carried between the paths of a group, the
groups of an offset, or the paths of a RectClip/RectClipLines call; no
address/hash-order dependence; shared reusable data is never written.
"""
from ..astq import AstDB, kids
from ..irdb import Module
from ..engines import e2_state as e2
from ..engines import e1_globals as e1
from ..extract import AnalysisBroken

LEVEL = "other"

BASE = {
    "dbu": {"cliptype_": 1, "fillrule_": 1, "using_polytree_": 1, "bot_y_": 1, "actives_": 1, "sel_": 1,
            "current_locmin_iter_": 1, "succeeded_": 1},
    "clean": {"scanline_list_": 1, "intersect_nodes_": 1, "horz_seg_list_": 1, "horz_join_list_": 1, "outrec_list_": 1},
    "config": {"fillpos": 1, "minima_list_sorted_": 1, "minima_list_": 1, "vertex_lists_": 1, "preserve_collinear_": 1,
               "reverse_solution_": 1, "has_open_paths_": 1, "zCallback_": 1, "DefaultZ": 1, "scale_": 1, "invScale_": 1,
               "zCallbackD_": 1},
    "allow": {"error_code_": "documented sticky accumulator: ErrorCode() reports every error since construction"},
    "optional": ("zCallback_", "DefaultZ", "zCallbackD_", "scale_", "invScale_"),
}
OFFSET = {
    "dbu": {"error_code_": 1, "delta_": 1, "group_delta_": 1, "temp_lim_": 1, "join_type_": 1, "end_type_": 1, "solution": 1,
            "solution_tree": 1, "path_out": 1, "norms": 1},
    "clean": {},
    "config": {"groups_": 1, "miter_limit_": 1, "arc_tolerance_": 1, "preserve_collinear_": 1, "reverse_solution_": 1,
               "zCallback64_": 1, "deltaCallback64_": 1},
    "allow": {
        "steps_per_rad_": "written by DoGroupOffset iff the group's join or end type is Round and read only under the same predicate "
                          "(correlated branches on group.join_type / end_type_, beyond configuration splitting)",
        "step_sin_": "as steps_per_rad_",
        "step_cos_": "as steps_per_rad_",
    },
    # in the loops the correlation argument only holds while no delta callback is installed: with a callback DoRound
    # rewrites the three members for every vertex, and that is analysed, not allow-listed
    # (the group loop keeps the allowance in both worlds: DoGroupOffset recomputes the three members at its top under the very
    # predicate - group.join_type / end_type Round - under which they are read)
    "loop_allow": {"steps_per_rad_": lambda w, scope: "group loop" in scope or not w.get("deltaCallback64_"),
                   "step_sin_": lambda w, scope: "group loop" in scope or not w.get("deltaCallback64_"),
                   "step_cos_": lambda w, scope: "group loop" in scope or not w.get("deltaCallback64_")},
    "optional": ("zCallback64_",),
}
RECT = {
    "dbu": {"path_bounds_": 1},
    "clean": {"op_container_": 1, "results_": 1, "edges_": 1, "start_locs_": 1},
    "config": {"rect_": 1, "rect_as_path_": 1, "rect_mp_": 1},
    "allow": {},
}


def round_params_justified(db):
    """The allow-list entry for steps_per_rad_/step_sin_/step_cos_ rests on one fact: DoGroupOffset recomputes all three at
    its top level, guarded by nothing but the Round predicate under which they are later read.  Returns (ok, why)."""
    from ..astq import walk, canon, if_parts
    f = db.one("ClipperOffset::DoGroupOffset")
    site = None
    for s in kids(f.body):
        if s.get("kind") == "IfStmt":
            cond, then, els = if_parts(s)
            cs = canon(cond)
            if "Round" in cs and "join_type" in cs and "end_type" in cs and "||" in cs:
                site = (s, cond, then)
    if site is None:
        return False, "the `if (join type or end type is Round)` block is no longer at the top level of DoGroupOffset"
    s, cond, then = site
    need = {"steps_per_rad_", "step_sin_", "step_cos_"}
    got = set()
    for st in (kids(then) if then.get("kind") == "CompoundStmt" else [then]):
        # only unconditional top-level assignments of the block count (a nested `if` makes the recomputation conditional)
        if st.get("kind") == "IfStmt":
            continue
        for x in walk(st):
            if x.get("kind") == "BinaryOperator" and x.get("opcode") == "=":
                l = canon(kids(x)[0])
                if l in need:
                    got.add(l)
    if got != need:
        return False, "%s are not all recomputed unconditionally inside the Round block" % sorted(need - got)
    return True, ""


def offset_table(db):
    """OFFSET with the allowance withdrawn when its justification no longer holds."""
    ok, why = round_params_justified(db)
    if ok:
        return OFFSET, None
    t = dict(OFFSET)
    t["allow"] = {}
    t["loop_allow"] = {}
    t["dbu"] = dict(OFFSET["dbu"])
    for k in ("steps_per_rad_", "step_sin_", "step_cos_"):
        t["dbu"][k] = 1
    return t, why


def _public_methods(db, classes):
    out = []
    for c in classes:
        r = db.record(c)
        for m in r.methods:
            pass
    for f in db.funcs:
        if f.cls in classes and f.body is not None and not f.is_pattern and f.kind == "CXXMethodDecl":
            if f.node.get("access") in (None, "public") and _is_public(db, f):
                out.append(f)
    return out


def _is_public(db, f):
    # access specifier of the in-class declaration
    n = f.node
    decl = n
    if "previousDecl" in n and n["previousDecl"] in db.by_id:
        decl = db.by_id[n["previousDecl"]]
    acc = decl.get("access")
    if acc:
        return acc == "public"
    # clang's JSON omits 'access' on the method itself; derive from AccessSpecDecl order in the record
    rec = db.records.get(f.cls)
    cur = "private" if rec.node.get("tagUsed") == "class" else "public"
    for c in kids(rec.node):
        if c.get("kind") == "AccessSpecDecl":
            cur = c.get("access", cur)
        if c.get("id") == decl.get("id"):
            return cur == "public"
    return False


def run(chk):
    cfgs = ["base", "z"] if chk.tier == "quick" else ["base", "z", "hi", "noexc", "z+noexc"]
    chk.configs = cfgs
    chk.rule("DBU", "def-before-use: in every public Execute, no scratch member is read before the operation has written it "
             "(forward must-analysis over the structured CFG with interprocedural summaries and configuration splitting)")
    chk.rule("CLEAN", "scratch containers: empty at entry => certainly empty at every normal exit, for every public method (induction over call histories)")
    chk.rule("SORTED.invalidate", "every public method that may modify minima_list_ writes minima_list_sorted_ on every path; the flag is set to true only "
             "after a sort of the list (paths added after an Execute must be sorted in before the next one)")
    chk.rule("CONFIG.preserved", "no Execute overload writes a configuration member (loaded paths, options, has_open_paths_, ...) apart from the documented caches")
    chk.rule("OUTPUT.reset", "every result container an Execute overload receives by reference is emptied before anything is added to it (typestate over "
             "the callees it is handed to)")
    chk.rule("CLEAR", "Clear() must-defines every member the Add* family may modify")
    chk.rule("LOOP", "no member or outer local is written in one iteration of a per-path / per-group loop and read in the next before re-initialisation")
    chk.rule("DET.relational-comparisons", "no relational comparison of pointers, no unordered containers")
    chk.rule("R2.vertex-writers", "shared Vertex data (ReuseableDataContainer64) is written only while paths are loaded")
    for cfg in cfgs:
        db = AstDB(cfg)
        # ---- ClipperBase / Clipper64 / ClipperD ------------------------------------
        for cls in (["ClipperBase", "Clipper64"], ["ClipperBase", "ClipperD"]):
            eng = e2.E2(db, chk, cfg, cls)
            e2.check_classification(eng, BASE, chk, cls[-1])
            execs = db.find(cls[-1] + "::Execute")
            if len(execs) != 4:
                raise AnalysisBroken("expected 4 Execute overloads in %s, found %d" % (cls[-1], len(execs)))
            e2.rule_dbu(eng, chk, cfg, execs, BASE, [{}])
            pubs = _public_methods(db, set(cls))
            if len(pubs) < 9:
                raise AnalysisBroken("only %d public methods found for %s" % (len(pubs), cls))
            e2.rule_clean(eng, chk, cfg, pubs, BASE, [{}])
            allowed = {"minima_list_sorted_": "cache of 'minima_list_ is sorted', maintained by Reset together with the sort (SORTED.invalidate)"}
            if cls[-1] == "ClipperD":
                allowed["zCallback_"] = "USINGZ: derived from zCallbackD_ by CheckCallback() at the start of every ClipperD::Execute (re-established, not carried)"
            e2.rule_config_preserved(eng, chk, cfg, execs, BASE, allowed)
            if e2.rule_sorted_flag(eng, chk, cfg, pubs) < 6:
                raise AnalysisBroken("SORTED.invalidate: fewer than 6 instances (methods that modify minima_list_ / writes of minima_list_sorted_)")
            adds = [f for f in db.funcs if f.cls in cls and f.name in ("AddPath", "AddPaths", "AddSubject", "AddOpenSubject", "AddClip", "AddReuseableData") and not f.is_pattern]
            e2.rule_clear(eng, chk, cfg, db.one("ClipperBase::Clear"), adds, BASE)
            if eng.unknown_methods:
                raise AnalysisBroken("container methods without a model: %s" % sorted(eng.unknown_methods))
        # ---- ClipperOffset ------------------------------------------------------------
        eng = e2.E2(db, chk, cfg, ["ClipperOffset"])
        OFF, why = offset_table(db)
        if why:
            chk.notes.append("allowance for steps_per_rad_/step_sin_/step_cos_ withdrawn: " + why)
        e2.check_classification(eng, OFF, chk, "ClipperOffset")
        execs = db.find("ClipperOffset::Execute")
        if len(execs) != 3:
            raise AnalysisBroken("expected 3 ClipperOffset::Execute overloads, found %d" % len(execs))
        worlds = [{"deltaCallback64_": False}, {"deltaCallback64_": True}]
        chk.allow("E2", "ClipperOffset::deltaCallback64_", "public option; Execute(DeltaCallback64, ...) stores it exactly like "
                  "SetDeltaCallback and it persists by design; analysed by configuration splitting (set / unset)")
        e2.rule_dbu(eng, chk, cfg, execs, OFF, worlds)
        e2.rule_config_preserved(eng, chk, cfg, execs, OFF, {"deltaCallback64_": "Execute(DeltaCallback64, ...) stores the callback by design (allow-listed above)"})
        ei = db.one("ClipperOffset::ExecuteInternal")
        gl = e2.find_loops(ei, lambda l: "groups_" in e2.loop_header_text(l) and any(
            x.get("kind") == "MemberExpr" and x.get("name") == "DoGroupOffset" for x in e2.walk(l)))
        if len(gl) != 1:
            raise AnalysisBroken("group loop of ClipperOffset::ExecuteInternal not found (%d candidates)" % len(gl))
        e2.rule_loop(eng, chk, cfg, ei, gl[0], OFF, worlds, "group loop of ClipperOffset::ExecuteInternal")
        dg = db.one("ClipperOffset::DoGroupOffset")
        pl = e2.find_loops(dg, lambda l: "paths_in" in e2.loop_header_text(l))
        if len(pl) != 1:
            raise AnalysisBroken("path loop of ClipperOffset::DoGroupOffset not found (%d candidates)" % len(pl))
        e2.rule_loop(eng, chk, cfg, dg, pl[0], OFF, worlds, "path loop of ClipperOffset::DoGroupOffset")
        if eng.unknown_methods:
            raise AnalysisBroken("container methods without a model: %s" % sorted(eng.unknown_methods))
        # ---- RectClip64 / RectClipLines64 ------------------------------------------------
        eng = e2.E2(db, chk, cfg, ["RectClip64", "RectClipLines64"])
        e2.check_classification(eng, RECT, chk, "RectClip64")
        for q in ("RectClip64::Execute", "RectClipLines64::Execute"):
            f = db.one(q)
            e2.rule_dbu(eng, chk, cfg, [f], RECT, [{}])
            e2.rule_clean(eng, chk, cfg, [f], RECT, [{}])
            ls = e2.find_loops(f, lambda l: l.get("kind") == "CXXForRangeStmt" and "paths" in e2.loop_header_text(l))
            if len(ls) != 1:
                raise AnalysisBroken("path loop of %s not found (%d candidates)" % (q, len(ls)))
            e2.rule_loop(eng, chk, cfg, f, ls[0], RECT, [{}], "path loop of " + q)
        if eng.unknown_methods:
            raise AnalysisBroken("container methods without a model: %s" % sorted(eng.unknown_methods))
        # ---- results do not depend on what the caller's output containers held ---------------------------
        from ..engines import e10_pipeline as e10
        outs = db.find("Clipper64::Execute") + db.find("ClipperD::Execute") + db.find("ClipperOffset::Execute")
        if e10.rule_outputs_reset(db, chk, cfg, outs) < 10:
            raise AnalysisBroken("OUTPUT.reset: fewer than 10 output parameters found on the Execute overloads")
        # ---- determinism and shared data -----------------------------------------------------
        e1.rule_pointer_order(db, chk, cfg)
        e1.rule_r2(Module(cfg), chk, cfg)
    n = len(cfgs)
    chk.floor("DBU", (8 * 4 * 2 + 10 * 3 * 2 + 2) * n)
    chk.floor("CLEAN", 5 * 9 * 2 * n)
    chk.floor("CLEAR", 4 * 2 * n)
    chk.floor("LOOP", 4 * n)
    chk.explanation = (
        "History can only act through a member that survives from one call (or loop iteration) to the next. The engine abstracts every "
        "statement of the stateful classes' methods to effects on members and decides, for all call histories at once: (DBU) scratch members "
        "are written before read in every Execute; (CLEAN) scratch containers empty at entry are empty at every normal exit of every public "
        "method (induction); (CLEAR) Clear() resets what Add* modifies; (LOOP) nothing is carried between iterations of the per-group / "
        "per-path loops of ClipperOffset, RectClip64 and RectClipLines64, analysed separately with the delta callback set and unset. "
        "This is the repository's own idiom for history independence (Reset at entry, CleanUp at exit), a sufficient condition. "
        "NOT decided: state left behind when an exception (bad_alloc) leaves an operation half-way.")
    chk.assumptions = ["members are accessed through this (no aliasing through escaped addresses, which the engine reports as 'escape')",
                       "std:: container methods behave as modelled in the frozen table (clear/resize(0)/=T() empty; push/emplace/insert fill)"]
