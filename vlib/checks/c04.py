"""C04 - PolyTree solutions carry the same paths with correct nesting.

Decided clauses: tree output and paths output send every closed and open contour
through the same calls with the same arguments (PIPELINE, PRECEDE, SIBLING);
`using_polytree_` can only influence ownership fields (CONFINE), so the *set of
rings* cannot depend on the output mode.  That the owners are right
(containment, alternation of depth, area equality) is NOT decided.
"""
from ..astq import AstDB
from ..engines import e10_pipeline as e10
from ..engines import e6_siblings as e6

LEVEL = "other"


def _scale_inherited(db, chk, cfg, rule="SCALE.inherited"):
    """PolyPathD de-scales the integer rings it is given with scale_, and hands scale_ on to its children through their constructors:
    every constructor that takes the parent node stores a value read from the parent's scale_ into its own scale_.  A node that skips
    the store converts its own ring correctly (from the parent's value) but its children are converted with whatever scale_ held -
    every ring from depth 2 on stays in scaled integer coordinates, so the tree no longer carries the paths of the Paths solution."""
    from ..astq import walk, kids, canon, where
    from ..extract import AnalysisBroken
    n = 0
    for f in db.funcs:
        if f.kind != "CXXConstructorDecl" or f.cls != "PolyPathD" or f.is_pattern or f.body is None:
            continue
        par = [p for p in f.params if "PolyPathD *" in (p.get("type") or {}).get("qualType", "")]
        if not par:
            continue
        n += 1
        pname = par[0].get("name")
        ok = False
        for x in walk(f.node):
            if x.get("kind") == "BinaryOperator" and x.get("opcode") == "=" and kids(x)[0].get("kind") == "MemberExpr" and kids(x)[0].get("name") == "scale_":
                ok = ok or any(m.get("kind") == "MemberExpr" and m.get("name") == "scale_" and canon(m).startswith(str(pname)) for m in walk(kids(x)[1]))
            if x.get("kind") == "CXXCtorInitializer" and (x.get("anyInit") or {}).get("name") == "scale_":
                ok = ok or any(m.get("kind") == "MemberExpr" and m.get("name") == "scale_" and canon(m).startswith(str(pname)) for m in walk(x))
        chk.instance(rule, {"constructor": f.sig[:70], "stores_parent_scale": ok, "cfg": cfg}, ok=ok)
        if not ok:
            chk.violation(rule, f.qual, f.sig[:50], "PolyPathD constructor %s takes the parent node `%s` but never stores %s->scale_ into its own scale_: the children "
                          "added below this node are de-scaled with the wrong factor (rings at depth 2 and deeper stay in scaled integer coordinates)"
                          % (f.sig[:60], pname, pname), f.where, cfg=cfg)
    if n < 2:
        raise AnalysisBroken("SCALE.inherited: fewer than 2 PolyPathD constructors taking the parent node (%s)" % cfg)
    return n


def run(chk):
    cfgs = ["base", "z"] if chk.tier == "quick" else ["base", "z", "hi", "noexc"]
    chk.configs = cfgs
    chk.rule("PIP.on-edge", "point-in-polygon routines (PointInPolygon, PointInOpPolygon): every cross product that decides a toggle is kept in a local that is tested for "
             "zero with IsOn returned - a point exactly on an edge is never classified by that edge's direction")
    chk.rule("SCALE.inherited", "every PolyPathD constructor that takes the parent node stores the parent's scale_ into its own: children are de-scaled with the factor of the tree's root")
    chk.rule("PRECISION.forwarded", "every function with a precision parameter uses it for more than validation and constructs no ClipperD with the default precision: "
             "the PolyTreeD overloads compute the same rings as the PathsD overloads at every precision")
    chk.rule("SPLIT.recorded", "DoSplitOp / ProcessHorzJoins: on every tree-mode path after NewOutRec() the two halves are tied through a splits list before the "
             "iteration ends (RecursiveCheckOwners finds the real owner of a ring nested in the split-off half only through it)")
    chk.rule("OWNER.reparent", "SetOwner executed on every ownership forest over four records: outrec ends up under new_owner, the forest stays acyclic, bystanders are "
             "untouched and new_owner keeps its live ancestors (outrec's, when it hung below outrec) - no ring is cut loose to top level")
    chk.rule("OWNER.assigned", "AddLocalMinPoly / AddLocalMaxPoly: whatever GetPrevHotEdge returns, the ring's tentative owner is assigned (SetOwner, or nullptr when there "
             "is no hot edge to the left) on every path on which tree output is possible")
    chk.rule("LOOP.bound-live", "the output builders' index loops over outrec_list_ re-read its size in every iteration: rings that CleanCollinear splits off while "
             "the solution is built (appended to the list) are emitted too - in the paths output as in the tree output")
    chk.rule("PIPELINE", "BuildPaths64/D and BuildTree64/D (+CheckBounds) perform the same call sequence with the same arguments for closed and for open contours")
    chk.rule("PRECEDE", "closed paths are cleaned before they are built, in both output modes")
    chk.rule("CONFINE", "every branch on using_polytree_ writes only owner / splits / recursive_split / polypath / OutPt::outrec (callees included)")
    chk.rule("OWNER.deepest-first", "CheckSplitOwner assigns `split` as owner only after split->splits has been searched (innermost owner)")
    chk.rule("T.rect", "Rect::Contains(Rect) is closed inclusion on every ordering of the eight coordinates (the owner search uses it to pre-select "
             "candidates: a child whose box shares a side with its parent's must not be rejected)")
    chk.rule("T.inside-vote", "Path1InsidePath2: a vertex outside / inside / on the candidate parent changes the count by +1 / -1 / 0; a count of "
             "<= -2 answers inside, >= 2 answers outside, only -1..1 use the bounding-box midpoint fallback (10 cells)")
    chk.rule("SPLITS.append-only", "OutRec::splits lists only grow: created where there was none, appended to, emptied only after their entries were "
             "appended to another list (MoveSplits); never overwritten, swapped or erased")
    chk.rule("PLUMB", "polytree children are created from outrec->path, which only CheckBounds builds")
    chk.rule("SIBLING.64-D", "BuildTreeD equals BuildTree64 modulo renames and de-scaling")
    for cfg in cfgs:
        _scale_inherited(AstDB(cfg), chk, cfg)
        db = AstDB(cfg)
        e10.rule_pipeline(db, chk, cfg)
        e10.rule_precede(db, chk, cfg)
        e10.rule_confine(db, chk, cfg)
        e10.rule_plumb(db, chk, cfg)
        e10.rule_deepest_first(db, chk, cfg)
        e10.rule_splits_append_only(db, chk, cfg)
        from ..engines import e3_tables as e3
        e3.inside_vote_table(db, chk, cfg)
        e3.pip_on_edge_sites(db, chk, cfg)
        e10.rule_owner_assigned(db, chk, cfg)
        e10.rule_owner_reparent(db, chk, cfg)
        e10.rule_split_recorded(db, chk, cfg)
        from ..engines import e8_scale as _e8p4
        _e8p4.rule_precision_forwarded(db, chk, cfg)     # the tree overload of BooleanOp must work at the precision the paths overload works at
        from ..engines import e2_state as _e2, e10_pipeline as _e10
        if _e10.rule_bound_live(db, chk, cfg, lambda cls: _e2.E2(db, chk, cfg, cls)) < 4:
            from ..extract import AnalysisBroken as _AB
            raise _AB("LOOP.bound-live: fewer than 4 index loops over a member container that their body can grow (configuration %s)" % cfg)
        e3.rect_shortcuts(db, chk, cfg)       # the owner search rejects a candidate unless candidate.bounds.Contains(child.bounds): closed inclusion
        e6.rule_64_d(db, chk, cfg, only=("Clipper64::BuildTree64", "Clipper64::Execute"))
    n = len(cfgs)
    chk.floor("PIPELINE", 2 * n)
    chk.floor("CONFINE", 5 * n)
    chk.floor("PRECEDE", 7 * n)
    chk.explanation = (
        "Effect confinement: for each of the five branches on using_polytree_ the set of members written in the controlled region, callees "
        "included, is computed from the AST and must be a subset of the ownership fields (one reasoned exception: ProcessHorzJoins swaps which "
        "OutRec holds which of two rings). Together with the identical build pipelines this decides that executing into a PolyTree cannot "
        "change which rings exist. NOT decided: nesting correctness (owners, IsHole alternation, area equality).")
